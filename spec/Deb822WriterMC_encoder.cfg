SPECIFICATION Spec
CONSTANTS
  MaxLines = 1
  Mode = "encoder"
INVARIANT Holds
CHECK_DEADLOCK FALSE
