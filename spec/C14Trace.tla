------------------------------ MODULE C14Trace ------------------------------
(* V mode for C14/C16 and the .deb level of C15: judge observations of      *)
(* deb.Load / Deb.CheckDebsig on packages built from DebPkg shapes.         *)
EXTENDS DebPkg, TraceLib
VARIABLES l, verdict
vars == <<l, verdict>>

SameOutcome(reps) == \A i, j \in 1..Len(reps) : reps[i].id = reps[j].id /\ reps[i].ok = reps[j].ok

ControlAgrees(obs, fields) ==
    LET c == obs.control
        ref == RefRead(ControlBytes(fields))
        T(n) == IF HasField(fields, n) THEN FieldText(fields, n) ELSE <<>>
        bN(s) == s
    IN /\ ref.wf /\ Len(ref.paras) = 1
       /\ ParaMatches(obs.para, ref.paras[1])
       /\ c.Package = T(<<80, 97, 99, 107, 97, 103, 101>>)
       /\ c.Version = T(<<86, 101, 114, 115, 105, 111, 110>>)
       /\ c.Architecture = T(<<65, 114, 99, 104, 105, 116, 101, 99, 116, 117, 114, 101>>)
       /\ c.Maintainer = T(<<77, 97, 105, 110, 116, 97, 105, 110, 101, 114>>)
       /\ c.InstalledSize = DigitsVal(T(<<73, 110, 115, 116, 97, 108, 108, 101, 100, 45, 83, 105, 122, 101>>))
       /\ c.Depends = T(<<68, 101, 112, 101, 110, 100, 115>>)
       /\ c.Source = T(<<83, 111, 117, 114, 99, 101>>)
       /\ c.SourceName = (IF c.Source = <<>> THEN c.Package ELSE c.Source)
       /\ ValueLines(c.Description) = ref.paras[1][CHOOSE k \in 1..Len(ref.paras[1]) :
                                          ref.paras[1][k].name = <<68, 101, 115, 99, 114, 105, 112, 116, 105, 111, 110>>].lines

TarAgrees(obs, files) ==
    LET want == RegularFiles(files) IN
    /\ Len(obs.tar) = Len(want)
    /\ \A k \in 1..Len(want) :
          /\ obs.tar[k].name = want[k].name
          /\ IF want[k].kind = "fill"       \* content <<b, e>> : the byte b repeated 2^e times, logged as length and fill byte
             THEN obs.tar[k].len = 2 ^ want[k].content[2] /\ obs.tar[k].fill = want[k].content[1]
             ELSE IF want[k].kind = "fillk"  \* content <<b, k>> : the byte b repeated 512*k times
             THEN obs.tar[k].len = 512 * want[k].content[2] /\ (obs.tar[k].fill = want[k].content[1] \/ obs.tar[k].len <= 65536)
             ELSE obs.tar[k].content = want[k].content

JudgeC14(rec) ==
    LET ms == rec.in.members
        class == ShapeClass(ms)
        f == rec.first
        c == ms[TheOne(Idx(ms, "control"))]
        d == ms[TheOne(Idx(ms, "data"))]
    IN IF ~rec.built THEN V(TRUE, "aux", "")
       ELSE Checks(class,
       << <<\A k \in 1..Len(rec.reps) : rec.reps[k].id # "panic", "panic">>,
          <<SameOutcome(rec.reps), "loading the same bytes gives different results">>,
          <<class = "reject" => ~f.ok, "package that must be rejected was loaded">>,
          <<class = "wellformed" => f.ok, "well-formed package rejected">>,
          <<(class = "wellformed" /\ f.ok) => ControlAgrees(f, c.fields), "control fields differ from the packaged control paragraph">>,
          <<(class = "wellformed" /\ f.ok) => (f.control_ext = c.extname /\ f.data_ext = d.extname), "control/data extension wrong">>,
          <<(class = "wellformed" /\ f.ok) => (Range(f.ar_names) = {ms[i].name : i \in 1..Len(ms)} /\ Len(f.ar_names) = Len(ms)),
            "index of ar members differs from the archive">>,
          <<(class = "wellformed" /\ f.ok) => TarAgrees(f, d.files), "data tar stream differs from the packaged files">>,
          \* (the harness writes every ar header with mtime 5656124762, owner 123456, group 654321, mode 37777775: full-width columns)
          <<(class = "wellformed" /\ f.ok) => \A k \in 1..Len(f.ar_meta) :
                f.ar_meta[k].mtime = "5656124762" /\ f.ar_meta[k].uid = 123456 /\ f.ar_meta[k].gid = 654321 /\ f.ar_meta[k].mode = "37777775",
            "the index of ar members records other metadata than the archive's headers">>,
          <<(class = "wellformed" /\ f.ok) => (~rec.overlap.panic /\ rec.overlap.ok /\ TarAgrees([tar |-> rec.overlap.tar1], d.files)
                                               /\ TarAgrees([tar |-> rec.overlap.tar2], d.files)),
            "two loads of the same bytes that are open at the same time do not both deliver the packaged files">> >>)

\* ---- C16 ------------------------------------------------------------------
JudgeC16(rec) ==
    LET ms == rec.in.members
        chk == rec.in.check
        \* a flipped byte inside a SIGNED member must break verification; a flipped byte inside the
        \* signature member itself may leave a signature that is still valid (like a canon-preserving
        \* edit of clearsigned text): nothing is demanded then
        flipped == IF rec.in.tamper.kind = "flip" THEN {rec.in.tamper.member} ELSE {}
        tam == {i \in flipped : ms[i].role # "sig"}
        b == Idx(ms, "binary")  c == Idx(ms, "control")  d == Idx(ms, "data")
        sigs == {i \in 1..Len(ms) : ms[i].role = "sig" /\ ms[i].name = "_gpg" \o chk.role}
        unique == Cardinality(b) = 1 /\ Cardinality(c) = 1 /\ Cardinality(d) = 1
        ring == Range(chk.keyring)
        \* may a successful verification be reported at all?
        mayVerify == /\ unique /\ sigs # {}
                     /\ \E s \in sigs : /\ s \notin tam
                                        /\ Verifies(ms[s], <<TheOne(b), TheOne(c), TheOne(d)>>, ring, tam)
        \* must verification succeed? (positive path: otherwise "always fail" would pass)
        mustVerify == /\ ShapeClass(ms) = "wellformed" /\ flipped = {} /\ Cardinality(sigs) = 1 /\ mayVerify
                      /\ MorePackets(ms[TheOne(sigs)]) = <<>>
        theSig == ms[TheOne(sigs)]
        class == IF mustVerify THEN "must-verify" ELSE IF mayVerify THEN "may-verify" ELSE "must-fail"
    IN IF ~rec.built THEN V(TRUE, "aux", "")
       ELSE Checks(class,
       << <<\A k \in 1..Len(rec.reps) : rec.reps[k].id # "panic", "panic">>,
          <<\A k \in 1..Len(rec.reps) : rec.reps[k].sig_ok => rec.reps[k].ok, "signature reported for a package that did not load">>,
          <<~mayVerify => \A k \in 1..Len(rec.reps) : ~rec.reps[k].sig_ok,
            "debsig verification succeeded although the signature does not cover the loaded members">>,
          <<\A k \in 1..Len(rec.reps) : rec.reps[k].sig_ok => rec.reps[k].signer \in ring,
            "reported signer is not a key of the keyring">>,
          <<\A i, j \in 1..Len(rec.reps) : rec.reps[i].id = rec.reps[j].id,
            "loading and checking the same signed package repeatedly gives different results (control data, payload or verdict)">>,
          <<rec.first.ok => \A k \in 1..Len(rec.first.sig_again) :
                LET a == rec.first.sig_again[k]  r2 == {a.ring[i] : i \in 1..Len(a.ring)} IN
                /\ a.ok => (a.signer \in r2 /\ unique /\ sigs # {} /\
                            \E s \in sigs : s \notin tam /\ Verifies(ms[s], <<TheOne(b), TheOne(c), TheOne(d)>>, r2, tam))
                /\ a.ok => a.signer \in {Packets(ms[CHOOSE s \in sigs : TRUE])[q].key : q \in 1..Len(Packets(ms[CHOOSE s \in sigs : TRUE]))},
            "a later CheckDebsig call on the same loaded package succeeded for a keyring that does not hold the signing key">>,
          \* ... and the positive side of the same: what the package's signature is worth does not wear off with use
          <<(rec.first.ok /\ ShapeClass(ms) = "wellformed" /\ flipped = {} /\ Cardinality(sigs) = 1 /\ unique /\ MorePackets(ms[TheOne(sigs)]) = <<>>) =>
                \A k \in 1..Len(rec.first.sig_again) :
                    LET a == rec.first.sig_again[k]  r2 == {a.ring[i] : i \in 1..Len(a.ring)} IN
                    Verifies(ms[TheOne(sigs)], <<TheOne(b), TheOne(c), TheOne(d)>>, r2, tam) => (a.ok /\ a.signer = ms[TheOne(sigs)].key),
            "a later CheckDebsig call on the same loaded package refused a valid signature by a key of the keyring it was given">>,
          <<mustVerify => \A k \in 1..Len(rec.reps) : rec.reps[k].ok /\ rec.reps[k].sig_ok /\ rec.reps[k].signer = theSig.key,
            "valid signature by a keyring key over the loaded members was not accepted">>,
          <<(unique /\ ShapeClass(ms) = "wellformed" /\ rec.first.ok /\ rec.first.sig.ok) => ControlAgrees(rec.first, ms[TheOne(c)].fields),
            "loaded control data is not that of the signed control member">>,
          <<(unique /\ ShapeClass(ms) = "wellformed" /\ flipped = {}) => \A k \in 1..Len(rec.reps) :
                (rec.reps[k].ok /\ rec.reps[k].sig_ok) => rec.reps[k].pkg = FieldText(ms[TheOne(c)].fields, <<80, 97, 99, 107, 97, 103, 101>>),
            "a load whose signature verified exposes another package's control data than the signed control member's">>,
          <<(unique /\ ShapeClass(ms) = "wellformed" /\ rec.first.ok /\ rec.first.sig.ok) => TarAgrees(rec.first, ms[TheOne(d)].files),
            "loaded payload is not that of the signed data member">> >>)

\* ---- C15 (.deb level): arbitrary bytes --------------------------------------
JudgeDebRaw(rec) ==
    Checks(IF \A k \in 1..Len(rec.ids) : rec.ids[k] = "error" THEN "rejected" ELSE "loaded",
       << <<~rec.hang, "deb.Load does not return">>,
          <<\A k \in 1..Len(rec.ids) : rec.ids[k] # "panic", "panic">>,
          <<\A i, j \in 1..Len(rec.ids) : rec.ids[i] = rec.ids[j], "loading the same bytes gives different results">>,
          <<HasField(rec, "overlap") => (~rec.overlap.panic /\ rec.overlap.ok /\ rec.overlap.tar1 = rec.tar_first /\ rec.overlap.tar2 = rec.tar_first),
            "two loads of the same bytes that are open at the same time do not both deliver what one load alone delivers">> >>)

\* ---- several loaded packages alive in one process -----------------------------------------------------
\* abstract state per handle: the package it was loaded from.  Whatever else has been loaded, read or closed (even
\* twice) before, a handle's Control names its package, its Data stream lists that package's files, and the
\* signature that covers that package verifies.
JudgeLife(rec) ==
    LET ops == rec.in.ops
        PkgOf(h) == rec.in.pkgs[ops[CHOOSE j \in 1..Len(ops) : ops[j].op \in {"load", "loadfile", "loadlink"} /\ ops[j].h = h].p]
        \* does the package a handle was loaded from carry a signature by k1 over its three members, in order?
        Signed(pkg) == \E m \in 1..Len(pkg) : pkg[m].role = "sig" /\ Verifies(pkg[m], <<1, 2, 3>>, {"k1"}, {})
        ClosedBefore(i, h) == \E j \in 1..(i - 1) : ops[j].op \in {"close", "closer"} /\ ops[j].h = h
        Name(h) == FieldText(PkgOf(h)[2].fields, <<80, 97, 99, 107, 97, 103, 101>>)
        \* the xz dictionary limit in force at step i (process-wide; 0 = default) and whether a package needs it
        DictOps(i) == {j \in 1..(i - 1) : ops[j].op = "dict"}
        LimitAt(i) == IF DictOps(i) = {} THEN 0 ELSE ops[CHOOSE j \in DictOps(i) : \A q \in DictOps(i) : q <= j].p
        IsXz(pkg) == pkg[2].comp = "xz" \/ pkg[3].comp = "xz"
        Loads(i) == ~IsXz(PkgOf(ops[i].h)) \/ LimitAt(i) = 0 \/ LimitAt(i) >= 262144
        Bad(i) == LET o == rec.steps[i]  h == ops[i].h IN
                  \/ o.panic
                  \/ CASE ops[i].op = "dict"  -> FALSE
                       [] ops[i].op = "load" /\ ~Loads(i) -> o.ok          \* a dictionary beyond the limit in force is refused
                       [] ops[i].op \in {"load", "loadfile", "loadlink"}  -> ~(o.ok /\ o.package = Name(h))
                       [] ops[i].op \in {"closer", "replace"} -> FALSE
                       [] ops[i].op = "close" -> FALSE
                       [] ops[i].op = "data"  -> ~(o.ok /\ o.package = Name(h) /\ TarAgrees([tar |-> o.tar], PkgOf(h)[3].files))
                       \* the verdict is about the members that were LOADED: never a success for a package that was not signed,
                       \* whatever its path holds now; a success for a signed one as long as the handle is open
                       [] ops[i].op = "check" -> IF ~Signed(PkgOf(h)) THEN o.ok
                                                 ELSE IF ClosedBefore(i, h) THEN o.ok /\ o.signer # "k1"
                                                 ELSE ~(o.ok /\ o.signer = "k1" /\ o.package = Name(h))
        bad == {i \in 1..Len(ops) : Bad(i)}
        first == CHOOSE i \in bad : \A j \in bad : i <= j
    IN IF ~rec.built THEN V(TRUE, "aux", "")
       ELSE IF Len(rec.steps) # Len(ops) THEN V(FALSE, "package-lifecycle", "missing steps")
       ELSE IF bad = {} THEN V(TRUE, "package-lifecycle", "")
       ELSE V(FALSE, "package-lifecycle", "with several loaded packages alive in one process (some closed, some twice), a handle (" \o
              ops[first].op \o ") does not show its own package: control, data stream or signature verdict belong to something else")

Judge(rec) ==
    CASE rec.ev = "deb_ops" -> JudgeLife(rec)
      [] rec.ev = "deb" /\ "check" \in DOMAIN rec.in -> JudgeC16(rec)
      [] rec.ev = "deb" /\ "check" \notin DOMAIN rec.in -> JudgeC14(rec)
      [] rec.ev = "debraw" -> JudgeDebRaw(rec)
      [] OTHER -> V(FALSE, "unknown-event", "unknown event")

Init == l \in 1..Len(Trace) /\ verdict = Pending
Next == verdict.class = "pending" /\ verdict' = JudgeOrCrash(Trace[l], Judge) /\ UNCHANGED l
Spec == Init /\ [][Next]_vars
=============================================================================
