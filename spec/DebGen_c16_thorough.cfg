INIT GenInit
NEXT GenNext
CONSTANTS
  Mode = "c16"
  Comps = {"gz"}
  Reps = 50
