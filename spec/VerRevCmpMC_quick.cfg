SPECIFICATION Spec
INVARIANTS Refines Bounds
PROPERTIES Progress Terminates
CONSTANTS
  Alphabet = {48, 49, 57, 97, 90, 126, 43, 46}
  MaxLen = 2

CHECK_DEADLOCK FALSE
