SPECIFICATION Spec
CONSTANTS
  Handles = {"h1", "h2", "h3"}
INVARIANTS Balanced Quiet
CHECK_DEADLOCK FALSE
