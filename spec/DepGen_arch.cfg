INIT GenInit
NEXT GenNext
CONSTANTS
  Orders = {"avs"}
  Styles = {"min", "canon", "wide", "fold"}
  Mode = "arch"
  Kind = "x"
  MaxAlts = 1
  SetEntries = "few"
