SPECIFICATION Spec
CONSTANTS
  Loaders = {"l1", "l2"}
  Setters = {"s1"}
  Discipline = "lock"
INVARIANTS TypeOK NoRace
CHECK_DEADLOCK FALSE
