------------------------------- MODULE DebPkg -------------------------------
(***************************************************************************)
(* .deb packages (deb(5)) at the level of structure: which ar members      *)
(* exist, in which order, under which names and encodings, what the        *)
(* control tar and data tar hold, who signed what.  Compression, tar and   *)
(* OpenPGP are ground truth supplied by the harness; this module says what *)
(* the loader and the debsig check must make of a package shape.           *)
(*                                                                         *)
(* member = [role, name, text, comp, extname, fields, files, content, key, *)
(*           over]   (uniform shape; unused fields are empty)              *)
(*   role "binary"  : text = content of debian-binary                     *)
(*   role "control" : comp, extname (= name after "control."), fields =    *)
(*                    control paragraph as <<name, text>> pairs in file    *)
(*                    syntax, files = tar entries [name, kind, content]    *)
(*   role "data"    : comp, extname, files                                *)
(*   role "extra"   : content                                              *)
(*   role "sig"     : name "_gpg<role>", key, over = indices signed        *)
(***************************************************************************)
EXTENDS Deb822

Idx(ms, r) == {i \in 1..Len(ms) : ms[i].role = r}
TheOne(S) == CHOOSE x \in S : TRUE

V20 == <<50, 46, 48, 10>>          \* "2.0\n"

\* the digits before the first '.', when the text starts with digits followed by a '.' (else <<>>)
RECURSIVE DigitsPrefix(_, _)
DigitsPrefix(t, k) == IF k <= Len(t) /\ IsDigit(t[k]) THEN DigitsPrefix(t, k + 1) ELSE k - 1
MajorOf(text) == LET n == DigitsPrefix(text, 1) IN
                 IF n >= 1 /\ n < Len(text) /\ text[n + 1] = DOT THEN SubSeq(text, 1, n) ELSE <<>>
\* what the property says about the debian-binary text
BinaryClass(text) ==
    IF Len(text) >= 4 /\ SubSeq(text, 1, 4) = V20 THEN "ok"       \* first line "2.0"; deb(5): further lines are to be ignored
    ELSE IF MajorOf(text) # <<>> /\ MajorOf(text) # <<50>> THEN "reject"                       \* "<digits>." with a major version other than 2 (3.0, 1.0, 20.0)
    ELSE "unspecified"                                                       \* 2.1, missing newline, junk

\* standard layout: debian-binary, control, data first, in that order
Standard(ms) == /\ Len(ms) >= 3 /\ ms[1].role = "binary" /\ ms[2].role = "control" /\ ms[3].role = "data"
                /\ \A i \in 4..Len(ms) : ms[i].role \in {"extra", "sig", "extra-ctl", "extra-dat"}
\* (extra-ctl / extra-dat: tarballs shaped like a control or data member under a name that does NOT begin with
\*  "control." / "data.", e.g. "control_.tar.gz": just extra members)

HasControlFile(m) == \E k \in 1..Len(m.files) : m.files[k].kind = "control"

\* class of a package shape for C14
ShapeClass(ms) ==
    LET b == Idx(ms, "binary")  c == Idx(ms, "control")  d == Idx(ms, "data") IN
    IF b = {} \/ c = {} \/ d = {} THEN "reject"                    \* a required member is missing
    ELSE IF Cardinality(b) > 1 \/ Cardinality(c) > 1 \/ Cardinality(d) > 1 THEN "ambiguous"
    ELSE IF BinaryClass(ms[TheOne(b)].text) = "reject" THEN "reject"
    ELSE IF BinaryClass(ms[TheOne(b)].text) = "unspecified" THEN "unspecified"
    ELSE IF ~HasControlFile(ms[TheOne(c)]) THEN "unspecified"
    ELSE IF Standard(ms) THEN "wellformed" ELSE "unspecified"

\* the control file as the harness writes it: "Name: text\n" per field
ControlBytes(fields) == Concat([k \in 1..Len(fields) |-> fields[k][1] \o <<COLON, SP>> \o fields[k][2] \o <<LF>>])
FieldText(fields, name) == LET k == CHOOSE k \in 1..Len(fields) : fields[k][1] = name IN fields[k][2]
HasField(fields, name) == \E k \in 1..Len(fields) : fields[k][1] = name

RegularFiles(files) == SelectSeq(files, LAMBDA f : f.kind # "dir")

\* ---- C16: ideal signatures -------------------------------------------------
\* a detached signature verifies iff its key is in the keyring and it was made
\* over exactly the (untampered) members that are presented, in that order
\* (the signature member may hold further signature packets, `more` = Seq([key, over]); over = <<>> is a signature
\*  over the empty input.  Whatever order they are tried in, one of them must be such a signature)
MorePackets(sig) == IF "more" \in DOMAIN sig THEN sig.more ELSE <<>>
Packets(sig) == <<[key |-> sig.key, over |-> sig.over]>> \o MorePackets(sig)
Verifies(sig, presented, keyring, tampered) ==
    \E k \in 1..Len(Packets(sig)) :
        /\ Packets(sig)[k].key \in keyring
        /\ Packets(sig)[k].over = presented
        /\ \A i \in Range(presented) : i \notin tampered
=============================================================================
