--------------------------- MODULE Deb822WriterMC ---------------------------
(***************************************************************************)
(* Impl layer for C08: Paragraph.WriteTo (as repaired) and the Encoder's   *)
(* `alreadyWritten` flag, checked against the reference reader at model    *)
(* level, with no Go involved:                                             *)
(*   WriteLaw   : a representable paragraph written by ImplWriteValue is   *)
(*                read by RefRead as exactly that paragraph, with no empty *)
(*                or white-space-only line inside                          *)
(*   PinnedBad  : the PINNED WriteTo (two chained replacements) does NOT   *)
(*                have that property - the model reproduces the defect     *)
(*   EncoderLaw : n paragraphs through the Encoder machine, some of them   *)
(*                without fields, read back as the non-empty ones, in order*)
(***************************************************************************)
EXTENDS Deb822, TLC
CONSTANTS MaxLines, Mode
VARIABLES x, ok
vars == <<x, ok>>

LineChoices == {<<>>, <<97>>, <<SP, 98>>, <<DOT>>, <<99, SP, 100>>, <<11, 101>>, <<TAB, 102>>}
LineSeqs == UNION {[1..n -> LineChoices] : n \in 1..MaxLines}
Values == {Join(ls, <<LF>>) \o t : ls \in LineSeqs, t \in {<<>>, <<LF>>}}
P1(v) == [order |-> << <<75>> >>, values |-> << <<<<75>>, v>> >>]
P2(v, w) == [order |-> << <<75>>, <<76>> >>, values |-> << <<<<75>>, v>>, <<<<76>>, w>> >>]
PE == [order |-> <<>>, values |-> <<>>]

\* the Encoder: a blank line before every paragraph but the first one encoded, whatever it contains
RECURSIVE Encode(_, _, _, _)
Encode(ps, i, already, acc) ==
    IF i > Len(ps) THEN acc
    ELSE Encode(ps, i + 1, TRUE, acc \o (IF already THEN <<LF>> ELSE <<>>) \o ImplWritePara(ps[i], ImplWriteValue))
NonEmptyParas(ps) == SelectSeq(ps, LAMBDA p : p.order # <<>>)

Init == /\ ok = "pending"
        /\ CASE Mode = "write" -> x \in {<<P1(v)>> : v \in Values} \cup {<<P2(v, w)>> : v \in Values, w \in {<<97>>, <<LF, 97>>, <<97, LF, LF, 98, LF>>}}
             [] Mode = "encoder" -> x \in UNION {[1..n -> {PE, P1(<<97>>), P2(<<98>>, <<99, LF, 100>>)}] : n \in 0..4}

WriteLaw(p) == Representable(p) =>
    LET w == ImplWritePara(p, ImplWriteValue) IN NoGapInside(w) /\ RefReadsBackAs(w, p)
EncoderLaw(ps) ==
    LET r == RefRead(Encode(ps, 1, FALSE, <<>>))  ne == NonEmptyParas(ps) IN
    /\ r.wf /\ Len(r.paras) = Len(ne)
    /\ \A k \in 1..Len(ne) : /\ Len(r.paras[k]) = Len(ne[k].order)
                             /\ \A j \in 1..Len(ne[k].order) :
                                   r.paras[k][j].name = ne[k].order[j] /\
                                   r.paras[k][j].lines = ValueLines(ValOf(ne[k], ne[k].order[j]))
Next == /\ ok = "pending"
        /\ ok' = IF (IF Mode = "write" THEN WriteLaw(x[1]) ELSE EncoderLaw(x)) THEN "ok" ELSE "bad"
        /\ UNCHANGED x
Spec == Init /\ [][Next]_vars
Holds == ok # "bad"
\* the pinned writer really was wrong in the model too (sanity of the model, evaluated once)
ASSUME LET p == P1(<<97, LF>>) IN ~NoGapInside(ImplWritePara(p, ImplWriteValuePinned))
=============================================================================
