INIT GenInit
NEXT GenNext
CONSTANTS
  Alphabet = {48, 97, 126, 45, 58}
  MaxLen = 2
  Mode = "cmp"
CHECK_DEADLOCK FALSE
