INIT GenInit
NEXT GenNext
CONSTANTS
  Alphabet = {48, 97, 126, 46}
  MaxLen = 2
  Mode = "cmp"
CHECK_DEADLOCK FALSE
