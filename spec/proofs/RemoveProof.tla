----------------------------- MODULE RemoveProof -----------------------------
(***************************************************************************)
(* RemoveLast and ErrorKeepsControl of Upload.tla for the Move and Remove  *)
(* operations, as an INDUCTIVE invariant for an ARBITRARY number N of      *)
(* listed files, proved with TLAPS.  File 0 is the control file, 1..N the  *)
(* listed files; they leave the source directory (rename(2) for Move,      *)
(* unlink(2) for Remove - one atomic step each, which may fail) in the     *)
(* order 1, 2, ..., N, 0.                                                  *)
(*   RemoveLast        : the control file is gone from the source only if  *)
(*                       every listed file is                              *)
(*   ErrorKeepsControl : after an error the control file is still at its   *)
(*                       source (an upload that failed can be retried)     *)
(*   OkMeansAllGone    : after success nothing is left at the source       *)
(***************************************************************************)
EXTENDS Integers, TLAPS
CONSTANT N
ASSUME NAssump == N \in Nat
VARIABLES src, k, ret
vars == <<src, k, ret>>

First == IF N >= 1 THEN 1 ELSE 0
NextFile(i) == IF i = N THEN 0 ELSE i + 1

Init == /\ src = [i \in 0..N |-> "present"]
        /\ k = First /\ ret = "none"

\* one rename / unlink: succeeds (the file leaves the source) or fails (nothing changes, the operation stops)
StepOK == /\ ret = "none"
          /\ src' = [src EXCEPT ![k] = "gone"]
          /\ IF k = 0 THEN ret' = "ok" /\ UNCHANGED k ELSE k' = NextFile(k) /\ UNCHANGED ret
StepFail == /\ ret = "none" /\ ret' = "err" /\ UNCHANGED <<src, k>>
Next == StepOK \/ StepFail
Spec == Init /\ [][Next]_vars

RemoveLast == src[0] = "gone" => \A i \in 1..N : src[i] = "gone"
ErrorKeepsControl == ret = "err" => src[0] = "present"
OkMeansAllGone == ret = "ok" => \A i \in 0..N : src[i] = "gone"

Inv == /\ src \in [0..N -> {"present", "gone"}]
       /\ k \in 0..N
       /\ ret \in {"none", "ok", "err"}
       /\ k # 0 => src[0] = "present"
       /\ k # 0 => \A i \in 1..N : i < k => src[i] = "gone"
       /\ k = 0 => \A i \in 1..N : src[i] = "gone"
       /\ k # 0 => \A i \in 1..N : i >= k => src[i] = "present"      \* files from the current one on are untouched
       /\ (k = 0 /\ ret = "none") => src[0] = "present"
       /\ ret = "err" => src[0] = "present"
       /\ ret = "ok" => (k = 0 /\ src[0] = "gone")

THEOREM InitInv == Init => Inv
  BY NAssump DEF Init, Inv, First

THEOREM NextInv == Inv /\ [Next]_vars => Inv'
<1> SUFFICES ASSUME Inv, [Next]_vars PROVE Inv'
  OBVIOUS
<1>1. CASE StepOK
  BY <1>1, NAssump DEF StepOK, Inv, NextFile
<1>2. CASE StepFail
  BY <1>2, NAssump DEF StepFail, Inv
<1>3. CASE UNCHANGED vars
  BY <1>3 DEF vars, Inv
<1>4. QED
  BY <1>1, <1>2, <1>3 DEF Next

THEOREM InvImplies == Inv => (RemoveLast /\ ErrorKeepsControl /\ OkMeansAllGone)
  BY NAssump DEF Inv, RemoveLast, ErrorKeepsControl, OkMeansAllGone

THEOREM Safety == Spec => [](RemoveLast /\ ErrorKeepsControl /\ OkMeansAllGone)
<1>1. Init => Inv
  BY InitInv
<1>2. Inv /\ [Next]_vars => Inv'
  BY NextInv
<1>3. Inv => (RemoveLast /\ ErrorKeepsControl /\ OkMeansAllGone)
  BY InvImplies
<1>4. QED
  BY <1>1, <1>2, <1>3, PTL DEF Spec
=============================================================================
