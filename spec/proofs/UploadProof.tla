----------------------------- MODULE UploadProof -----------------------------
(***************************************************************************)
(* ControlLast and ErrorMeansAbsent of Upload.tla (the Copy operation, the *)
(* one with non-atomic file creation) as an INDUCTIVE invariant for an     *)
(* ARBITRARY number N of listed files, proved with TLAPS.  TLC checks the  *)
(* same properties of the full Upload.tla for N <= 4; this removes the     *)
(* bound for the ordering argument.  File 0 is the control file, 1..N the  *)
(* listed files, copied in the order 1, 2, ..., N, 0.                      *)
(***************************************************************************)
EXTENDS Integers, TLAPS
CONSTANT N
ASSUME NAssump == N \in Nat
VARIABLES dst, k, stage, ret
vars == <<dst, k, stage, ret>>

States == {"absent", "empty", "partial", "full"}
First == IF N >= 1 THEN 1 ELSE 0
NextFile(i) == IF i = N THEN 0 ELSE i + 1      \* only used for i in 1..N

Init == /\ dst = [i \in 0..N |-> "absent"]
        /\ k = First /\ stage = "create" /\ ret = "none"

Create == /\ stage = "create"
          /\ \/ dst' = [dst EXCEPT ![k] = "empty"] /\ stage' = "write" /\ UNCHANGED <<k, ret>>
             \/ stage' = "done" /\ ret' = "err" /\ UNCHANGED <<dst, k>>                    \* create fails: nothing appears
Write == /\ stage = "write"
         /\ \/ dst' = [dst EXCEPT ![k] = "full"] /\ stage' = "close" /\ UNCHANGED <<k, ret>>
            \/ /\ dst' = [dst EXCEPT ![k] = "partial"]                                     \* write fails half way
               /\ IF k = 0 THEN stage' = "cleanup" /\ UNCHANGED ret ELSE stage' = "done" /\ ret' = "err"
               /\ UNCHANGED k
Close == /\ stage = "close"
         /\ \/ IF k = 0 THEN stage' = "done" /\ ret' = "ok" /\ UNCHANGED <<dst, k>>
                        ELSE k' = NextFile(k) /\ stage' = "create" /\ UNCHANGED <<dst, ret>>
            \/ /\ IF k = 0 THEN stage' = "cleanup" /\ UNCHANGED ret ELSE stage' = "done" /\ ret' = "err"   \* close fails
               /\ UNCHANGED <<dst, k>>
Cleanup == /\ stage = "cleanup"
           /\ dst' = [dst EXCEPT ![0] = "absent"] /\ stage' = "done" /\ ret' = "err" /\ UNCHANGED k
Next == Create \/ Write \/ Close \/ Cleanup
Spec == Init /\ [][Next]_vars

ControlLast == dst[0] # "absent" => \A i \in 1..N : dst[i] = "full"
ErrorMeansAbsent == ret = "err" => dst[0] = "absent"

Inv == /\ dst \in [0..N -> States]
       /\ k \in 0..N
       /\ stage \in {"create", "write", "close", "cleanup", "done"}
       /\ ret \in {"none", "ok", "err"}
       /\ k # 0 => dst[0] = "absent"                          \* the control file is not touched before its turn
       /\ k # 0 => \A i \in 1..N : i < k => dst[i] = "full"    \* files before the current one are complete
       /\ k = 0 => \A i \in 1..N : dst[i] = "full"             \* the control file's turn comes after all of them
       /\ (k = 0 /\ stage = "create") => dst[0] = "absent"
       /\ (stage = "close") => dst[k] = "full"
       /\ (stage = "cleanup") => k = 0
       /\ (ret = "err") => (stage = "done" /\ dst[0] = "absent")
       /\ (ret = "ok") => (stage = "done" /\ k = 0)
       /\ (stage = "done") => ret # "none"

THEOREM InitInv == Init => Inv
  BY NAssump DEF Init, Inv, First, States

THEOREM NextInv == Inv /\ [Next]_vars => Inv'
<1> SUFFICES ASSUME Inv, [Next]_vars PROVE Inv'
  OBVIOUS
<1>1. CASE Create
  BY <1>1, NAssump DEF Create, Inv, States
<1>2. CASE Write
  BY <1>2, NAssump DEF Write, Inv, States
<1>3. CASE Close
  BY <1>3, NAssump DEF Close, Inv, States, NextFile
<1>4. CASE Cleanup
  BY <1>4, NAssump DEF Cleanup, Inv, States
<1>5. CASE UNCHANGED vars
  BY <1>5 DEF vars, Inv
<1>6. QED
  BY <1>1, <1>2, <1>3, <1>4, <1>5 DEF Next

THEOREM InvImplies == Inv => (ControlLast /\ ErrorMeansAbsent)
  BY NAssump DEF Inv, ControlLast, ErrorMeansAbsent

THEOREM Safety == Spec => [](ControlLast /\ ErrorMeansAbsent)
<1>1. Init => Inv  BY InitInv
<1>2. Inv /\ [Next]_vars => Inv'  BY NextInv
<1>3. Inv => (ControlLast /\ ErrorMeansAbsent)  BY InvImplies
<1>4. QED  BY <1>1, <1>2, <1>3, PTL DEF Spec
=============================================================================
