SPECIFICATION Spec
CONSTANTS
  MaxMembers = 5
INVARIANTS Deterministic RejectRules SigCovers
PROPERTY Terminates
CHECK_DEADLOCK FALSE
