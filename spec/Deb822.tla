------------------------------- MODULE Deb822 -------------------------------
(***************************************************************************)
(* RFC822-style Debian control files (Policy 5.1, deb822(5)).              *)
(*                                                                         *)
(* Ref layer : RefRead reads BYTES into paragraphs of (name, logical lines)*)
(*             and says whether the document is well-formed in the sense   *)
(*             of property C07; RefRender writes a paragraph model as bytes*)
(*             (used by generators); ValueLines / SameLines state the      *)
(*             "equal up to one trailing newline" equivalence of C08.      *)
(* Impl layer: the ParagraphReader.Next loop lives in Deb822ReaderMC.tla,  *)
(*             Paragraph.WriteTo in ImplWrite below.                       *)
(*                                                                         *)
(* A parsed paragraph (as logged from Go) is                               *)
(*   [order |-> Seq(bytes), values |-> Seq(<<key, value>>)]                *)
(* the second being the Values map listed as pairs.                        *)
(***************************************************************************)
EXTENDS Bytes

\* ---- lines ---------------------------------------------------------------
DocLines(doc) == LET ls == Lines(doc) IN [i \in 1..Len(ls) |-> StripCR(ls[i])]

BlankSet == {SP, TAB}
IsWsOnly(line) == line # <<>> /\ \A k \in 1..Len(line) : line[k] \in BlankSet

LineKind(line) ==
    IF line = <<>> THEN "blank"
    ELSE IF line[1] = HASH THEN "comment"
    ELSE IF IsWsOnly(line) THEN "wsonly"
    ELSE IF line[1] \in BlankSet THEN "cont"
    ELSE IF Contains(line, COLON) THEN "key"
    ELSE "bad"

\* field name per deb822(5): printable ASCII except space and colon, not starting with # or -
NameChar(c) == c >= 33 /\ c <= 126 /\ c # COLON
WFName(n) == n # <<>> /\ AllOf(n, NameChar) /\ n[1] \notin {HASH, HYPHEN}

KeyName(line) == Upto(line, IndexOf(line, COLON) - 1)                \* raw text before the first colon
KeyFirst(line) == TrimSpace(From(line, IndexOf(line, COLON) + 1))     \* first logical line
ContLine(line) == LET t == TrimRightSpace(From(line, 2)) IN            \* continuation minus marker
                  IF t = <<DOT>> THEN <<>> ELSE t

\* ---- RefRead -------------------------------------------------------------
\* result: [wf |-> BOOLEAN, paras |-> Seq(Seq([name, lines]))]
HasName(cur, n) == \E k \in 1..Len(cur) : cur[k].name = n
AppendLine(cur, l) == [cur EXCEPT ![Len(cur)].lines = Append(@, l)]

RECURSIVE Fold(_, _, _, _, _)
Fold(ls, i, paras, cur, wf) ==
    IF i > Len(ls) THEN [wf |-> wf, paras |-> IF cur = <<>> THEN paras ELSE Append(paras, cur)]
    ELSE LET line == ls[i]  k == LineKind(line) IN
      CASE k = "blank"   -> Fold(ls, i + 1, IF cur = <<>> THEN paras ELSE Append(paras, cur), <<>>, wf)
        [] k = "comment" -> Fold(ls, i + 1, paras, cur, wf)
        [] k = "wsonly"  -> Fold(ls, i + 1, paras, cur, FALSE)     \* deb822 leaves this open
        [] k = "bad"     -> Fold(ls, i + 1, paras, cur, FALSE)
        [] k = "cont"    -> IF cur = <<>> THEN Fold(ls, i + 1, paras, cur, FALSE)          \* orphan
                            ELSE Fold(ls, i + 1, paras, AppendLine(cur, ContLine(line)), wf)
        [] k = "key"     -> LET n == KeyName(line) IN
                            Fold(ls, i + 1, paras,
                                 Append(cur, [name |-> n, lines |-> <<KeyFirst(line)>>]),
                                 wf /\ WFName(n) /\ ~HasName(cur, n))

RefRead(doc) ==
    LET ls == DocLines(doc)
        stray == \E i \in 1..Len(ls) : Contains(ls[i], CR)    \* CR other than in a CRLF line end
                 \/ Contains(doc, 0)
    IN Fold(ls, 1, <<>>, <<>>, ~stray)

\* ---- values as line sequences (C07/C08 equivalence) ---------------------
\* A Go value is a string; its lines are the LF-separated pieces, one trailing
\* newline not counting ("equal up to one trailing newline").
ValueLines(v) == LET p == Split(v, LF) IN
                 IF Len(p) > 1 /\ p[Len(p)] = <<>> THEN Upto(p, Len(p) - 1) ELSE p

\* The reader has always represented "Description:\n text" as "text\n": an empty
\* first line followed by continuation lines may be elided (pinned by
\* TestLineWrapping).  have = lines of the Go value, want = logical lines.
LinesAgree(have, want) ==
    \/ have = want
    \/ Len(want) > 1 /\ want[1] = <<>> /\ have = From(want, 2)

ValOf(para, key) == LET k == CHOOSE k \in 1..Len(para.values) : para.values[k][1] = key
                    IN para.values[k][2]
HasVal(para, key) == \E k \in 1..Len(para.values) : para.values[k][1] = key

\* for ANY input: a returned paragraph has a value for exactly the fields it
\* lists, each listed once
ParaInvariant(para) ==
    /\ NoDup(para.order)
    /\ {para.values[k][1] : k \in 1..Len(para.values)} = Range(para.order)
    /\ NoDup([k \in 1..Len(para.values) |-> para.values[k][1]])

\* does the Go paragraph equal the reference paragraph (names in order, lines)
ParaMatches(para, ref) ==
    /\ Len(para.order) = Len(ref)
    /\ \A k \in 1..Len(ref) :
          /\ para.order[k] = ref[k].name
          /\ HasVal(para, ref[k].name)
          /\ LinesAgree(ValueLines(ValOf(para, ref[k].name)), ref[k].lines)

ParasMatch(paras, refs) ==
    /\ Len(paras) = Len(refs)
    /\ \A k \in 1..Len(refs) : ParaMatches(paras[k], refs[k])

\* two Go paragraphs carry the same content (C08: up to one trailing newline)
SameContent(p, q) ==
    /\ p.order = q.order
    /\ \A k \in 1..Len(p.order) :
          HasVal(p, p.order[k]) /\ HasVal(q, p.order[k]) /\
          ValueLines(ValOf(p, p.order[k])) = ValueLines(ValOf(q, p.order[k]))

\* ---- representable paragraphs (C08) ---------------------------------------
\* values = sequences of text lines: no CR, no trailing white space, first line
\* without leading white space, no line equal to "." or white-space only (an
\* empty line is fine: it is what " ." encodes)
LineOK(l) == /\ ~Contains(l, CR) /\ ~Contains(l, 0)
             /\ (l = <<>> \/ l[Len(l)] \notin SpaceSet)
Representable(para) ==
    /\ NoDup(para.order)
    /\ \A k \in 1..Len(para.order) :
          /\ WFName(para.order[k]) /\ HasVal(para, para.order[k])
          /\ LET ls == ValueLines(ValOf(para, para.order[k])) IN
             /\ \A j \in 1..Len(ls) : LineOK(ls[j])
             /\ \A j \in 2..Len(ls) : ls[j] # <<DOT>>          \* " ." means "empty line"
             \* (a first line that begins with white space of any kind is fine: it is written on the
             \*  line after the field name)
\* a value whose first line is empty but which has more lines is written as
\* "Name:\n line" and read back without the empty line: by the convention above
\* its line count is not preserved, so equality is not demanded for it
LeadingEmpty(para) ==
    \E k \in 1..Len(para.order) :
        HasVal(para, para.order[k]) /\
        LET ls == ValueLines(ValOf(para, para.order[k])) IN Len(ls) > 1 /\ ls[1] = <<>>

\* no empty or white-space-only line strictly inside the written paragraph
NoGapInside(bytes) ==
    LET ls == DocLines(bytes) IN
    \A i \in 1..Len(ls) : ls[i] # <<>> /\ ~IsWsOnly(ls[i])

\* the reference reading of written bytes is exactly the paragraph written
RefReadsBackAs(bytes, para) ==
    LET r == RefRead(bytes) IN
    /\ r.wf
    /\ IF para.order = <<>> THEN r.paras = <<>>
       ELSE /\ Len(r.paras) = 1
            /\ Len(r.paras[1]) = Len(para.order)
            /\ \A k \in 1..Len(para.order) :
                  /\ r.paras[1][k].name = para.order[k]
                  /\ LET want == ValueLines(ValOf(para, para.order[k])) IN
                     \/ r.paras[1][k].lines = want
                     \/ (want[1] # <<>> /\ want[1][1] \in SpaceSet /\ r.paras[1][k].lines = <<<<>>>> \o want)

\* ---- RefRender: paragraph model -> bytes (generators) ---------------------
\* model field = [name, first (bytes), conts (Seq(bytes), already with marker)]
RenderField(f, eol) == f.name \o <<COLON>> \o (IF f.first = <<>> THEN <<>> ELSE <<SP>> \o f.first) \o eol \o
                       Concat([k \in 1..Len(f.conts) |-> f.conts[k] \o eol])

\* ---- Impl: Paragraph.WriteTo ----------------------------------------------
\* as pinned (parse.go:58): two chained string replacements
RECURSIVE ReplaceSubFrom(_, _, _, _, _)
ReplaceSubFrom(s, i, old, new, acc) ==
    IF i > Len(s) THEN acc
    ELSE IF OccursAt(s, i, old) THEN ReplaceSubFrom(s, i + Len(old), old, new, acc \o new)
    ELSE ReplaceSubFrom(s, i + 1, old, new, Append(acc, s[i]))
ReplaceSub(s, old, new) == ReplaceSubFrom(s, 1, old, new, <<>>)

ImplWriteValuePinned(v) ==
    ReplaceSub(ReplaceSub(v, <<LF>>, <<LF, SP>>), <<LF, SP, LF>>, <<LF, SP, DOT, LF>>)

\* after the fix: one trailing newline is not content; every further line is
\* written with a leading space, an empty line as " ."; a first line that is
\* begins with white space of any kind starts on the next line (the reader trims the field's own line)
ImplWriteValue(v) ==
    LET ls0 == ValueLines(v)
        ls == IF ls0[1] # <<>> /\ ls0[1][1] \in SpaceSet THEN <<<<>>>> \o ls0 ELSE ls0
    IN ls[1] \o Concat([k \in 1..(Len(ls) - 1) |->
                        <<LF, SP>> \o (IF ls[k + 1] = <<>> THEN <<DOT>> ELSE ls[k + 1])])

ImplWritePara(para, W(_)) ==
    Concat([k \in 1..Len(para.order) |->
              para.order[k] \o <<COLON, SP>> \o W(ValOf(para, para.order[k])) \o <<LF>>])
=============================================================================
