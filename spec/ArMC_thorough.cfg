SPECIFICATION Spec
CONSTANTS
  MaxMembers = 2
  Sizes = {0, 1, 2, 5}
  WithFaults = TRUE
INVARIANTS Exact Safe Bounded
PROPERTY Terminates
CHECK_DEADLOCK FALSE
