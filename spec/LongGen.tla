------------------------------ MODULE LongGen ------------------------------
(***************************************************************************)
(* G mode: documents with physical lines around and beyond the buffer      *)
(* sizes of the implementation (4096-byte bufio buffers), as segment       *)
(* strings (Segs.tla).  One model - paragraphs of fields of logical lines  *)
(* - is rendered by the specification; the same model gives the expected   *)
(* values.  Used by C07 (reader), C08 (write/read), C09 (struct round      *)
(* trip), C10 (typed documents) and C17 (changelog).                       *)
(***************************************************************************)
EXTENDS Segs, GenLib
CONSTANTS Mode, Lengths

\* a payload of exactly n bytes whose parts are distinguishable (so that a piece that is lost, repeated or
\* overwritten changes the run-length form) and that holds a ':' beyond the first 3000 bytes
Payload(n) == IF n >= 4002 THEN <<Rep(97, 1000), Rep(98, 1000), Rep(99, 1000), Lit(<<COLON>>), Rep(100, 1000), Rep(101, n - 4001)>>
              ELSE IF n >= 10 THEN <<Rep(97, n - 6), Lit(<<COLON>>), Rep(102, 5)>>
              ELSE <<Rep(97, n)>>
short == <<Lit(<<115, 104, 111, 114, 116>>)>>                \* "short"
\* ---- deb822 model: field = [name, lines]; line = segment string (non-empty unless it is the first line)
Fld(name, lines) == [name |-> name, lines |-> lines]
\* first line on the key line, further lines with one leading space
RenderFld(f) == <<Lit(f.name \o <<COLON>>)>> \o (IF f.lines[1] = <<>> THEN <<>> ELSE <<Lit(<<SP>>)>> \o f.lines[1]) \o <<Lit(<<LF>>)>>
                \o Concat([k \in 1..(Len(f.lines) - 1) |-> <<Lit(<<SP>>)>> \o f.lines[k + 1] \o <<Lit(<<LF>>)>>])
RenderPara(p) == Concat([k \in 1..Len(p) |-> RenderFld(p[k])])
RenderDoc(ps) == Concat([k \in 1..Len(ps) |-> (IF k > 1 THEN <<Lit(<<LF>>)>> ELSE <<>>) \o RenderPara(ps[k])])
\* the value the reader builds (Deb822Struct.GoValue, on segment strings)
GoValueSegs(lines) == IF Len(lines) = 1 THEN lines[1]
                      ELSE LET ls == IF lines[1] = <<>> THEN Tail(lines) ELSE lines IN
                           Concat([k \in 1..Len(ls) |-> ls[k] \o <<Lit(<<LF>>)>>])
Expect(ps) == [k \in 1..Len(ps) |-> [j \in 1..Len(ps[k]) |-> [name |-> ps[k][j].name, value |-> GoValueSegs(ps[k][j].lines)]]]

A == <<65>>  K == <<75>>  Z == <<90>>  P == <<80>>
\* n = length of the physical line including its newline
FirstLong(n) == << <<Fld(A, <<short>>), Fld(K, <<Payload(n - 4)>>), Fld(Z, <<short>>)>> >>
ContLong(n) == << <<Fld(K, <<short, Payload(n - 2), short>>), Fld(Z, <<short>>)>> >>
EmptyFirstLong(n) == << <<Fld(K, <<<<>>, Payload(n - 2)>>)>>, <<Fld(P, <<short>>)>> >>
TwoLong(n) == << <<Fld(K, <<Payload(n - 4), Payload(n - 2)>>), Fld(Z, <<Payload(n - 4)>>)>>, <<Fld(P, <<short>>)>> >>
Models == UNION {{FirstLong(n), ContLong(n), EmptyFirstLong(n), TwoLong(n)} : n \in Lengths}
ReadVecs == {[k |-> "read_long", doc |-> RenderDoc(m), expect |-> Expect(m)] : m \in Models}
\* C08: the same paragraphs written by WriteTo (value given as the reader would have built it) and read back
\* (the reader elides an empty first line, so the value it builds has the remaining lines only: that value is written)
AsRead(f) == IF Len(f.lines) > 1 /\ f.lines[1] = <<>> THEN [f EXCEPT !.lines = Tail(f.lines)] ELSE f
WriteVecs == {[k |-> "write_long", expect |-> Expect(<<m[1]>>)[1], written |-> RenderPara([j \in 1..Len(m[1]) |-> AsRead(m[1][j])])] : m \in Models}

\* ---- C09: probe structs with one long field ------------------------------------------------------------
\* P1.S (string), P1.Multi (multiline string: two long lines), P3.Sp (blank-separated list of three long elements),
\* P3.L (", "-separated list)
StructVecs == UNION {{[k |-> "rt_long", type |-> "P1", field |-> "S", elems |-> <<Payload(n - 4)>>],
                      [k |-> "rt_long", type |-> "P3", field |-> "Sp", elems |-> <<Payload(n \div 3), Payload(n \div 3 + 1), Payload(n \div 3)>>],
                      [k |-> "rt_long", type |-> "P3", field |-> "L", elems |-> <<Payload(n \div 2), Payload(n \div 2)>>]} : n \in Lengths}

\* ---- C10: a Packages paragraph whose Depends line is long -----------------------------------------------
\* names are made of 'a'..'e' runs (valid package-name characters); the second relation carries an epoch
NameSegs(n, c) == <<Rep(c, n \div 2), Rep(c + 1, n - n \div 2)>>
b(s) == Lit(s)
PkgDoc(n) == LET n1 == NameSegs(n \div 3, 97)  n2 == NameSegs(n \div 3, 99)  n3 == NameSegs(n \div 3, 101) IN
    [k |-> "doc_long",
     doc |-> <<b(<<80, 97, 99, 107, 97, 103, 101, 58, 32, 112, 10>>),                 \* "Package: p\n"
               b(<<86, 101, 114, 115, 105, 111, 110, 58, 32, 49, 10>>),               \* "Version: 1\n"
               b(<<65, 114, 99, 104, 105, 116, 101, 99, 116, 117, 114, 101, 58, 32, 97, 108, 108, 10>>),   \* "Architecture: all\n"
               b(<<68, 101, 112, 101, 110, 100, 115, 58, 32>>)>>                        \* "Depends: "
             \o n1 \o <<b(<<44, 32>>)>> \o n2 \o <<b(<<32, 40, 62, 61, 32, 49, 58, 50, 46, 48, 41, 44, 32>>)>>   \* " (>= 1:2.0), "
             \o n3 \o <<b(<<32, 124, 32, 122, 10>>)>>,                                  \* " | z\n"
     names |-> <<n1, n2, n3>>]
DocVecs == {PkgDoc(n) : n \in Lengths}

\* ---- C17: a changelog whose change text has a long line -------------------------------------------------
Hdr(v) == b(<<104, 101, 108, 108, 111, 32, 40>> \o v \o <<41, 32, 117, 110, 115, 116, 97, 98, 108, 101, 59, 32, 117, 114, 103, 101, 110, 99, 121, 61, 108, 111, 119, 10>>)
Trl == b(<<32, 45, 45, 32, 65, 32, 66, 32, 60, 97, 64, 98, 46, 111, 114, 103, 62, 32, 32, 77, 111, 110, 44, 32, 48, 50, 32, 74, 97, 110, 32, 50, 48, 48, 54, 32,
           49, 53, 58, 48, 52, 58, 48, 53, 32, 45, 48, 55, 48, 48, 10>>)                \* " -- A B <a@b.org>  Mon, 02 Jan 2006 15:04:05 -0700\n"
\* body: blank, "  * " + payload (with blanks every so often or not), blank
Body(n, blanks) == <<b(<<LF>>), b(<<SP, SP, 42, SP>>)>> \o
                   (IF blanks THEN <<Rep(120, 2000), b(<<SP>>), Rep(121, 2093), b(<<SP>>), Rep(122, n - 4100)>> ELSE Payload(n - 5)) \o <<b(<<LF, LF>>)>>
ClVecs == {[k |-> "cl_long", doc |-> <<Hdr(<<50, 46, 48>>)>> \o Body(n, bl) \o <<Trl, b(<<LF>>), Hdr(<<49, 46, 48>>)>> \o <<b(<<LF, SP, SP, 42, SP, 111, LF, LF>>)>> \o <<Trl>>,
            bodies |-> <<Body(n, bl), <<b(<<LF, SP, SP, 42, SP, 111, LF, LF>>)>> >>] : n \in {m \in Lengths : m > 4200}, bl \in BOOLEAN}

ASSUME \A v \in ReadVecs : WellFormedSegs(v.doc)
\* C11: the same documents clearsigned by k1 and read with the keyring {k1}: what is verified is what is then parsed
SignedReadVecs == {[k |-> "read_long", doc |-> RenderDoc(m), expect |-> Expect(m), sign |-> "k1"] : m \in Models}
ASSUME Emit(CASE Mode = "read" -> SetToSeq(ReadVecs)
              [] Mode = "signed" -> SetToSeq(SignedReadVecs)
              [] Mode = "write" -> SetToSeq(WriteVecs)
              [] Mode = "struct" -> SetToSeq(StructVecs)
              [] Mode = "doc" -> SetToSeq(DocVecs)
              [] Mode = "changelog" -> SetToSeq(ClVecs))
=============================================================================
