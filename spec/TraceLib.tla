------------------------------ MODULE TraceLib ------------------------------
(***************************************************************************)
(* V mode plumbing: the trace recorded from the real code is an ndjson     *)
(* file whose path arrives in the environment variable TRACE_FILE.         *)
(* Every trace spec has the same shape (stateless events):                 *)
(*   Init  picks a line l, verdict "pending"                               *)
(*   Next  evaluates Judge(Trace[l]) (on a worker thread)                  *)
(* The verdict record is [ok, class, why]; the orchestrator reads all      *)
(* verdicts from TLC's state dump.  class names which branch of Allowed    *)
(* applied (exact / reject / unspecified / safety / ...).                  *)
(***************************************************************************)
EXTENDS Json, IOUtils, TLC, Sequences, Integers

TraceFile == IOEnv.TRACE_FILE
Trace == ndJsonDeserialize(TraceFile)

Pending == [ok |-> TRUE, class |-> "pending", why |-> "pending"]
V(ok, class, why) == [ok |-> ok, class |-> class, why |-> IF ok THEN "" ELSE why]

\* first failing item of a sequence of <<condition, label>> pairs
RECURSIVE FirstFail(_, _)
FirstFail(checks, k) == IF k > Len(checks) THEN ""
                        ELSE IF checks[k][1] THEN FirstFail(checks, k + 1) ELSE checks[k][2]
Checks(class, checks) == LET f == FirstFail(checks, 1) IN V(f = "", class, f)

\* TLC evaluates operator arguments lazily but builds tuples eagerly: `pre` holds the conditions that make
\* the rest evaluable at all (no panic, the expected number of steps); `rest` is only looked at when they hold.
Guarded(class, pre, rest) == LET f == FirstFail(pre, 1) IN IF f # "" THEN V(FALSE, class, f) ELSE Checks(class, rest)

HasField(rec, f) == f \in DOMAIN rec

\* A library call that panicked, or did not return within the per-vector deadline, is logged by the harness's
\* exec loop as a "crash" line instead of the vector's ordinary observation.  Every property here is about
\* results that calls return, so a crash is a rejected observation whatever the vector was.
CrashVerdict(rec) == V(FALSE, "crash", IF rec.kind = "hang" THEN "the library did not return (no result within the per-call deadline)"
                                       ELSE "the library panicked")
JudgeOrCrash(rec, J(_)) == IF rec.ev = "crash" THEN CrashVerdict(rec) ELSE J(rec)
=============================================================================
