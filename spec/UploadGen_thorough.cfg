INIT GenInit
NEXT GenNext
CONSTANTS
  MaxN = 4
