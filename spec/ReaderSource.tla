---------------------------- MODULE ReaderSource ----------------------------
(***************************************************************************)
(* NewParagraphReader / Next over a source that may fail (growth, GF-6).   *)
(* The source delivers N bytes one by one; at position FaultAt (0..N) it    *)
(* answers one Read with a transient error instead, then goes on.  The      *)
(* constructor looks 15 bytes ahead (bufio.Peek) to recognise an OpenPGP     *)
(* armor and - as the code is written - DROPS the error of that look-ahead  *)
(* (`line, _ := Peek(15)`; Peek hands the reader's pending error out and     *)
(* clears it).  Next reads on and reports any error it meets.               *)
(*   ErrorReported : when reading has come to its end, an error the source  *)
(*                   raised was returned by the constructor or by a Next    *)
(* holds for Discipline = "checked" (the look-ahead's error is returned)    *)
(* and is VIOLATED for "as-written" exactly when FaultAt < 15 <= N or the   *)
(* document is shorter than the look-ahead - which is what the real code    *)
(* does (`./check growth`, observation kind srcfault).                      *)
(***************************************************************************)
EXTENDS Integers
CONSTANTS N, Look, Discipline          \* document length, look-ahead (15), "as-written" | "checked"
VARIABLES pos, faultAt, raised, reported, phase, ahead
vars == <<pos, faultAt, raised, reported, phase, ahead>>

Init == /\ pos = 0 /\ faultAt \in 0..N /\ raised = FALSE /\ reported = FALSE
        /\ phase = "peek" /\ ahead = 0

\* one Read of the source: a byte, the transient error (once), or end of input
SrcFault == pos = faultAt /\ ~raised
\* the constructor's look-ahead: fill until Look bytes are buffered, the source fails, or the input ends
Peek == /\ phase = "peek"
        /\ IF SrcFault
           THEN /\ raised' = TRUE
                /\ reported' = (Discipline = "checked")            \* as written the error is dropped here
                /\ phase' = (IF Discipline = "checked" THEN "done" ELSE "next")
                /\ UNCHANGED <<pos, ahead>>
           ELSE IF ahead < Look /\ pos < N
                THEN pos' = pos + 1 /\ ahead' = ahead + 1 /\ UNCHANGED <<raised, reported, phase>>
                ELSE phase' = "next" /\ UNCHANGED <<pos, ahead, raised, reported>>
        /\ UNCHANGED faultAt
\* Next: consumes the rest; an error it meets is returned to the caller
Next1 == /\ phase = "next"
         /\ IF SrcFault
            THEN raised' = TRUE /\ reported' = TRUE /\ phase' = "done" /\ UNCHANGED pos
            ELSE IF pos < N THEN pos' = pos + 1 /\ UNCHANGED <<raised, reported, phase>>
                 ELSE phase' = "done" /\ UNCHANGED <<pos, raised, reported>>
         /\ UNCHANGED <<faultAt, ahead>>
Next == Peek \/ Next1
Spec == Init /\ [][Next]_vars /\ WF_vars(Next)

ErrorReported == (phase = "done" /\ raised) => reported
\* (at the end of input without having met the fault position nothing was raised: FaultAt = N and the last Read is EOF)
Terminates == <>(phase = "done")
=============================================================================
