INIT GenInit
NEXT GenNext
CONSTANTS
  N = 3
  Labels = {"none", "dep", "dep-arch", "unselected", "after-subst"}
  Fill = 1
