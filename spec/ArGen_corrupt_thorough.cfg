INIT GenInit
NEXT GenNext
CONSTANTS
  MaxMembers = 3
  Sizes = {0, 1, 2}
  Mode = "corrupt"
