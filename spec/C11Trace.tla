------------------------------ MODULE C11Trace ------------------------------
(* V mode for C11: judge NewParagraphReader on signed / damaged / unsigned    *)
(* documents.  The harness supplies ground truth about the damaged bytes      *)
(* (does the armor still decode, is the canonical signed text unchanged, is   *)
(* the signature packet unchanged); the acceptance rules are the spec's.      *)
EXTENDS Deb822, TraceLib, LongTrace
VARIABLES l, verdict
vars == <<l, verdict>>

Judge(rec) ==
    LET o == rec.obs
        ring == {rec.keyring[i] : i \in 1..Len(rec.keyring)}
        isSigned == rec.signed_by # "none"
        ringHas == rec.signed_by \in ring
        ref == RefRead(rec.in.doc)
        handed == o.next_paras
        \* may this input be accepted as signed at all?
        stillValid == isSigned /\ rec.armor_start /\ rec.decodes /\ rec.canon_same /\ ringHas
        untouched == rec.in.mut.op = "none"
        faulty == HasField(rec.in, "via") /\ rec.in.via = "fault"
        \* the well-formed beginning of a signed text that goes wrong later ("good"), when the vector names one
        goodRef == IF HasField(rec.in, "good") THEN RefRead(rec.in.good) ELSE ref
        class == IF faulty THEN "source-fails-midway"
                 ELSE IF ~isSigned /\ untouched THEN "plain"
                 ELSE IF rec.keyring_nil THEN "nil-keyring"
                 ELSE IF ~rec.armor_start THEN "armor-not-at-start"
                 ELSE IF untouched /\ ringHas THEN (IF ref.wf THEN "positive" ELSE "signed-text-malformed")
                 ELSE IF stillValid /\ rec.sigpkt_same THEN "canon-preserving-edit"
                 ELSE IF stillValid THEN "signature-bytes-changed"
                 ELSE "must-fail"
    IN Checks(class,
       << <<~o.panic, "panic">>,
          <<o.signer # "none" => (stillValid /\ o.signer = rec.signed_by),
            "a signer is reported although no valid signature by a keyring key covers the text">>,
          <<(~rec.keyring_nil /\ rec.armor_start /\ ~stillValid) => (~o.ok /\ handed = <<>>),
            "clearsigned input was accepted without a valid signature by a keyring key">>,
          <<(~rec.keyring_nil /\ rec.armor_start /\ handed # <<>>) =>
                (o.signer = rec.signed_by /\
                 \* (a text the reference reader calls malformed - a lone CR - and for which the vector names no well-formed
                 \* beginning is judged against the library's own plain reading of it, below)
                 ((ref.wf \/ HasField(rec.in, "good")) =>
                    (goodRef.wf /\ Len(handed) <= Len(goodRef.paras) /\ ParasMatch(handed, SubSeq(goodRef.paras, 1, Len(handed)))))),
            "paragraphs returned are not those of the signed text">>,
          <<(~rec.keyring_nil /\ ~rec.armor_start /\ isSigned) => ~rec.foreign_in_next,
            "unsigned text placed before the armor reaches the caller although a keyring was supplied">>,
          <<~(rec.in.mut.op \in {"splice_after", "second_block"} /\ isSigned) \/ ~rec.foreign_in_next,
            "text after the signed block reaches the caller">>,
          <<class = "positive" => (o.ok /\ o.signer = rec.signed_by /\ ref.wf /\ ParasMatch(o.paras, ref.paras)),
            "validly signed document with the signer in the keyring was not accepted faithfully">>,
          <<class = "plain" => (o.ok /\ o.signer = "none" /\ ref.wf /\ ParasMatch(o.paras, ref.paras)),
            "plain document not read faithfully / signer reported for unsigned input">>,
          <<~rec.slice.panic /\ rec.slice.ok = o.ok /\ (o.ok => rec.slice.n = Len(o.paras)),
            "decoding the same bytes into a slice of structs succeeds / fails differently from reading all paragraphs">>,
          <<(class \in {"positive", "signed-text-malformed"} /\ "plain" \in DOMAIN rec) => (o.ok = rec.plain.ok /\ (o.ok => o.paras = rec.plain.paras)),
            "the paragraphs of a validly signed text are not those of the same text read without its armor">>,
          <<~rec.all.panic /\ rec.all.ok = o.ok /\ (o.ok => rec.all.n = Len(o.paras)),
            "reading all paragraphs at once succeeds / fails differently from reading them one by one">>,
          <<(o.ok /\ rec.slice.ok) => rec.slice.signer = o.signer, "the Decoder reports another signer than the paragraph reader on the same input">>,
          <<(faulty /\ ~rec.keyring_nil) => (~rec.foreign_in_next /\ ~rec.all.foreign),
            "after a read error of the source, text that no signature covers reaches the caller although a keyring was supplied">> >>)

\* ---- several signature packets in the armored signature --------------------------------------------------
\* the document may be accepted only if ONE of the packets is a signature by a keyring key over the signed text
JudgeMulti(rec) ==
    LET o == rec.obs
        ring == {rec.keyring[i] : i \in 1..Len(rec.keyring)}
        ps == rec.in.mut.packets
        valid == (\E i \in 1..Len(ps) : ps[i] = "good" /\ "k1" \in ring) \/ (\E i \in 1..Len(ps) : ps[i] = "k2good" /\ "k2" \in ring)
        ref == RefRead(rec.in.doc)
    IN Checks(IF valid THEN "several-packets-one-valid" ELSE "several-packets-none-valid",
       << <<~o.panic, "panic">>,
          <<~valid => (~o.ok /\ o.next_paras = <<>> /\ o.signer = "none"),
            "clearsigned input was accepted although none of the signature packets is a signature by a keyring key over the text">>,
          <<o.signer # "none" => o.signer \in ring, "reported signer is not a key of the keyring">>,
          <<o.next_paras # <<>> => (ref.wf /\ Len(o.next_paras) <= Len(ref.paras) /\ ParasMatch(o.next_paras, SubSeq(ref.paras, 1, Len(o.next_paras)))),
            "paragraphs returned are not those of the signed text">>,
          <<~rec.slice.panic /\ rec.slice.ok = o.ok /\ (o.ok => rec.slice.n = Len(o.paras)),
            "decoding the same bytes into a slice of structs succeeds / fails differently from reading all paragraphs">> >>)

\* ---- several readers alive in one process -------------------------------------------------------------
\* abstract state per reader: the document it was opened on and how many paragraphs it has handed out.  The
\* k-th Next on a reader returns the k-th paragraph of ITS document, then end-of-input for ever.
JudgeOps(rec) ==
    LET ops == rec.in.ops
        DocOf(r) == rec.in.docs[ops[CHOOSE j \in 1..Len(ops) : ops[j].op = "open" /\ ops[j].r = r].d]
        KeyOf(r) == rec.in.keys[ops[CHOOSE j \in 1..Len(ops) : ops[j].op = "open" /\ ops[j].r = r].d]
        OpenOf(r) == ops[CHOOSE j \in 1..Len(ops) : ops[j].op = "open" /\ ops[j].r = r]
        Signer(r) == IF OpenOf(r).nil \/ KeyOf(r) = "" THEN "none" ELSE KeyOf(r)
        Nth(i) == Cardinality({j \in 1..i : ops[j].op = "next" /\ ops[j].r = ops[i].r})
        Bad(i) == LET o == rec.steps[i]  r == ops[i].r IN
                  \/ o.panic
                  \/ o.signer # Signer(r)
                  \/ IF ops[i].op = "open" THEN o.kind # "opened"
                     ELSE LET ref == RefRead(DocOf(r))  k == Nth(i) IN
                          IF k <= Len(ref.paras) THEN ~(o.kind = "para" /\ ParasMatch(<<o.para>>, <<ref.paras[k]>>))
                          ELSE o.kind # "eof"
        bad == {i \in 1..Len(ops) : Bad(i)}
        first == CHOOSE i \in bad : \A j \in bad : i <= j
    IN IF Len(rec.steps) # Len(ops) THEN V(FALSE, "reader-lifecycle", "missing steps")
       ELSE IF bad = {} THEN V(TRUE, "reader-lifecycle", "")
       ELSE V(FALSE, "reader-lifecycle", "with several readers alive in one process, a reader (" \o ops[first].op \o
              ") does not deliver exactly the paragraphs of its own document followed by end-of-input, or reports the wrong signer")

JudgeAny(rec) == IF IsLong(rec) THEN JudgeLong(rec)
                 ELSE IF rec.ev = "cs_ops" THEN JudgeOps(rec)
                 ELSE IF rec.in.mut.op = "multi_sig" THEN JudgeMulti(rec) ELSE Judge(rec)

Init == l \in 1..Len(Trace) /\ verdict = Pending
Next == verdict.class = "pending" /\ verdict' = JudgeOrCrash(Trace[l], JudgeAny) /\ UNCHANGED l
Spec == Init /\ [][Next]_vars
=============================================================================
