------------------------------ MODULE Registry ------------------------------
(***************************************************************************)
(* deb/tarfile.go keeps the table "member extension -> decompressor" in a  *)
(* package-level map.  deb.Load reads it (DecompressorFor, once per        *)
(* member); deb.SetXZMaxDict writes it.  This module is the concurrent     *)
(* meaning of that: an access is a Begin/End pair, and two accesses of     *)
(* which one is a write must not overlap (Go's memory model: a data race;  *)
(* for maps the runtime aborts the process).                               *)
(*                                                                         *)
(*   Discipline = "none"  : callers do nothing special                     *)
(*   Discipline = "lock"  : callers serialise SetXZMaxDict against Load    *)
(*                                                                         *)
(* NoRace is an invariant under "lock" and is VIOLATED under "none": the   *)
(* library offers no way to call SetXZMaxDict safely while another         *)
(* goroutine loads a package.  ./check growth model-checks both and binds  *)
(* them to the code with the race detector (harness xzrace).               *)
(***************************************************************************)
EXTENDS Naturals, FiniteSets
CONSTANTS Loaders, Setters, Discipline
VARIABLES reading, writing, lock, table
vars == <<reading, writing, lock, table>>
Procs == Loaders \cup Setters
Init == reading = {} /\ writing = {} /\ lock = "free" /\ table = 0
Free(p) == Discipline = "none" \/ lock = "free" \/ lock = p
Take(p) == lock' = IF Discipline = "lock" THEN p ELSE lock
Drop == lock' = IF Discipline = "lock" THEN "free" ELSE lock
BeginRead(p)  == p \in Loaders /\ p \notin reading /\ Free(p) /\ reading' = reading \cup {p} /\ Take(p) /\ UNCHANGED <<writing, table>>
EndRead(p)    == p \in reading /\ reading' = reading \ {p} /\ Drop /\ UNCHANGED <<writing, table>>
BeginWrite(p) == p \in Setters /\ p \notin writing /\ Free(p) /\ writing' = writing \cup {p} /\ Take(p) /\ UNCHANGED <<reading, table>>
EndWrite(p)   == p \in writing /\ writing' = writing \ {p} /\ table' = (table + 1) % 2 /\ Drop /\ UNCHANGED reading
Next == \E p \in Procs : BeginRead(p) \/ EndRead(p) \/ BeginWrite(p) \/ EndWrite(p)
Spec == Init /\ [][Next]_vars
NoRace == \A w \in writing : reading = {} /\ writing = {w}
TypeOK == reading \subseteq Loaders /\ writing \subseteq Setters
=============================================================================
