------------------------------ MODULE StructGen ------------------------------
(* G mode for C09: values of the probe struct types, documents with unknown   *)
(* fields for the pass-through law, documents lacking required fields.        *)
EXTENDS Deb822Struct, GenLib
b(s) == s
x == <<120>>  ab == <<97, SP, 98>>  acb == <<97, COMMA, SP, 98>>  l12 == <<108, 49, LF, 108, 50>>
hashline == <<108, 49, LF, HASH, 50>>                   \* "l1\n#2" : a second line that starts with '#' is text
pct == <<49, 48, 48, 37, 32, 100, 111, 110, 101, 32, 37, 115, 45, 37, 100, 37>>          \* "100% done %s-%d%" : nothing in a value is a format directive
Rec1 == [S : {<<>>, x, ab, l12, hashline, pct, <<120, LF, LF>>, <<120, LF, 121, LF, LF, LF>>}, Renamed : {<<>>, <<114>>}, Req : {<<>>, <<113>>}, Skip : {<<>>, <<104, 105, 100>>},
         Multi : {<<>>, <<109, 49, LF, 109, 50>>, <<111, 110, 101>>, <<109, 49, LF, SP, HASH, SP, 109, 50, LF, 109, 51>>}]
Rec2 == [I : {0, 1, -7, 2147483647}, U : {0, 5, 1023, 1024, 65536, 2147483647}, B : BOOLEAN, ReqI : {0, 3}, ReqB : BOOLEAN]
StrLists == {<<>>, <<<<97>>>>, <<<<98, SP, 99>>>>, <<<<97>>, <<98, SP, 99>>>>, <<<<98, SP, 99>>, <<97>>>>}
Rec3 == [L : StrLists, LS : {<<>>, <<x>>, <<x, <<121, SP, 122>>>>}, Sp : {<<>>, <<<<112>>>>, <<<<112>>, <<113>>>>},
         ReqL : {<<>>, <<<<114>>>>, <<<<114>>, <<115>>>>}, IL : {<<>>, <<1>>, <<0, -2>>}]
ver1 == <<49, 58, 50, 46, 48, 45, 51>>
dep1 == <<102, 111, 111, 32, 40, 62, 61, 32, 49, 41, 44, 32, 98, 97, 114, 32, 124, 32, 98, 97, 122>>     \* foo (>= 1), bar | baz
amd64 == <<97, 109, 100, 54, 52>>  linuxany == <<108, 105, 110, 117, 120, 45, 97, 110, 121>>  any == <<97, 110, 121>>  i386 == <<105, 51, 56, 54>>
h1 == <<97, 98, 99, 100, 32, 49, 50, 32, 102, 46, 116, 97, 114>>     \* "abcd 12 f.tar"
h2 == <<48, 49, 32, 48, 32, 103>>                                     \* "01 0 g"
Rec4 == [V : {<<>>, ver1}, D : {<<>>, dep1}, A : {<<>>, amd64, linuxany}, As : {<<>>, <<amd64>>, <<any, i386>>},
         H : {<<>>, <<h1>>, <<h1, h2>>}, RV : {<<49, 46, 48>>}]
RT == {[k |-> "rt", type |-> "P1", value |-> v] : v \in Rec1} \cup {[k |-> "rt", type |-> "P2", value |-> v] : v \in Rec2}
      \cup {[k |-> "rt", type |-> "P3", value |-> v] : v \in Rec3} \cup {[k |-> "rt", type |-> "P4", value |-> v] : v \in Rec4}
Rec6 == [A : {<<>>, x}, Z : {<<122>>, <<122, 122>>}]        \* (a struct whose fields are all empty marshals to no paragraph at all)
RT6 == {[k |-> "rt", type |-> "P6", value |-> v] : v \in Rec6}
\* P7: other tag combinations of lists, and strings that begin with white space (" x", "  a\nb", "\tq", " ")
alpha == <<97, 108, 112, 104, 97>>  beta == <<98, 101, 116, 97>>  gamma == <<103, 97, 109, 109, 97>>
Rec7 == [CS : {<<>>, <<alpha>>, <<alpha, beta, gamma>>}, ML : {<<>>, <<<<112>>>>, <<<<112>>, <<113>>, <<114>>>>}, CN : {<<>>, <<x>>, <<x, <<121>>>>},
         S : {<<>>, x, <<SP, 120>>, <<SP, SP, 97, LF, 98>>, <<TAB, 113>>, <<SP, SP, 105, LF, SP, 106>>,
              <<194, 160, 105>>, <<226, 128, 131, 120, LF, 121>>, <<227, 128, 128, 122>>}]      \* ... U+00A0, U+2003, U+3000 first
RT7 == {[k |-> "rt", type |-> "P7", value |-> v] : v \in {r \in Rec7 : r.CS # <<>> \/ r.ML # <<>> \/ r.CN # <<>> \/ r.S # <<>>}}     \* (all empty: no paragraph at all)
Desc == {[k |-> "desc", type |-> t] : t \in {"P1", "P2", "P3", "P4", "P5", "P6", "P7"}}

\* pass-through: known fields Name, Count, Tags and unknown fields X-A (single line), X-B (multi-line), X-C at every interleaving
kName == <<78, 97, 109, 101, 58, 32, 110>>                  \* "Name: n"
kCount == <<67, 111, 117, 110, 116, 58, 32, 52>>            \* "Count: 4"
kTags == <<84, 97, 103, 115, 58, 32, 116, 49, 44, 32, 116, 50>>   \* "Tags: t1, t2"
uA == <<88, 45, 65, 58, 32, 117, 110, 107>>                 \* "X-A: unk"
uB == <<88, 45, 66, 58, 32, 102, LF, SP, 109, 111, 114, 101, LF, SP, DOT, LF, SP, HASH, 104, LF, SP, 101, 110, 100>>   \* "X-B: f\n more\n .\n #h\n end"
uC == <<88, 45, 67, 58>>                                    \* "X-C:"
uLower == <<110, 97, 109, 101, 58, 32, 108, 111, 119>>     \* "name: low"   (not the known key Name)
uUpper == <<67, 79, 85, 78, 84, 58, 32, 55>>                \* "COUNT: 7"    (not the known key Count)
uPct == <<88, 45, 80, 58, 32, 49, 48, 48, 37, 32, 100, 111, 110, 101, 32, 37, 115>>       \* "X-P: 100% done %s"
Lines6 == {kName, kCount, kTags, uA, uB, uC}
Perms(S) == {p \in [1..Cardinality(S) -> S] : \A i, j \in 1..Cardinality(S) : p[i] = p[j] => i = j}
Subsets == {{kName, uA}, {uA, kCount, uB}, {kTags, uC, uA, kName}, {uA, uB, uC}, {kName, kCount, kTags}, {uB, kName},
            {uLower, uA}, {uUpper, uLower, kTags}, {uLower, kName, uUpper}, {uPct, kName}}
DocOf(p) == Concat([i \in 1..Len(p) |-> p[i] \o <<LF>>])
Sets == {[Name |-> <<99, 104, 97, 110, 103, 101, 100>>, Count |-> 9, Tags |-> <<<<122>>>>],
         [Name |-> <<>>, Count |-> 0, Tags |-> <<>>], [Name |-> <<110>>, Count |-> 1, Tags |-> <<>>]}
Pass == UNION {{[k |-> "passthru", doc |-> DocOf(p), set |-> s] : p \in Perms(S), s \in Sets} : S \in Subsets}

\* required fields absent on input
Missing == {[k |-> "missing", type |-> "P1", doc |-> <<83, 58, 32, 120, LF>>, complete |-> FALSE],
            [k |-> "missing", type |-> "P1", doc |-> <<82, 101, 113, 58, 32, 113, LF>>, complete |-> TRUE],
            [k |-> "missing", type |-> "P2", doc |-> <<82, 101, 113, 73, 58, 32, 51, LF>>, complete |-> FALSE],
            [k |-> "missing", type |-> "P2", doc |-> <<82, 101, 113, 73, 58, 32, 51, LF, 82, 101, 113, 45, 66, 58, 32, 110, 111, LF>>, complete |-> TRUE],
            [k |-> "missing", type |-> "P3", doc |-> <<76, 58, 32, 97, LF>>, complete |-> FALSE],
            [k |-> "missing", type |-> "P4", doc |-> <<86, 58, 32, 49, LF>>, complete |-> FALSE]}
\* one receiver, two documents: a "full" first value, every value as the second
Full1 == [S |-> ab, Renamed |-> <<114>>, Req |-> <<113>>, Skip |-> <<>>, Multi |-> <<111, 110, 101>>]
Full2 == [I |-> -7, U |-> 5, B |-> TRUE, ReqI |-> 3, ReqB |-> TRUE]
Full3 == [L |-> <<<<97>>, <<98, SP, 99>>>>, LS |-> <<x, <<121, SP, 122>>>>, Sp |-> <<<<112>>, <<113>>>>, ReqL |-> <<<<114>>, <<115>>>>, IL |-> <<0, -2>>]
Full4 == [V |-> ver1, D |-> dep1, A |-> amd64, As |-> <<any, i386>>, H |-> <<h1, h2>>, RV |-> <<49, 46, 48>>]
RT2 == {[k |-> "rt2", type |-> "P1", first |-> Full1, second |-> v] : v \in Rec1}
       \cup {[k |-> "rt2", type |-> "P2", first |-> Full2, second |-> v] : v \in Rec2}
       \cup {[k |-> "rt2", type |-> "P3", first |-> Full3, second |-> v] : v \in Rec3}
       \cup {[k |-> "rt2", type |-> "P4", first |-> Full4, second |-> v] : v \in Rec4}
\* several values in one document, decoded into a slice: a fully populated value first, any value second, and back
RTS == {[k |-> "rt_slice", type |-> "P1", values |-> <<Full1, v, Full1>>] : v \in {w \in Rec1 : w.Req # <<>>}}
       \cup {[k |-> "rt_slice", type |-> "P2", values |-> <<Full2, v>>] : v \in Rec2}
       \cup {[k |-> "rt_slice", type |-> "P3", values |-> <<Full3, v>>] : v \in {w \in Rec3 : w.ReqL # <<>>}}
       \cup {[k |-> "rt_slice", type |-> "P4", values |-> <<Full4, v>>] : v \in Rec4}
ASSUME Emit(SetToSeq(Desc) \o SetToSeq(RT \cup Pass \cup Missing) \o SetToSeq(RT2) \o SetToSeq(RT6) \o SetToSeq(RT7) \o SetToSeq(RTS))
=============================================================================
