------------------------------ MODULE C09Trace ------------------------------
(* V mode for C09: judge control.Marshal / Unmarshal on the probe struct types. *)
EXTENDS Deb822Struct, TraceLib, LongTrace
VARIABLES l, verdict
vars == <<l, verdict>>

\* keys arrive as JSON strings in the reflected descriptors; the table's keys are strings too; the paragraph's
\* keys are bytes.  KeyB maps the (ASCII) key strings of the table to bytes.
KeyB(k) == CASE k = "S" -> <<83>> [] k = "X-Renamed" -> <<88, 45, 82, 101, 110, 97, 109, 101, 100>> [] k = "Req" -> <<82, 101, 113>>
             [] k = "Multi" -> <<77, 117, 108, 116, 105>> [] k = "I" -> <<73>> [] k = "U" -> <<85>> [] k = "B" -> <<66>>
             [] k = "ReqI" -> <<82, 101, 113, 73>> [] k = "Req-B" -> <<82, 101, 113, 45, 66>> [] k = "L" -> <<76>>
             [] k = "L-S" -> <<76, 45, 83>> [] k = "Sp" -> <<83, 112>> [] k = "ReqL" -> <<82, 101, 113, 76>> [] k = "IL" -> <<73, 76>>
             [] k = "V" -> <<86>> [] k = "Depends" -> <<68, 101, 112, 101, 110, 100, 115>> [] k = "A" -> <<65>>
             [] k = "Architectures" -> <<65, 114, 99, 104, 105, 116, 101, 99, 116, 117, 114, 101, 115>>
             [] k = "Checksums-Sha256" -> <<67, 104, 101, 99, 107, 115, 117, 109, 115, 45, 83, 104, 97, 50, 53, 54>>
             [] k = "Req-V" -> <<82, 101, 113, 45, 86>> [] k = "Name" -> <<78, 97, 109, 101>> [] k = "Count" -> <<67, 111, 117, 110, 116>>
             [] k = "Tags" -> <<84, 97, 103, 115>> [] k = "-" -> <<45>> [] k = "" -> <<>> [] k = "Z" -> <<90>>
             [] k = "C-S" -> <<67, 45, 83>> [] k = "ML" -> <<77, 76>> [] k = "CN" -> <<67, 78>>

EmptyRaw == [order |-> <<>>, values |-> <<>>]

JudgeDesc(rec) ==
    Checks("descriptors", << <<rec.fields = Table(rec.in.type), "probe type does not match the descriptor table of the specification">> >>)

\* the bytes written denote the expected fields (reference reader)
BytesDenote(bytes, exp) ==
    LET r == RefRead(bytes) IN
    /\ r.wf
    /\ IF exp.order = <<>> THEN r.paras = <<>>
       ELSE /\ Len(r.paras) = 1 /\ Len(r.paras[1]) = Len(exp.order)
            /\ \A k \in 1..Len(exp.order) :
                  /\ r.paras[1][k].name = exp.order[k]
                  /\ LinesAgree(ValueLines(exp.value[exp.order[k]]), r.paras[1][k].lines)
                     \/ r.paras[1][k].lines = ValueLines(exp.value[exp.order[k]])

JudgeRT(rec) ==
    LET desc == Table(rec.in.type)
        val == rec.in.value
        exp == UpdatePara(EmptyRaw, Written(desc, val, KeyB))
        skipped == SelectSeq(desc, LAMBDA d : d.key = "-")
    IN Guarded(rec.in.type,
       << <<~rec.panic, "marshalling a supported type panicked">>,
          <<rec.marshal_ok, "Marshal failed on a supported type">> >>,
       << <<ParaIs(rec.para, exp), "marshalled paragraph: wrong fields, order, omission of optional empty fields or presence of required ones">>,
          <<BytesDenote(rec.bytes, exp), "written bytes do not denote the expected fields">>,
          <<rec.unmarshal_ok, "Unmarshal rejected the marshalled text">>,
          <<rec.unmarshal_ok => SameValue(desc, rec.decoded, val), "unmarshalling the marshalled text does not reproduce the value">>,
          <<rec.unmarshal_ok => \A k \in 1..Len(skipped) : rec.decoded[skipped[k].name] = <<>>, "a skipped field was decoded">>,
          <<rec.unmarshal_ok => (rec.redecode_ok /\ SameValue(desc, rec.redecoded, val)),
            "unmarshalling the same text again into the struct that already holds the value does not reproduce the value">> >>)

\* one receiver, two documents: a field the second text carries holds the second value; a field it does not
\* carry (optional and empty) holds the first value or the empty one, nothing else
JudgeRT2(rec) ==
    LET desc == Table(rec.in.type)
        A == rec.in.first  B == rec.in.second
        InText(d) == d.required \/ FieldText(d, B[d.name]) # <<>>
        fields == {k \in 1..Len(desc) : desc[k].kind # "raw" /\ desc[k].key # "-"}
    IN Checks("reused-receiver",
       << <<~rec.panic, "decoding a second document into the same struct panicked">>,
          <<rec.ok, "Marshal/Unmarshal failed on a supported type (second document into the same struct)">>,
          <<rec.ok => \A k \in fields : InText(desc[k]) => SameField(desc[k], rec.decoded[desc[k].name], B[desc[k].name]),
            "a field present in the second document does not hold the second document's value after decoding into a struct that held another value">>,
          <<rec.ok => \A k \in fields : ~InText(desc[k]) =>
                (SameField(desc[k], rec.decoded[desc[k].name], B[desc[k].name]) \/ SameField(desc[k], rec.decoded[desc[k].name], A[desc[k].name])),
            "a field absent from the second document holds neither the earlier nor the empty value">> >>)

JudgeRTSlice(rec) ==
    LET desc == Table(rec.in.type)  vals == rec.in.values IN
    Guarded("slice-of-structs",
       << <<~rec.panic, "encoding / decoding a sequence of values panicked">>,
          <<rec.ok, "a sequence of supported values could not be encoded into one document and decoded into a slice">> >>,
       << <<Len(rec.decoded) = Len(vals), "a document of n paragraphs does not decode into n slice elements">>,
          <<Len(rec.decoded) = Len(vals) => \A k \in 1..Len(vals) : SameValue(desc, rec.decoded[k], vals[k]),
            "an element of a slice decoded from a multi-paragraph document differs from the value that was written (a field its paragraph omits must be zero)">> >>)

JudgePass(rec) ==
    LET desc == Table("P5")
        r == RefRead(rec.in.doc)
        rawp == [order |-> [k \in 1..Len(r.paras[1]) |-> r.paras[1][k].name],
                 values |-> [k \in 1..Len(r.paras[1]) |-> <<r.paras[1][k].name, GoValue(r.paras[1][k].lines)>>]]
        \* struct after Unmarshal, with the fields named in `set` overwritten
        cur == [f \in {"Name", "Count", "Tags"} |-> rec.in.set[f]]
        exp == UpdatePara(rawp, Written(desc, cur, KeyB))
    IN Checks("passthrough",
       << <<~rec.panic, "panic">>,
          <<rec.unmarshal_ok /\ rec.marshal_ok, "Unmarshal/Marshal failed">>,
          <<ParaIs(rec.para, exp), "unknown fields not re-emitted unchanged in their original order, or known fields not updated in place">>,
          <<rec.para_kept = rec.para, "a paragraph obtained from ConvertToParagraph changed when the struct was converted again with other fields set">> >>)

JudgeMissing(rec) ==
    Checks(IF rec.in.complete THEN "required-present" ELSE "required-missing",
       << <<rec.ok = rec.in.complete, "absence of a required field is not an error (or its presence is)">> >>)

Judge(rec) ==
    CASE rec.ev = "desc" -> JudgeDesc(rec)
      [] rec.ev = "rt" -> JudgeRT(rec)
      [] rec.ev = "rt2" -> JudgeRT2(rec)
      [] rec.ev = "rt_slice" -> JudgeRTSlice(rec)
      [] rec.ev = "passthru" -> JudgePass(rec)
      [] rec.ev = "missing" -> JudgeMissing(rec)
      [] OTHER -> V(FALSE, "unknown-event", "unknown event")

Init == l \in 1..Len(Trace) /\ verdict = Pending
Next == verdict.class = "pending" /\ verdict' = JudgeOrCrash(Trace[l], LAMBDA r : IF IsLong(r) THEN JudgeLong(r) ELSE Judge(r)) /\ UNCHANGED l
Spec == Init /\ [][Next]_vars
=============================================================================
