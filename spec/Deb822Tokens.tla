---------------------------- MODULE Deb822Tokens ----------------------------
(* A representative token alphabet for control files: each token is one line *)
(* shape the reader distinguishes.  Documents = token sequences x EOL x final *)
(* newline, rendered to bytes here (used by the model checker and by G mode). *)
EXTENDS Bytes

TokLine(t) ==
    CASE t = 1  -> <<65, COLON, SP, 120>>                 \* "A: x"
      [] t = 2  -> <<66, COLON>>                          \* "B:"      empty first line
      [] t = 3  -> <<65, COLON, SP, 121>>                 \* "A: y"    same name again
      [] t = 4  -> <<SP, 99>>                             \* " c"      continuation
      [] t = 5  -> <<TAB, SP, 100, SP>>                   \* "\t d "   tab continuation, indented, trailing space
      [] t = 6  -> <<SP, DOT>>                            \* " ."      empty line
      [] t = 7  -> <<SP>>                                 \* " "       white-space-only line
      [] t = 8  -> <<HASH, 107>>                          \* "#k"      comment
      [] t = 9  -> <<>>                                   \* ""        blank line
      [] t = 10 -> <<106, 117, 110, 107>>                 \* "junk"    no colon
      [] t = 11 -> <<67, COLON, SP, SP, 122, SP, 58, 119, SP>>   \* "C:  z :w "  spaces, second colon
      [] t = 12 -> <<SP, DOT, DOT>>                       \* " .."     not an empty line
      [] t = 13 -> <<SP, SP, DOT>>                        \* "  ."     an indented dot is text, not the empty-line marker
      [] t = 14 -> <<SP, TAB, DOT, SP>>                   \* " \t. "   likewise, with trailing space
      [] t = 15 -> <<SP, HASH, 104>>                      \* " #h"     a continuation line whose text starts with '#' is text, not a comment
      [] t = 16 -> <<SP, DOT, SP, TAB>>                   \* " . \t"   the empty-line marker followed by blanks (trailing blanks are not text)
AllTokens == 1..16

Eol(crlf) == IF crlf THEN <<CR, LF>> ELSE <<LF>>
Doc(toks, crlf, final) ==
    LET n == Len(toks) IN
    Concat([k \in 1..n |-> TokLine(toks[k]) \o (IF k < n \/ final THEN Eol(crlf) ELSE <<>>)])

TokSeqs(maxlen, toks) == UNION {[1..k -> toks] : k \in 0..maxlen}
=============================================================================
