---------------------------- MODULE VerRevCmpMC ----------------------------
(***************************************************************************)
(* Impl layer for C01: verrevcmp of version/version.go:130-178 as a state  *)
(* machine, one action per loop iteration.  TLC checks, for every pair of  *)
(* part strings over Alphabet up to MaxLen:                                *)
(*   - Refines : when the machine is done, Sign(res) = PolicyCmp(a, b)     *)
(*   - Progress: a variant decreases on every step (so it terminates)      *)
(*   - Termination (temporal, under weak fairness)                         *)
(***************************************************************************)
EXTENDS DebVersion, TLC
CONSTANTS Alphabet, MaxLen
VARIABLES a, b, i, j, fd, pc, res
vars == <<a, b, i, j, fd, pc, res>>

Dom == SeqsUpTo(Alphabet, MaxLen)
Init == /\ a \in Dom /\ b \in Dom
        /\ i = 1 /\ j = 1 /\ fd = 0 /\ pc = "outer" /\ res = 0

InA == i <= Len(a)
InB == j <= Len(b)

Outer == /\ pc = "outer"
         /\ IF InA \/ InB THEN /\ pc' = "nondigit" /\ fd' = 0 /\ UNCHANGED res
                          ELSE /\ pc' = "done" /\ res' = 0 /\ UNCHANGED fd
         /\ UNCHANGED <<a, b, i, j>>

NonDigit ==
    /\ pc = "nondigit"
    /\ IF (InA /\ ~IsDigit(a[i])) \/ (InB /\ ~IsDigit(b[j]))
       THEN LET ac == IF InA THEN ImplOrder(a[i]) ELSE 0
                bc == IF InB THEN ImplOrder(b[j]) ELSE 0
            IN IF ac # bc
               THEN /\ res' = ac - bc /\ pc' = "done" /\ UNCHANGED <<i, j>>
               ELSE /\ i' = i + 1 /\ j' = j + 1 /\ UNCHANGED <<res, pc>>
       ELSE /\ pc' = "zerosA" /\ UNCHANGED <<i, j, res>>
    /\ UNCHANGED <<a, b, fd>>

ZerosA == /\ pc = "zerosA"
          /\ IF InA /\ a[i] = 48 THEN i' = i + 1 /\ UNCHANGED pc
                                 ELSE pc' = "zerosB" /\ UNCHANGED i
          /\ UNCHANGED <<a, b, j, fd, res>>

ZerosB == /\ pc = "zerosB"
          /\ IF InB /\ b[j] = 48 THEN j' = j + 1 /\ UNCHANGED pc
                                 ELSE pc' = "digits" /\ UNCHANGED j
          /\ UNCHANGED <<a, b, i, fd, res>>

Digits == /\ pc = "digits"
          /\ IF InA /\ IsDigit(a[i]) /\ InB /\ IsDigit(b[j])
             THEN /\ fd' = IF fd = 0 THEN a[i] - b[j] ELSE fd
                  /\ i' = i + 1 /\ j' = j + 1 /\ UNCHANGED pc
             ELSE /\ pc' = "decide" /\ UNCHANGED <<i, j, fd>>
          /\ UNCHANGED <<a, b, res>>

Decide == /\ pc = "decide"
          /\ IF InA /\ IsDigit(a[i]) THEN res' = 1 /\ pc' = "done"
             ELSE IF InB /\ IsDigit(b[j]) THEN res' = -1 /\ pc' = "done"
             ELSE IF fd # 0 THEN res' = fd /\ pc' = "done"
             ELSE pc' = "outer" /\ UNCHANGED res
          /\ UNCHANGED <<a, b, i, j, fd>>

Next == Outer \/ NonDigit \/ ZerosA \/ ZerosB \/ Digits \/ Decide
Spec == Init /\ [][Next]_vars /\ WF_vars(Next)

Refines == pc = "done" => Sign(res) = PolicyCmp(a, b)
Bounds == i <= Len(a) + 2 /\ j <= Len(b) + 2   \* NonDigit may step both cursors past one end

PcRank == CASE pc = "outer" -> 6 [] pc = "nondigit" -> 5 [] pc = "zerosA" -> 4
            [] pc = "zerosB" -> 3 [] pc = "digits" -> 2 [] pc = "decide" -> 1 [] OTHER -> 0
\* every outer iteration consumes at least one byte of a or b
Variant == (2 * MaxLen + 4 - Min2(i, Len(a) + 1) - Min2(j, Len(b) + 1)) * 8 + PcRank
Progress == [][pc # "done" =>
                 (pc' = "done" \/ Variant' < Variant \/ (pc = "decide" /\ pc' = "outer"))]_vars
Terminates == <>(pc = "done")
=============================================================================
