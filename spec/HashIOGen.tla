------------------------------ MODULE HashIOGen ------------------------------
(* G mode for C12: behaviours of hashing writers/readers and verifier scenarios *)
EXTENDS HashIO, GenLib
CONSTANTS Chunkings, Lens, LifeLen
AlgSeqs == UNION {{s \in [1..n -> Algs] : \A i, j \in 1..n : s[i] = s[j] => i = j} : n \in 1..4}
Sizes == {0, 1, 2, 63, 64, 65}
AllChunkings == UNION {[1..n -> Sizes] : n \in 1..3}
FewChunkings == {<<0>>, <<1>>, <<64>>, <<1, 64>>, <<63, 1, 65>>, <<0, 0, 2>>, <<65, 65, 65>>, <<2, 0, 63>>}
Ch == IF Chunkings = "all" THEN AllChunkings ELSE FewChunkings
HW == {[k |-> "hw", algs |-> a, single |-> s, chunks |-> c, seed |-> 7] :
          a \in AlgSeqs, s \in BOOLEAN, c \in Ch} 
\* the same through io.WriteString (a writer may offer a WriteString method of its own)
HWs == {[k |-> "hw", algs |-> a, single |-> s, chunks |-> c, seed |-> 9, as_string |-> TRUE] :
          a \in {<<"sha256">>, <<"md5", "sha512">>, <<"sha1", "md5", "sha256", "sha512">>}, s \in BOOLEAN, c \in FewChunkings}
\* an algorithm named more than once: every slot is a hasher of its own
DupSeqs == {<<"sha256", "md5", "sha256">>, <<"md5", "md5">>, <<"sha1", "sha512", "sha1", "sha1">>}
HWd == {[k |-> "hw", algs |-> a, single |-> FALSE, chunks |-> c, seed |-> 7] : a \in DupSeqs, c \in FewChunkings}
HWok == {v \in HW \cup HWs \cup HWd : v.single => Len(v.algs) = 1}
Bufs == {<<1>>, <<200>>, <<1, 1, 1>>, <<2, 64, 200, 200>>, <<64, 64, 64, 64>>, <<3, 200>>}
\* the source may deliver its last bytes together with io.EOF ("dataerr"), one byte per call, or half a buffer
HR == {[k |-> "hr", algs |-> a, single |-> s, chunks |-> c, total |-> t, seed |-> 11, src |-> "plain"] :
          a \in AlgSeqs, s \in BOOLEAN, c \in Bufs, t \in {0, 1, 5, 64, 130}}
      \cup {[k |-> "hr", algs |-> a, single |-> s, chunks |-> c, total |-> t, seed |-> 13, src |-> sr] :
          a \in {<<"sha256">>, <<"md5", "sha512">>, <<"sha1", "md5", "sha256", "sha512">>}, s \in BOOLEAN, c \in Bufs,
          t \in {0, 1, 5, 130}, sr \in {"dataerr", "onebyte", "half"}}
HRd == {[k |-> "hr", algs |-> a, single |-> FALSE, chunks |-> c, total |-> t, seed |-> 11, src |-> "plain"] : a \in DupSeqs, c \in Bufs, t \in {5, 130}}
\* a source whose second Read delivers bytes together with a transient error and then goes on
HRt == {[k |-> "hr", algs |-> a, single |-> s, chunks |-> c, total |-> 130, seed |-> 13, src |-> "transient"] :
          a \in {<<"sha256">>, <<"md5", "sha512">>}, s \in BOOLEAN, c \in {<<1, 1, 1>>, <<2, 64, 200, 200>>, <<64, 64, 64, 64>>}}
HRok == {v \in HR \cup HRd \cup HRt : v.single => Len(v.algs) = 1}
Sources == {<<"sha256", "dsc256">>, <<"sha256", "best">>, <<"sha512", "best">>, <<"sha256", "bestloop">>, <<"sha512", "bestloop">>,
            <<"sha256", "bestafter">>, <<"sha512", "bestafter">>} \cup {<<a, "hasher">> : a \in Algs}
RecordedKinds(alg) == {"equal", "upper", "unequal", "trunc_odd", "trunc_even", "trunc_zero_tail", "empty_content_hash", "longer", "zero_padded"} \cup
                      {"other:" \o a : a \in Algs \ {alg}}
Ver == UNION {{[k |-> "verifier", alg |-> s[1], source |-> s[2], recorded |-> r, len |-> n, chunks |-> c, seed |-> 5] :
                   r \in RecordedKinds(s[1]), n \in Lens, c \in {<<>>, <<1>>, <<64, 1>>}} : s \in Sources}
\* the entry variable is overwritten with another entry between Verifier() and Close()
VerReuse == UNION {{[k |-> "verifier", alg |-> s[1], source |-> s[2], recorded |-> r, len |-> 64, chunks |-> <<1>>, seed |-> 5, reuse_var |-> TRUE] :
                   r \in {"equal", "unequal"}} : s \in Sources}
\* a second verifier of the same algorithm is alive and fed between the chunks of the one under test
VerInter == UNION {{[k |-> "verifier", alg |-> s[1], source |-> s[2], recorded |-> r, len |-> 130, chunks |-> <<64, 1>>, seed |-> 5, interleave |-> TRUE] :
                   r \in {"equal", "unequal"}} : s \in Sources}
\* sequences of verifications in one process: accept, reject, accept again (per algorithm), and reject first
St(a, src, r) == [alg |-> a, source |-> src, recorded |-> r, len |-> 64, chunks |-> <<1>>, seed |-> 5]
VerSeqs == {[k |-> "verifier_seq", steps |-> <<St(a, src, "equal"), St(a, src, "unequal"), St(a, src, "equal"), St(a, src, "trunc_even"), St(a, src, "equal")>>] :
               a \in {"sha256", "sha512"}, src \in {"best", "hasher"}}
           \cup {[k |-> "verifier_seq", steps |-> <<St("md5", "hasher", "unequal"), St("md5", "hasher", "equal"), St("sha1", "hasher", "unequal"), St("sha1", "hasher", "equal")>>]}
\* one hasher, every sequence of up to LifeLen operations: write 1 / 63 / 65 / 129 bytes, Sum through the pointer,
\* entry built from the hasher by value - the hasher is used again after each
LifeOps == {[op |-> "w", n |-> n] : n \in {1, 63, 65, 129}} \cup {[op |-> "ws", n |-> 7]} \cup {[op |-> "s", n |-> 0], [op |-> "e", n |-> 0], [op |-> "sp", n |-> 0]}
LifeSeqs == UNION {[1..m -> LifeOps] : m \in 2..LifeLen}
Life == {[k |-> "hasher_life", alg |-> a, ops |-> o] : a \in Algs,
            o \in {q \in LifeSeqs : \E i \in 1..Len(q) : q[i].op \in {"s", "e", "sp"}}}
ASSUME Emit(SetToSeq(HWok \cup HRok \cup Ver) \o SetToSeq(VerSeqs) \o SetToSeq(Life) \o SetToSeq(VerReuse) \o SetToSeq(VerInter))
=============================================================================
