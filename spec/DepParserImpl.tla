---------------------------- MODULE DepParserImpl ----------------------------
(***************************************************************************)
(* Impl layer for C04/C18: dependency/parser.go transcribed function by    *)
(* function (parseDependency, parseRelation, parsePossibility,             *)
(* parseSubstvar, parseMultiarch, parsePossibilityControllers, ...Version, *)
(* ...Operator, ...Number, ...Archs, ...Arch, ...StageSet, ...Stage), as   *)
(* the code stands after the repairs.  Every operator takes the input and  *)
(* the cursor (1-based; Peek beyond the end is 0, as in Go) and returns    *)
(* [err, i, ...].  `fuel` bounds the loops: running out of it would be a   *)
(* hang of the real parser (C18) and is reported as err = "hang".          *)
(***************************************************************************)
EXTENDS DebDependency

Peek(s, i) == IF i <= Len(s) THEN s[i] ELSE 0
IsWs(c) == c \in {SP, TAB, LF, CR}
EatWs(s, i) == LeftIdx(s, i, {SP, TAB, LF, CR})
IsOpChar(c) == c \in {LT, GT, EQ}
ImplArch(n) == RefArchTriple(n)       \* ParseArch never fails (SplitN(…, 3) has 1..3 parts)

\* parsePossibilityStage: [err, i, stage]
RECURSIVE PStage(_, _, _, _)
PStage(s, i, st, fuel) ==
    IF fuel = 0 THEN [err |-> "hang", i |-> i, v |-> st]
    ELSE LET c == Peek(s, i) IN
      IF c = 0 THEN [err |-> "eof", i |-> i, v |-> st]
      ELSE IF c = BANG THEN (IF st.not \/ st.name # <<>> THEN [err |-> "bang", i |-> i + 1, v |-> st]
                             ELSE PStage(s, i + 1, [st EXCEPT !.not = TRUE], fuel - 1))
      ELSE IF c = GT \/ IsWs(c) THEN [err |-> "", i |-> i, v |-> st]
      ELSE PStage(s, i + 1, [st EXCEPT !.name = Append(@, c)], fuel - 1)
\* parsePossibilityStageSet (cursor on '<'): [err, i, v = stages]
RECURSIVE PStageSetLoop(_, _, _, _)
PStageSetLoop(s, i, acc, fuel) ==
    IF fuel = 0 THEN [err |-> "hang", i |-> i, v |-> acc]
    ELSE LET k == EatWs(s, i)  c == Peek(s, k) IN
      IF c = 0 THEN [err |-> "eof", i |-> k, v |-> acc]
      ELSE IF c = GT THEN [err |-> "", i |-> k + 1, v |-> acc]
      ELSE LET r == PStage(s, EatWs(s, k), [not |-> FALSE, name |-> <<>>], fuel) IN
           IF r.err # "" THEN [err |-> r.err, i |-> r.i, v |-> acc]
           ELSE PStageSetLoop(s, r.i, Append(acc, r.v), fuel - 1)
PStageSet(s, i, fuel) == PStageSetLoop(s, EatWs(s, i) + 1, <<>>, fuel)

\* parsePossibilityArch: [err, i, v = [not, name]] given the list so far
RECURSIVE PArchName(_, _, _, _)
PArchName(s, i, acc, fuel) ==
    IF fuel = 0 THEN [err |-> "hang", i |-> i, v |-> acc]
    ELSE LET c == Peek(s, i) IN
      IF c = 0 THEN [err |-> "eof", i |-> i, v |-> acc]
      ELSE IF c = BANG THEN [err |-> "bang", i |-> i, v |-> acc]
      ELSE IF c = RBRACK \/ IsWs(c) THEN [err |-> "", i |-> i, v |-> acc]
      ELSE PArchName(s, i + 1, Append(acc, c), fuel - 1)
RECURSIVE PArchsLoop(_, _, _, _)
PArchsLoop(s, i, set, fuel) ==
    IF fuel = 0 THEN [err |-> "hang", i |-> i, v |-> set]
    ELSE LET k == EatWs(s, i)  c == Peek(s, k) IN
      IF c = 0 THEN [err |-> "eof", i |-> k, v |-> set]
      ELSE IF c = RBRACK THEN [err |-> "", i |-> k + 1, v |-> set]
      ELSE LET k2 == EatWs(s, k)
               hasNot == Peek(s, k2) = BANG
               k3 == IF hasNot THEN k2 + 1 ELSE k2
           IN IF set.list # <<>> /\ set.not # hasNot THEN [err |-> "mixed", i |-> k3, v |-> set]
              ELSE LET r == PArchName(s, k3, <<>>, fuel) IN
                   IF r.err # "" THEN [err |-> r.err, i |-> r.i, v |-> set]
                   ELSE PArchsLoop(s, r.i, [not |-> IF set.list = <<>> THEN hasNot ELSE set.not,
                                            list |-> Append(set.list, ImplArch(r.v))], fuel - 1)
PArchs(s, i, fuel) == PArchsLoop(s, EatWs(s, i) + 1, [not |-> FALSE, list |-> <<>>], fuel)

\* parsePossibilityVersion (cursor on '('): [err, i, v = [some, op, num]]
POperator(s, i) ==
    LET k == EatWs(s, i)  leader == Peek(s, k) IN
    IF leader = EQ THEN (IF IsOpChar(Peek(s, k + 1)) THEN [err |-> "op", i |-> k + 1, op |-> <<>>]
                         ELSE [err |-> "", i |-> k + 1, op |-> <<EQ>>])
    ELSE LET second == Peek(s, k + 1) IN
         IF leader = 0 \/ second = 0 THEN [err |-> "eof", i |-> k + 2, op |-> <<>>]
         ELSE IF <<leader, second>> \in {<<GT, EQ>>, <<LT, EQ>>, <<LT, LT>>, <<GT, GT>>} /\ ~IsOpChar(Peek(s, k + 2))
              THEN [err |-> "", i |-> k + 2, op |-> <<leader, second>>]
              ELSE [err |-> "op", i |-> k + 2, op |-> <<>>]
RECURSIVE PNumber(_, _, _, _)
PNumber(s, i, acc, fuel) ==
    IF fuel = 0 THEN [err |-> "hang", i |-> i, v |-> acc]
    ELSE LET c == Peek(s, i) IN
      IF c = 0 THEN [err |-> "eof", i |-> i, v |-> acc]
      ELSE IF c = RPAREN THEN [err |-> "", i |-> i, v |-> acc]
      ELSE IF IsWs(c) THEN (LET k == EatWs(s, i) IN
                            IF Peek(s, k) # RPAREN THEN [err |-> "garbage", i |-> k, v |-> acc]
                            ELSE PNumber(s, k, acc, fuel - 1))
      ELSE PNumber(s, i + 1, Append(acc, c), fuel - 1)
PVersion(s, i, fuel) ==
    LET o == POperator(s, EatWs(s, i) + 1) IN
    IF o.err # "" THEN [err |-> o.err, i |-> o.i, v |-> [some |-> FALSE, op |-> <<>>, num |-> <<>>]]
    ELSE LET n == PNumber(s, EatWs(s, o.i), <<>>, fuel) IN
         IF n.err # "" THEN [err |-> n.err, i |-> n.i, v |-> [some |-> FALSE, op |-> <<>>, num |-> <<>>]]
         ELSE [err |-> "", i |-> n.i + 1, v |-> [some |-> TRUE, op |-> o.op, num |-> n.v]]

\* parsePossibilityControllers: [err, i, v = possibility]
RECURSIVE PControllers(_, _, _, _)
PControllers(s, i, p, fuel) ==
    IF fuel = 0 THEN [err |-> "hang", i |-> i, v |-> p]
    ELSE LET k == EatWs(s, i)  c == Peek(s, k) IN
      IF c \in {COMMA, PIPE, 0} THEN [err |-> "", i |-> k, v |-> p]
      ELSE IF c = LPAREN THEN
          (IF p.ver.some THEN [err |-> "second-version", i |-> k, v |-> p]
           ELSE LET r == PVersion(s, k, fuel) IN
                IF r.err # "" THEN [err |-> r.err, i |-> r.i, v |-> p]
                ELSE PControllers(s, r.i, [p EXCEPT !.ver = r.v], fuel - 1))
      ELSE IF c = LBRACK THEN
          (IF p.archs.list # <<>> THEN [err |-> "second-arch", i |-> k, v |-> p]
           ELSE LET r == PArchs(s, k, fuel) IN
                IF r.err # "" THEN [err |-> r.err, i |-> r.i, v |-> p]
                ELSE PControllers(s, r.i, [p EXCEPT !.archs = r.v], fuel - 1))
      ELSE IF c = LT THEN
          (LET r == PStageSet(s, k, fuel) IN
           IF r.err # "" THEN [err |-> r.err, i |-> r.i, v |-> p]
           ELSE PControllers(s, r.i, IF r.v = <<>> THEN p ELSE [p EXCEPT !.stages = Append(@, r.v)], fuel - 1))
      ELSE [err |-> "garbage", i |-> k, v |-> p]

\* parseMultiarch (cursor on ':'): [err, i, v = triple]
MultiarchEnd(s, i) == FindFrom(s, i, {COMMA, PIPE, SP, TAB, LF, CR, LPAREN, LBRACK, LT})
\* parsePossibility: [err, i, some (was a possibility appended?), v]
RECURSIVE PPossLoop(_, _, _, _)
PPossLoop(s, i, p, fuel) ==
    IF fuel = 0 THEN [err |-> "hang", i |-> i, some |-> FALSE, v |-> p]
    ELSE LET c == Peek(s, i) IN
      IF c = COLON THEN (LET e == MultiarchEnd(s, i + 1) IN
                         PPossLoop(s, e, [p EXCEPT !.qual = [some |-> TRUE, t |-> ImplArch(Slice(s, i + 1, e - 1))]], fuel - 1))
      ELSE IF IsWs(c) \/ c \in {LPAREN, LBRACK, LT} THEN
          (LET r == PControllers(s, i, p, fuel) IN
           IF r.err # "" THEN [err |-> r.err, i |-> r.i, some |-> FALSE, v |-> p]
           ELSE PPossLoop(s, r.i, r.v, fuel - 1))
      ELSE IF c \in {COMMA, PIPE, 0} THEN [err |-> "", i |-> i, some |-> p.name # <<>>, v |-> p]
      ELSE PPossLoop(s, i + 1, [p EXCEPT !.name = Append(@, c)], fuel - 1)
PPoss(s, i, fuel) ==
    LET k == EatWs(s, i) IN
    IF Peek(s, k) = DOLLAR THEN
        \* parseSubstvar: skips two bytes blindly, then reads up to '}'
        (LET close == IndexFrom(s, k + 2, RBRACE)
             nul == IndexFrom(s, k + 2, 0)
         IN IF close = 0 \/ (nul # 0 /\ nul < close) THEN [err |-> "eof", i |-> Len(s) + 1, some |-> FALSE, v |-> EmptyPoss]
            ELSE [err |-> "", i |-> close + 1, some |-> TRUE,
                  v |-> [name |-> Slice(s, k + 2, close - 1), qual |-> [some |-> FALSE, t |-> NoTriple],
                         ver |-> [some |-> FALSE, op |-> <<>>, num |-> <<>>], archs |-> [not |-> FALSE, list |-> <<>>],
                         stages |-> <<>>, substvar |-> TRUE]])
    ELSE PPossLoop(s, k, EmptyPoss, fuel)

\* parseRelation: [err, i, v = possibilities]
RECURSIVE PRelLoop(_, _, _, _)
PRelLoop(s, i, acc, fuel) ==
    IF fuel = 0 THEN [err |-> "hang", i |-> i, v |-> acc]
    ELSE LET c == Peek(s, i) IN
      IF c \in {0, COMMA} THEN [err |-> "", i |-> i, v |-> acc]
      ELSE IF c = PIPE THEN PRelLoop(s, EatWs(s, i + 1), acc, fuel - 1)
      ELSE LET r == PPoss(s, i, fuel) IN
           IF r.err # "" THEN [err |-> r.err, i |-> r.i, v |-> acc]
           ELSE PRelLoop(s, r.i, IF r.some THEN Append(acc, r.v) ELSE acc, fuel - 1)
\* parseDependency: [err, ast]
RECURSIVE PDepLoop(_, _, _, _)
PDepLoop(s, i, acc, fuel) ==
    IF fuel = 0 THEN [err |-> "hang", ast |-> acc]
    ELSE LET c == Peek(s, i) IN
      IF c = 0 THEN [err |-> "", ast |-> acc]
      ELSE IF c = COMMA THEN PDepLoop(s, EatWs(s, i + 1), acc, fuel - 1)
      ELSE LET r == PRelLoop(s, EatWs(s, i), <<>>, fuel) IN
           IF r.err # "" THEN [err |-> r.err, ast |-> <<>>]
           ELSE PDepLoop(s, r.i, IF r.v = <<>> THEN acc ELSE Append(acc, r.v), fuel - 1)
ImplDepParse(s) == PDepLoop(s, EatWs(s, 1), <<>>, 4 * Len(s) + 8)
=============================================================================
