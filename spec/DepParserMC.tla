----------------------------- MODULE DepParserMC -----------------------------
(* M mode: the transcription of dependency/parser.go refines the reference parser on *)
(* every string over a representative alphabet up to MaxLen, never runs out of fuel  *)
(* (no hang), and agrees with it on every rendering of the bounded model domain.     *)
EXTENDS DepParserImpl, TLC
CONSTANTS Alphabet, MaxLen
VARIABLES x, ok
vars == <<x, ok>>
Init == x \in SeqsUpTo(Alphabet, MaxLen) /\ ok = "pending"
Law(s) == LET r == RefParse(s)  m == ImplDepParse(s) IN
          /\ m.err # "hang"
          /\ r.class = "accept" => (m.err = "" /\ m.ast = r.ast)
          /\ r.class = "reject" => m.err # ""
Next == ok = "pending" /\ ok' = (IF Law(x) THEN "ok" ELSE "bad") /\ UNCHANGED x
Spec == Init /\ [][Next]_vars
Holds == ok # "bad"
=============================================================================
