------------------------------- MODULE DepGen -------------------------------
(* G mode for C04-C06.                                                        *)
EXTENDS DepDomain, GenLib
CONSTANTS Mode, Kind, MaxAlts, SetEntries

Texts == {RenderDep(r.dep, r.style, r.order) : r \in Renderings}
\* degenerate architecture names (empty components) inside otherwise ordinary fields: accepted by the parser, so
\* the round-trip law speaks about them
foo == <<102, 111, 111>>
\* a substvar followed by what may follow a package name (accepted by the parser in one way or another)
sv == <<DOLLAR, LBRACE, 109, 58, 68, RBRACE>>                      \* ${m:D}
SubstClauses == {sv \o c \o t : c \in {<<SP, LPAREN, GT, EQ, SP, 49, DOT, 48, RPAREN>>, <<LPAREN, EQ, SP, 50, COLON, 49, RPAREN>>, <<SP, LBRACK>> \o amd64 \o <<RBRACK>>,
                                        <<SP, LT, 120, GT>>, <<COLON, 97, 110, 121>>, <<SP, LPAREN, GT, EQ, SP, 49, RPAREN, SP, LBRACK>> \o amd64 \o <<RBRACK>>},
                                t \in {<<>>, <<SP, PIPE, SP>> \o foo, <<COMMA, SP>> \o foo}}
                \cup {foo \o <<COMMA, SP>> \o sv \o <<SP, LPAREN, LT, LT, SP, 51, RPAREN>>}
                \* blanks before the closing bracket of a version clause, one bracket too many, empty profile groups
                \cup {foo \o <<SP, LPAREN, GT, EQ, SP, 49, DOT, 48>> \o t : t \in {<<SP, RPAREN>>, <<SP, RPAREN, RPAREN>>, <<SP, SP, RPAREN>>, <<RPAREN, RPAREN>>, <<TAB, RPAREN>>, <<SP, 50, RPAREN>>}}
                \cup {foo \o <<SP, LT, GT>>, foo \o <<SP, LT, SP, GT>>, foo \o <<SP, LT, 115, GT, SP, LT, SP, GT, SP, LT, BANG, 99, GT>>, foo \o <<SP, LT, BANG, GT>>}
Degenerate == {foo \o <<SP, LBRACK>> \o bGnu \o <<HYPHEN>> \o bLinux \o <<HYPHEN, RBRACK>>, foo \o <<COLON>> \o bGnu \o <<HYPHEN>> \o bLinux \o <<HYPHEN>>,
               foo \o <<SP, LBRACK>> \o bGnu \o <<HYPHEN>> \o bLinux \o <<HYPHEN, SP>> \o amd64 \o <<RBRACK>>,
               foo \o <<SP, LBRACK, HYPHEN, HYPHEN, RBRACK>>, foo \o <<SP, LBRACK, HYPHEN, HYPHEN, SP>> \o amd64 \o <<RBRACK>>,
               foo \o <<COLON, HYPHEN, HYPHEN>>, foo \o <<SP, LBRACK, HYPHEN, RBRACK>>, foo \o <<SP, LBRACK, BANG, HYPHEN, HYPHEN, RBRACK>>,
               foo \o <<SP, LBRACK>> \o amd64 \o <<HYPHEN, HYPHEN, RBRACK>>} \cup SubstClauses
\* two names with nothing but white space between them (no comma, no bar), alone and after a proper entry; a name
\* followed by a closing bracket of any kind, or by a character no clause starts with
bar == <<98, 97, 114>>
Juxta == {pre \o foo \o sep \o bar : pre \in {<<>>, <<113, COMMA, SP>>}, sep \in {<<SP>>, <<TAB>>, <<LF>>, <<CR>>, <<LF, TAB>>, <<SP, TAB, SP>>, <<LF, SP>>}}
         \cup {foo \o c : c \in {<<RBRACK>>, <<RPAREN>>, <<GT>>, <<RBRACE>>, <<EQ, 49>>, <<BANG>>, <<59>>, <<TAB, RPAREN>>, <<LF, RBRACK>>}}
\* an architecture name that ends in a non-ASCII space (U+00A0, U+2003, U+0085 as UTF-8), last or not last in its list:
\* whatever the parser makes of it, rendering and re-parsing must give the same thing
NbspArch == {foo \o <<SP, LBRACK>> \o amd64 \o <<SP, 105, 51, 56, 54>> \o w \o <<RBRACK>> : w \in {<<194, 160>>, <<226, 128, 131>>, <<194, 133>>}}
            \cup {foo \o <<SP, LBRACK, 105, 51, 56, 54>> \o w \o <<SP>> \o amd64 \o <<RBRACK>> : w \in {<<194, 160>>, <<226, 128, 131>>}}
            \cup {foo \o <<SP, LBRACK, BANG, 104, 117, 114, 100, HYPHEN, 97, 110, 121, 226, 128, 131, RBRACK, SP, LPAREN, GT, EQ, SP, 49, RPAREN>>}
\* architecture names with three and more dashes (dpkg's four-part tuples) in a list and as a qualifier; a name that
\* begins with the same component twice; a substvar name holding CR CR LF (whatever these mean, they mean it twice)
base == <<98, 97, 115, 101>>  eabi == <<101, 97, 98, 105>>
ManyDash == {foo \o <<SP, LBRACK>> \o n \o <<RBRACK>> : n \in {base \o <<HYPHEN>> \o bGnu \o <<HYPHEN>> \o bLinux \o <<HYPHEN>> \o amd64,
                                                                <<97, HYPHEN, 98, HYPHEN, 99, HYPHEN, 100, HYPHEN, 101>>,
                                                                base \o <<HYPHEN>> \o base \o <<HYPHEN>> \o bLinux \o <<HYPHEN>> \o amd64,
                                                                base \o <<HYPHEN>> \o base \o <<HYPHEN>> \o amd64,
                                                                bGnu \o <<HYPHEN>> \o bGnu \o <<HYPHEN>> \o bLinux \o <<HYPHEN>> \o amd64}}
            \cup {foo \o <<COLON>> \o eabi \o <<HYPHEN>> \o bGnu \o <<HYPHEN>> \o bLinux \o <<HYPHEN, 97, 114, 109>>,
                  foo \o <<COLON>> \o base \o <<HYPHEN>> \o base \o <<HYPHEN>> \o amd64,
                  <<DOLLAR, LBRACE, 97, CR, CR, LF, 98, RBRACE>>, <<DOLLAR, LBRACE, 97, CR, LF, 98, RBRACE>>, foo \o <<COMMA, SP, DOLLAR, LBRACE, 97, CR, CR, CR, LF, RBRACE>>}
\* fields that END in the middle of a substvar: a bare `$`, `${`, `${x` - alone, after a name, after a comma, after a bar
CutSubst == {pre \o cut : pre \in {<<>>, foo \o <<SP>>, foo \o <<COMMA, SP>>, foo \o <<SP, PIPE, SP>>, foo \o <<SP, LPAREN, GT, EQ, SP, 49, RPAREN, COMMA>>},
                           cut \in {<<DOLLAR>>, <<DOLLAR, LBRACE>>, <<DOLLAR, LBRACE, 120>>, <<DOLLAR, DOLLAR>>, <<DOLLAR, RBRACE>>}}
DepVecs == {[k |-> Kind, text |-> t] : t \in Texts \cup Degenerate \cup Juxta \cup NbspArch \cup ManyDash \cup CutSubst}

\* ---- architecture names (C05) ------------------------------------------------
bKf == <<107, 102, 114, 101, 101, 98, 115, 100>>  bMusl == <<109, 117, 115, 108>>
Comps8 == {bAny, bAll, bLinux, bKf, bGnu, bMusl, amd64, i386}
ArchNames == Comps8 \cup {a \o <<HYPHEN>> \o c : a \in Comps8, c \in Comps8}
             \cup {a \o <<HYPHEN>> \o o \o <<HYPHEN>> \o c : a \in Comps8, o \in Comps8, c \in Comps8}
Comps4 == {bAny, bGnu, bLinux, amd64}
ArchNames4 == {a \o <<HYPHEN>> \o o \o <<HYPHEN>> \o c \o <<HYPHEN>> \o e : a \in Comps4, o \in Comps4, c \in Comps4, e \in Comps4}
CompsE == {<<>>, bAny, amd64, bGnu, bLinux}          \* (gnu-linux-<empty> is the one the bare-CPU short form must not be used for)
ArchNamesE == {a \o <<HYPHEN>> \o c : a \in CompsE, c \in CompsE} \cup {a \o <<HYPHEN>> \o o \o <<HYPHEN>> \o c : a \in CompsE, o \in CompsE, c \in CompsE}
ArchVecs == {[k |-> "arch_rt", name |-> n] : n \in ArchNames \cup ArchNames4 \cup ArchNamesE}

\* ---- C06 domain: "all" plus {any,x,y,z}^3 --------------------------------------
Comp == {bAny, <<120>>, <<121>>, <<122>>}
Archs == {Triple(a, o, c) : a \in Comp, o \in Comp, c \in Comp} \cup {Triple(bAll, bAll, bAll)}
Targets == {t \in Archs : ~IsWild(t)}
IsVecs == {[k |-> "is", x |-> x, y |-> y, xn |-> ArchName(x), yn |-> ArchName(y)] : x \in Archs, y \in Archs}
SetOf(not, l) == [not |-> not, list |-> l]
Few8 == {Triple(bAll, bAll, bAll), Triple(bAny, bAny, bAny), Triple(<<120>>, <<120>>, <<120>>), Triple(<<120>>, <<121>>, <<122>>),
         Triple(bAny, <<121>>, bAny), Triple(<<120>>, bAny, <<122>>), Triple(bAny, bAny, <<122>>), Triple(<<121>>, <<121>>, <<121>>)}
Entries == IF SetEntries = "all" THEN Archs ELSE Few8
Lists == {<<>>} \cup {<<e>> : e \in Archs} \cup {<<e, f>> : e \in Entries, f \in Entries}
SetVecs == {[k |-> "setmatch", set |-> SetOf(n, l), a |-> t] : n \in BOOLEAN, l \in Lists, t \in Targets}

\* selection: alternatives of four kinds, named by position so that the choice is visible
X == Triple(<<120>>, <<120>>, <<120>>)   Y == Triple(<<121>>, <<121>>, <<121>>)
AltKinds == {"E", "P", "N", "S"}
AltOf(kind, r, k) ==
    LET nm == <<114, 48 + r, 97, 48 + k>> IN                       \* "r<r>a<k>"
    [name |-> nm, qual |-> [some |-> FALSE, t |-> NoTriple], ver |-> NoVer,
     archs |-> CASE kind = "E" -> [not |-> FALSE, list |-> <<>>]
                 [] kind = "P" -> [not |-> FALSE, list |-> <<X>>]
                 [] kind = "N" -> [not |-> TRUE, list |-> <<X>>]
                 [] kind = "S" -> [not |-> FALSE, list |-> <<>>],
     stages |-> <<>>, substvar |-> kind = "S"]
RelKinds == UNION {[1..n -> AltKinds] : n \in 1..MaxAlts}
DepKinds == {<<r>> : r \in RelKinds} \cup {<<r, q>> : r \in RelKinds, q \in RelKinds}
DepOf(dk) == [r \in 1..Len(dk) |-> [k \in 1..Len(dk[r]) |-> AltOf(dk[r][k], r, k)]]
\* canonical text of such a dependency, so that the driver can also go through Parse
AltText(p) == IF p.substvar THEN <<DOLLAR, LBRACE>> \o p.name \o <<RBRACE>>
              ELSE p.name \o (IF p.archs.list = <<>> THEN <<>>
                              ELSE <<SP, LBRACK>> \o (IF p.archs.not THEN <<BANG>> ELSE <<>>) \o <<120, HYPHEN, 120, HYPHEN, 120>> \o <<RBRACK>>)
DepText(d) == Join([r \in 1..Len(d) |-> Join([k \in 1..Len(d[r]) |-> AltText(d[r][k])], <<SP, PIPE, SP>>)], <<COMMA, SP>>)
SelVecs == {[k |-> "select", dep |-> DepOf(dk), a |-> t, text |-> DepText(DepOf(dk))] : dk \in DepKinds, t \in {X, Y}}

\* version constraints
Ops == {<<LT, LT>>, <<LT, EQ>>, <<EQ>>, <<GT, EQ>>, <<GT, GT>>, <<LT>>, <<GT>>, <<EQ, EQ>>, <<>>}
\* digit runs at and beyond the machine integer widths: 1.<2^64-1>-1, 1.<2^64>-1, 1.<2^64+1>-1, 1.<10^20-1>-1, 1.<2^63>-1
Dg(d) == [i \in 1..Len(d) |-> 48 + d[i]]
BigRuns == {<<49, 46>> \o Dg(r) \o <<45, 49>> : r \in {<<1,8,4,4,6,7,4,4,0,7,3,7,0,9,5,5,1,6,1,5>>, <<1,8,4,4,6,7,4,4,0,7,3,7,0,9,5,5,1,6,1,6>>,
                                                       <<1,8,4,4,6,7,4,4,0,7,3,7,0,9,5,5,1,6,1,7>>, <<9,9,9,9,9,9,9,9,9,9,9,9,9,9,9,9,9,9,9,9>>,
                                                       <<9,2,2,3,3,7,2,0,3,6,8,5,4,7,7,5,8,0,8>>}}
VerTexts == {<<49, 46, 48>>, <<49, 46, 48, 48>>, <<49, 46, 48, 45, 48>>, <<49, 46, 48, 126, 114, 99, 49>>, <<49, 46, 48, 43, 98, 49>>,
             <<50, 58, 48, 46, 49>>, <<48>>, <<49, 46, 48, 45, 49>>, <<57>>, <<49, 48>>} \cup BigRuns
            \* punctuation against letters and against other punctuation: 1.0.1  1a  1.a  1+  1.  1.0a  1.0+
            \cup {<<49, 46, 48, 46, 49>>, <<49, 97>>, <<49, 46, 97>>, <<49, 43>>, <<49, 46>>, <<49, 46, 48, 97>>, <<49, 46, 48, 43>>}
            \* digit runs of EQUAL length whose first differing digit and a later one point in opposite directions: 1.19 1.21 1.91 1.12
            \cup {<<49, 46, 49, 57>>, <<49, 46, 50, 49>>, <<49, 46, 57, 49>>, <<49, 46, 49, 50>>}
BadN == {<<>>, <<97, 98, 99>>, <<49, 32, 48>>, <<45, 49, 58, 48>>, <<49, 46, 48, 95, 120>>,
         \* epochs that only another number base would read: 0x10:1.0  0b1:1.0  0o7:1.0  1_0:1.0
         <<48, 120, 49, 48, 58, 49, 46, 48>>, <<48, 98, 49, 58, 49, 46, 48>>, <<48, 111, 55, 58, 49, 46, 48>>, <<49, 95, 48, 58, 49, 46, 48>>}
\* constraint numbers whose epoch is written with leading zeros (decimal: 010 is ten, 08 is eight), against epochs 8, 9, 10
EpochN == {<<48, 49, 48, 58, 49, 46, 48>>, <<48, 56, 58, 49, 46, 48>>, <<48, 48, 57, 58, 49, 46, 48>>}
EpochV == {<<56, 58, 49, 46, 48>>, <<57, 58, 49, 46, 48>>, <<49, 48, 58, 49, 46, 48>>}
SatVecs == {[k |-> "sat", op |-> op, n |-> n, v |-> Classify(v).v] : op \in Ops, n \in VerTexts \cup BadN, v \in VerTexts}
           \cup {[k |-> "sat", op |-> op, n |-> n, v |-> Classify(v).v] : op \in Ops, n \in EpochN \cup EpochV, v \in EpochV}

ASSUME Emit(CASE Mode = "dep" -> SetToSeq(DepVecs)
              [] Mode = "arch" -> SetToSeq(ArchVecs)
              [] Mode = "c06" -> SetToSeq(IsVecs \cup SelVecs \cup SatVecs) \o SetToSeq(SetVecs))
=============================================================================
