------------------------------ MODULE C18Trace ------------------------------
(***************************************************************************)
(* V mode for C18.                                                         *)
(* Stateless lines  ev = "call": one parser call made twice in sequence    *)
(*                  under a watchdog (totality, value-xor-error,           *)
(*                  determinism);  ev = "base": baseline outcome of a      *)
(*                  (call, input) pair, used by the concurrent part.       *)
(* Stateful part    ev = "begin" / "end": events of concurrent goroutines, *)
(*                  ordered by a global atomic ticket; they are stepped    *)
(*                  through the ParserCalls machine: Begin / End must be   *)
(*                  enabled, i.e. well nested per goroutine and ending     *)
(*                  with the baseline outcome.                             *)
(***************************************************************************)
EXTENDS TraceLib, FiniteSets
VARIABLES l, verdict, pending, overlaps
vars == <<l, verdict, pending, overlaps>>

IsConc(e) == e.ev \in {"begin", "end"}
FirstConc == IF \E i \in 1..Len(Trace) : IsConc(Trace[i]) THEN CHOOSE i \in 1..Len(Trace) : IsConc(Trace[i]) /\ \A j \in 1..(i - 1) : ~IsConc(Trace[j])
             ELSE Len(Trace) + 1
BaseLines == {i \in 1..Len(Trace) : Trace[i].ev = "base"}
Baseline(c, i) == LET hits == {k \in BaseLines : Trace[k].call = c /\ Trace[k].input = i} IN
                  IF hits = {} THEN "no-baseline" ELSE Trace[CHOOSE k \in hits : TRUE].outcome
Gs == {Trace[i].g : i \in {j \in 1..Len(Trace) : IsConc(Trace[j])}}

JudgeCall(rec) ==
    Checks(IF rec.len > 256 THEN "large-" \o rec.kind ELSE rec.kind,
       << <<rec.kind # "panic", "parser panicked">>,
          <<rec.kind # "timeout", "parser did not return">>,
          <<rec.kind \in {"value", "error"}, "neither a value nor an error">>,
          <<rec.kind = "error" => rec.nil_on_error, "a result was returned together with an error">>,
          <<rec.kind2 = rec.kind /\ rec.digest2 = rec.digest, "repeated call gave a different outcome">> >>)

\* one initial state per stateless line, plus one (l = FirstConc) that walks the concurrent events
Init == /\ l \in {i \in 1..Len(Trace) : ~IsConc(Trace[i])} \cup (IF FirstConc <= Len(Trace) THEN {FirstConc} ELSE {})
        /\ verdict = Pending /\ pending = [g \in Gs |-> <<>>] /\ overlaps = 0

Stateless == /\ verdict.class = "pending" /\ l <= Len(Trace) /\ ~IsConc(Trace[l])
             /\ verdict' = (IF Trace[l].ev = "call" THEN JudgeCall(Trace[l])
                             ELSE IF Trace[l].ev = "crash" THEN CrashVerdict(Trace[l]) ELSE V(TRUE, "aux", ""))
             /\ UNCHANGED <<l, pending, overlaps>>
\* ParserCalls!Begin / End on the logged event; a disabled action is a rejected trace
StepConc ==
    /\ verdict.class = "pending" /\ l <= Len(Trace) /\ IsConc(Trace[l])
    /\ LET e == Trace[l] IN
       IF e.ev = "begin"
       THEN IF pending[e.g] = <<>>
            THEN /\ pending' = [pending EXCEPT ![e.g] = <<e.call, e.input>>]
                 /\ overlaps' = overlaps + (IF \E h \in Gs : h # e.g /\ pending[h] # <<>> THEN 1 ELSE 0)
                 /\ l' = l + 1 /\ UNCHANGED verdict
            ELSE verdict' = V(FALSE, "concurrent", "a goroutine began a call while another of its calls was pending (harness)") /\ UNCHANGED <<l, pending, overlaps>>
       ELSE IF pending[e.g] = <<>> THEN verdict' = V(FALSE, "concurrent", "end without begin (harness)") /\ UNCHANGED <<l, pending, overlaps>>
            ELSE IF e.outcome # Baseline(pending[e.g][1], pending[e.g][2])
                 THEN verdict' = V(FALSE, "concurrent", "a call made concurrently with others gave a different outcome than alone") /\ UNCHANGED <<l, pending, overlaps>>
                 ELSE pending' = [pending EXCEPT ![e.g] = <<>>] /\ l' = l + 1 /\ UNCHANGED <<verdict, overlaps>>
Finish == /\ verdict.class = "pending" /\ l = Len(Trace) + 1
          /\ verdict' = (IF overlaps > 0 THEN V(TRUE, "concurrent", "") ELSE V(FALSE, "concurrent", "no two calls overlapped (vacuous run)"))
          /\ UNCHANGED <<l, pending, overlaps>>
Next == Stateless \/ StepConc \/ Finish
Spec == Init /\ [][Next]_vars
=============================================================================
