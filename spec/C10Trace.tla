------------------------------ MODULE C10Trace ------------------------------
(* V mode for C10: judge the typed parsers on rendered documents.             *)
EXTENDS DebDocs, TraceLib, LongTrace
VARIABLES l, verdict
vars == <<l, verdict>>

\* the harness's flattening code knows exactly the keys of the specification's table
JudgeKeys(rec) ==
    LET t == FieldTable(rec.in.kind) IN
    Checks("keys", << <<{rec.keys[i] : i \in 1..Len(rec.keys)} = {t[i][2] : i \in 1..Len(t)}, "harness flattening and field table disagree on the keys">> >>)

Present(rec) == {rec.in.present[i] : i \in 1..Len(rec.in.present)}
BadFields(rec) ==
    LET t == FieldTable(rec.in.kind)
        m == [present |-> Present(rec), n |-> rec.in.n, folded |-> rec.in.folded]
    IN {i \in 1..Len(t) : ~FieldAgrees(t[i][3], rec.flat[t[i][2]], i \in m.present /\ Writes(t[i], m), ModelValue(t[i], m.n))}

\* accessors derived from the fields
Val(rec, key) == LET t == FieldTable(rec.in.kind)
                     i == CHOOSE i \in 1..Len(t) : t[i][2] = key
                 IN IF i \in Present(rec) THEN ModelValue(t[i], rec.in.n) ELSE <<>>
AccOK(rec) ==
    LET k == rec.in.kind  a == rec.acc IN
    CASE k = "dsc" ->
           /\ a.Maintainers = <<Val(rec, "Maintainer")>> \o Val(rec, "Uploaders")
           /\ a.HasArchAll = (\E i \in 1..Len(Val(rec, "Architectures")) : Val(rec, "Architectures")[i] = <<97, 108, 108>>)
           /\ a.AbsFiles = [i \in 1..Len(Val(rec, "Files")) |-> <<47, 115, 114, 118, 47, 112, 111, 111, 108, 47>> \o Val(rec, "Files")[i][3]]
           /\ a.AbsFilesViaFile = a.AbsFiles                  \* the *File parser, given a relative path: absolute all the same
           /\ LET fs == Val(rec, "Files")
                  hits == {i \in 1..Len(fs) : ContainsSeq(fs[i][3], <<46, 100, 101, 98, 105, 97, 110, 46>>)}
              IN IF hits = {} THEN ~a.DebianSource.ok
                 ELSE a.DebianSource.ok /\ a.DebianSource.v = fs[CHOOSE i \in hits : \A j \in hits : i <= j][3]
      [] k = "changes" ->
           /\ a.AbsFiles = [i \in 1..Len(Val(rec, "Files")) |-> <<47, 115, 114, 118, 47, 112, 111, 111, 108, 47>> \o Val(rec, "Files")[i][5]]
           /\ a.AbsFilesViaFile = a.AbsFiles
      [] k = "srcpara" -> a.Maintainers = <<Val(rec, "Maintainer")>> \o Val(rec, "Uploaders")
      [] k = "best" ->
           \* the preferred list: SHA-256 when the document has one, else SHA-512, else nothing
           a.Checksums = (IF Val(rec, "ChecksumsSha256") # <<>> THEN ExpectedField("sums:sha256", Val(rec, "ChecksumsSha256"))
                          ELSE IF Val(rec, "ChecksumsSha512") # <<>> THEN ExpectedField("sums:sha512", Val(rec, "ChecksumsSha512")) ELSE <<>>)
      [] k = "packages" -> a.SourcePackage = (IF Val(rec, "Source") = <<>> THEN Val(rec, "Package") ELSE Split(Val(rec, "Source"), SP)[1])
      [] OTHER -> TRUE

JudgeDoc(rec) ==
    LET t == FieldTable(rec.in.kind)
        bad == BadFields(rec)
        first == IF bad = {} THEN 0 ELSE CHOOSE i \in bad : \A j \in bad : i <= j
    IN IF ~rec.parsed THEN V(FALSE, rec.in.kind, "document in the real Debian layout was rejected")
       ELSE IF rec.in.bytes # RenderDoc(rec.in.kind, [present |-> Present(rec), n |-> rec.in.n, folded |-> rec.in.folded])
            THEN V(FALSE, rec.in.kind, "vector bytes are not the rendering of the model")
       ELSE IF bad # {} THEN V(FALSE, rec.in.kind, "field " \o t[first][2] \o " of the typed view differs from the document")
       ELSE IF ~AccOK(rec) THEN V(FALSE, rec.in.kind, "an accessor derived from the fields disagrees with the document")
       ELSE IF rec.flat2 # rec.flat \/ rec.acc2 # rec.acc
            THEN V(FALSE, rec.in.kind, "calling the accessors changed the fields, or a second call answers differently")
       ELSE V(TRUE, rec.in.kind, "")

Judge(rec) ==
    CASE rec.ev = "keys" -> JudgeKeys(rec)
      [] rec.ev = "doc" -> JudgeDoc(rec)
      [] OTHER -> V(FALSE, "unknown-event", "unknown event")

Init == l \in 1..Len(Trace) /\ verdict = Pending
Next == verdict.class = "pending" /\ verdict' = JudgeOrCrash(Trace[l], LAMBDA r : IF IsLong(r) THEN JudgeLong(r) ELSE Judge(r)) /\ UNCHANGED l
Spec == Init /\ [][Next]_vars
=============================================================================
