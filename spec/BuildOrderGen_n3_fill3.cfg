INIT GenInit
NEXT GenNext
CONSTANTS
  N = 3
  Labels = {"none", "dep", "excluded"}
  Fill = 3
