INIT GenInit
NEXT GenNext
CONSTANTS
  MaxEntries = 2
