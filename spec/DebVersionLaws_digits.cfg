SPECIFICATION Spec
INVARIANT Holds
CONSTANTS
  Alphabet = {48, 49, 57}
  MaxLen = 4
  Mode = "digits"
CHECK_DEADLOCK FALSE
