SPECIFICATION Spec
CONSTANTS N = 20  Look = 15  Discipline = "as-written"
INVARIANT ErrorReported
PROPERTY Terminates
CHECK_DEADLOCK FALSE
