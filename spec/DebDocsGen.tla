------------------------------ MODULE DebDocsGen ------------------------------
(* G mode for C10: one-factor-at-a-time document models per kind: every field  *)
(* absent once, every list length 1..3, folded and single-line lists.          *)
EXTENDS DebDocs, GenLib, FiniteSets
All(kind) == 1..Len(FieldTable(kind))
Models(kind) ==
    {[present |-> All(kind), n |-> n, folded |-> f] : n \in 1..3, f \in BOOLEAN}
    \cup {[present |-> All(kind) \ {i}, n |-> 2, folded |-> FALSE] : i \in All(kind)}
    \cup {[present |-> {i \in All(kind) : i <= 3 \/ i % 2 = p}, n |-> 1, folded |-> TRUE] : p \in {0, 1}}
Vec(kind, m) == [k |-> "doc", kind |-> kind, present |-> SetToSeq(m.present), n |-> m.n, folded |-> m.folded, bytes |-> RenderDoc(kind, m)]
Keys == {[k |-> "keys", kind |-> kd] : kd \in DocKinds}
\* multi-stanza documents (Packages, Sources, the binary stanzas of debian/control): the stanza under test comes SECOND,
\* after a stanza that carries every field - what a stanza omits must be absent from its typed view, whatever came before
Full(kind) == [present |-> All(kind), n |-> 3, folded |-> FALSE]
Vec2(kind, m) == [k |-> "doc", kind |-> kind, present |-> SetToSeq(m.present), n |-> m.n, folded |-> m.folded, bytes |-> RenderDoc(kind, m),
                  prefix |-> RenderDoc(kind, Full(kind))]
ASSUME Emit(SetToSeq(Keys) \o SetToSeq(UNION {{Vec(kd, m) : m \in Models(kd)} : kd \in DocKinds})
            \o SetToSeq(UNION {{Vec2(kd, m) : m \in Models(kd)} : kd \in {"packages", "sources", "binpara"}}))
=============================================================================
