------------------------------ MODULE DebDocsGen ------------------------------
(* G mode for C10: one-factor-at-a-time document models per kind: every field  *)
(* absent once, every list length 1..3, folded and single-line lists.          *)
EXTENDS DebDocs, GenLib, FiniteSets
All(kind) == 1..Len(FieldTable(kind))
Models(kind) ==
    {[present |-> All(kind), n |-> n, folded |-> f] : n \in 1..3, f \in BOOLEAN}
    \cup {[present |-> All(kind) \ {i}, n |-> 2, folded |-> FALSE] : i \in All(kind)}
    \cup {[present |-> {i \in All(kind) : i <= 3 \/ i % 2 = p}, n |-> 1, folded |-> TRUE] : p \in {0, 1}}
Vec(kind, m) == [k |-> "doc", kind |-> kind, present |-> SetToSeq(m.present), n |-> m.n, folded |-> m.folded, bytes |-> RenderDoc(kind, m)]
Keys == {[k |-> "keys", kind |-> kd] : kd \in DocKinds}
ASSUME Emit(SetToSeq(Keys) \o SetToSeq(UNION {{Vec(kd, m) : m \in Models(kd)} : kd \in DocKinds}))
=============================================================================
