----------------------------- MODULE DebLoadMC -----------------------------
(***************************************************************************)
(* Impl layer for C14/C16: deb.Load (loadDeb, loadDeb2, loadDeb2Control,   *)
(* loadDeb2Data) and Deb.CheckDebsig (deb/sigcheck.go) as a state machine  *)
(* over abstract package shapes.  Go's map iteration order is modelled as  *)
(* nondeterminism (\E over the candidates), one action per phase:          *)
(*   Collect -> CheckBinary -> CheckUnique -> SelectControl -> ScanTar ->  *)
(*   SelectData -> Loaded ; then SigLookup -> SigSelect -> SigVerify       *)
(* Checked over all small shapes (members drawn from a kind alphabet):     *)
(*   Deterministic : the load outcome is a function of the shape           *)
(*   Faithful      : a loaded package exposes its unique control/data      *)
(*   SigCovers     : verification succeeds only over the members loaded,   *)
(*                   with a keyring key, nothing tampered                  *)
(*   RejectRules   : missing member or major version # 2 => error          *)
(***************************************************************************)
EXTENDS DebPkg, TLC
CONSTANTS MaxMembers
VARIABLES ms, tam, ring, ask, phase, arc, ctl, dat, err, sigm, vctl, vdat, sigok
vars == <<ms, tam, ring, ask, phase, arc, ctl, dat, err, sigm, vctl, vdat, sigok>>

\* member kinds: (role, name id, payload id); names matter only up to equality
K(role, name, x) == [role |-> role, name |-> name, x |-> x]
Kinds == { K("binary", "debian-binary", "2.0"), K("binary", "debian-binary", "3.0"),
           K("control", "control.tar.gz", "good"), K("control", "control.tar", "decoy"), K("control", "control.tar.gz", "nocontrolfile"),
           K("data", "data.tar.gz", "good"), K("data", "data.tar", "decoy"),
           K("sig", "_gpgorigin", "k1:123"), K("sig", "_gpgmaint", "k2:123") }
Shapes == UNION {[1..n -> Kinds] : n \in 0..MaxMembers}

Init == /\ ms \in Shapes
        /\ tam \in {{}} \cup {{i} : i \in 1..Len(ms)}
        /\ ring \in {{"k1"}, {}}
        /\ ask \in {"_gpgorigin", "_gpgmaint"}
        /\ phase = "collect" /\ arc = <<>> /\ ctl = 0 /\ dat = 0 /\ err = FALSE
        /\ sigm = 0 /\ vctl = 0 /\ vdat = 0 /\ sigok = FALSE

\* contents[member.Name] = member : the last member of each name wins
Collect == /\ phase = "collect"
           /\ arc' = {i \in 1..Len(ms) : \A j \in (i + 1)..Len(ms) : ms[j].name # ms[i].name}
           /\ phase' = "binary" /\ UNCHANGED <<ms, tam, ring, ask, ctl, dat, err, sigm, vctl, vdat, sigok>>

Cands(r) == {i \in arc : ms[i].role = r}      \* (prefix "control." / "data." <=> role, by construction of names)
Fail == phase' = "done" /\ err' = TRUE

CheckBinary == /\ phase = "binary"
               /\ IF \E i \in arc : ms[i].role = "binary" /\ ms[i].x = "2.0"   \* the one entry named debian-binary says 2.0
                  THEN phase' = "unique" /\ UNCHANGED err ELSE Fail
               /\ UNCHANGED <<ms, tam, ring, ask, arc, ctl, dat, sigm, vctl, vdat, sigok>>
\* (after fix) more than one control.* or data.* member is an error
CheckUnique == /\ phase = "unique"
               /\ IF Cardinality(Cands("control")) > 1 \/ Cardinality(Cands("data")) > 1
                  THEN Fail ELSE phase' = "control" /\ UNCHANGED err
               /\ UNCHANGED <<ms, tam, ring, ask, arc, ctl, dat, sigm, vctl, vdat, sigok>>
SelectControl == /\ phase = "control"
                 /\ IF Cands("control") = {} THEN Fail /\ UNCHANGED ctl
                    ELSE \E i \in Cands("control") : ctl' = i /\ phase' = "scan" /\ UNCHANGED err
                 /\ UNCHANGED <<ms, tam, ring, ask, arc, dat, sigm, vctl, vdat, sigok>>
ScanTar == /\ phase = "scan"
           /\ IF ms[ctl].x = "nocontrolfile" THEN Fail ELSE phase' = "data" /\ UNCHANGED err
           /\ UNCHANGED <<ms, tam, ring, ask, arc, ctl, dat, sigm, vctl, vdat, sigok>>
SelectData == /\ phase = "data"
              /\ IF Cands("data") = {} THEN Fail /\ UNCHANGED dat
                 ELSE \E i \in Cands("data") : dat' = i /\ phase' = "loaded" /\ UNCHANGED err
              /\ UNCHANGED <<ms, tam, ring, ask, arc, ctl, sigm, vctl, vdat, sigok>>

\* CheckDebsig on the loaded package
SigLookup == /\ phase = "loaded"
             /\ IF \E i \in arc : ms[i].name = ask
                THEN sigm' = (CHOOSE i \in arc : ms[i].name = ask) /\ phase' = "sigselect"
                ELSE sigm' = 0 /\ phase' = "done"
             /\ UNCHANGED <<ms, tam, ring, ask, arc, ctl, dat, err, vctl, vdat, sigok>>
SigSelect == /\ phase = "sigselect"
             /\ \E c \in Cands("control"), d \in Cands("data") : vctl' = c /\ vdat' = d     \* its own map iteration
             /\ phase' = "sigverify"
             /\ UNCHANGED <<ms, tam, ring, ask, arc, ctl, dat, err, sigm, sigok>>
\* ideal signature "k:123" = made by k over the original members 1, 2, 3 of this shape
SigKey(x) == IF x = "k1:123" THEN "k1" ELSE "k2"
SigVerify == /\ phase = "sigverify"
             /\ LET b == CHOOSE i \in arc : ms[i].role = "binary" /\ ms[i].x = "2.0" IN
                sigok' = /\ ms[sigm].role = "sig" /\ SigKey(ms[sigm].x) \in ring
                         /\ <<b, vctl, vdat>> = <<1, 2, 3>>
                         /\ tam \cap {1, 2, 3} = {}
             /\ phase' = "done"
             /\ UNCHANGED <<ms, tam, ring, ask, arc, ctl, dat, err, sigm, vctl, vdat>>

Next == Collect \/ CheckBinary \/ CheckUnique \/ SelectControl \/ ScanTar \/ SelectData
        \/ SigLookup \/ SigSelect \/ SigVerify
Spec == Init /\ [][Next]_vars /\ WF_vars(Next)

Roles(r) == {i \in 1..Len(ms) : ms[i].role = r}
Loaded == phase \in {"loaded", "sigselect", "sigverify"} \/ (phase = "done" /\ ~err)
\* the outcome is a function of the shape: whenever something is loaded, it is the only candidate there is
Deterministic == Loaded => (Cands("control") = {ctl} /\ Cands("data") = {dat})
RejectRules == (phase = "done" /\ ~err) =>
                  /\ Roles("binary") # {} /\ Roles("control") # {} /\ Roles("data") # {}
                  /\ \E i \in Roles("binary") : ms[i].x = "2.0"
SigCovers == sigok => /\ ~err /\ vctl = ctl /\ vdat = dat
                      /\ SigKey(ms[sigm].x) \in ring /\ tam \cap {1, ctl, dat} = {}
Terminates == <>(phase = "done")
=============================================================================
