-------------------------------- MODULE ArMC --------------------------------
(***************************************************************************)
(* Impl layer for C13/C15: the ar iterator of deb/ar.go (LoadAr, Ar.Next,  *)
(* parseArEntry) as a state machine over a byte string; one action = one   *)
(* Next() call.  Files explored: every archive rendered from <= MaxMembers *)
(* member models (BSD and GNU style), and each of them with one header     *)
(* column of one member overwritten by hostile text (negative, -60, -61,   *)
(* huge, blank, junk, signed), or truncated at any offset.                 *)
(*   Exact   : an untouched archive yields exactly its members, then eof   *)
(*   Safe    : offsets grow by >= 60 per member, members have magic and a  *)
(*             non-negative size whose bytes are all present               *)
(*   Bounded : at most Len/60 + 1 calls                                    *)
(***************************************************************************)
EXTENDS Ar, TLC
CONSTANTS MaxMembers, Sizes, WithFaults
VARIABLES file, model, clean, off, hist, st, calls
vars == <<file, model, clean, off, hist, st, calls>>

Names == {<<97>>, <<100, 101, 98, 105, 97, 110, 45, 98, 105, 110, 97, 114, 121>>, <<97, SP, 98>>}   \* a, debian-binary, "a b"
Data(n) == [k \in 1..n |-> 64 + k]
Kinds == {[name |-> nm, mtime |-> <<49, 50>>, uid |-> <<48>>, gid |-> <<55>>, mode |-> <<49, 48, 48, 54, 52, 52>>,
           data |-> Data(n), blank |-> b] : nm \in Names, n \in Sizes, b \in BOOLEAN}
Models == UNION {[1..k -> Kinds] : k \in 0..MaxMembers}

Hostile == {<<45, 49>>, <<45, 54, 48>>, <<45, 54, 49>>, <<57, 57, 57, 57, 57, 57, 57, 57, 57, 57>>, <<>>,
            <<49, 50, 120>>, <<43, 53>>, <<51>>}       \* -1 -60 -61 9999999999 blank 12x +5 3
Cols == {ColMtime, ColUid, ColGid, ColSize, ColMagic, ColName}

Init ==
    /\ \E ms \in Models, gnu \in BOOLEAN :
         /\ model = ms
         /\ LET good == RenderAr(ms, gnu) IN
            \/ file = good /\ clean = TRUE
            \/ /\ WithFaults /\ clean = FALSE
               /\ \/ \E k \in 1..Len(ms), c \in Cols, h \in Hostile :
                        file = SetField(good, HeaderOffset(ms, k), c, h)
                  \/ \E n \in 0..(Len(good) - 1) : file = Upto(good, n)
    /\ off = -1 /\ hist = <<>> /\ st = "new" /\ calls = 0

\* strconv.Atoi on the trimmed column: [ok, neg, d]
Atoi(col) ==
    LET t == TrimSpace(col)
        body == IF t # <<>> /\ t[1] \in {PLUS, HYPHEN} THEN From(t, 2) ELSE t
    IN IF t = <<>> THEN [ok |-> TRUE, neg |-> FALSE, d |-> <<>>]          \* blank column: field stays 0
       ELSE IF body = <<>> \/ ~AllOf(body, IsDigit) \/ Len(StripZeros(body)) > 18
            THEN [ok |-> FALSE, neg |-> FALSE, d |-> <<>>]
       ELSE [ok |-> TRUE, neg |-> t[1] = HYPHEN /\ StripZeros(body) # <<>>, d |-> StripZeros(body)]

Col(o, c) == Slice(file, o + c[1], o + c[2])

\* LoadAr / checkAr: the first 8 bytes must be the global magic
Open == /\ st = "new"
        /\ IF Len(file) >= 8 /\ Upto(file, 8) = GlobalMagic THEN st' = "open" /\ off' = 8
                                                         ELSE st' = "err" /\ UNCHANGED off
        /\ UNCHANGED <<file, model, clean, hist, calls>>

NextCall ==
    /\ st = "open"
    /\ calls' = calls + 1
    /\ IF Len(file) - off < 60 THEN st' = "eof" /\ UNCHANGED <<off, hist>>     \* short or empty read: io.EOF
       ELSE LET size == Atoi(Col(off, ColSize))
                nums == {Atoi(Col(off, c)) : c \in {ColMtime, ColUid, ColGid, ColSize}}
                magicOK == file[off + 59] = BACKTICK /\ file[off + 60] = LF          \* (after fix: both bytes)
            IN IF ~magicOK \/ \E n \in nums : ~n.ok THEN st' = "err" /\ UNCHANGED <<off, hist>>
               ELSE IF size.neg THEN st' = "err" /\ UNCHANGED <<off, hist>>             \* (after fix)
               ELSE IF Len(size.d) > 9 \/ off + 60 + DigitsVal(size.d) > Len(file)
                    THEN st' = "err" /\ UNCHANGED <<off, hist>>                         \* (after fix) data not all there
               ELSE LET n == DigitsVal(size.d) IN
                    /\ hist' = Append(hist, [hdr_off |-> off, size |-> n,
                                             name |-> LET t == TrimSpace(Col(off, ColName)) IN
                                                      IF t # <<>> /\ t[Len(t)] = SLASH THEN Upto(t, Len(t) - 1) ELSE t])
                    /\ off' = off + 60 + n + (n % 2)
                    /\ UNCHANGED st
    /\ UNCHANGED <<file, model, clean>>

Next == Open \/ NextCall
Spec == Init /\ [][Next]_vars /\ WF_vars(Next)

Done == st \in {"eof", "err"}
Exact == (clean /\ Done) =>
            /\ st = "eof" /\ Len(hist) = Len(model)
            /\ \A k \in 1..Len(model) :
                  /\ hist[k].hdr_off = HeaderOffset(model, k)
                  /\ hist[k].size = Len(model[k].data) /\ hist[k].name = model[k].name
Safe == /\ \A k \in 1..Len(hist) :
             /\ hist[k].hdr_off >= 8 /\ hist[k].size >= 0
             /\ hist[k].hdr_off + 60 + hist[k].size <= Len(file)
             /\ file[hist[k].hdr_off + 59] = BACKTICK /\ file[hist[k].hdr_off + 60] = LF
             /\ k > 1 => hist[k].hdr_off >= hist[k - 1].hdr_off + 60
        /\ Len(hist) * 60 <= Len(file)
Bounded == calls <= Len(file) \div 60 + 1
Terminates == <>Done
=============================================================================
