---------------------------- MODULE ParserCallsMC ----------------------------
(* M mode: all interleavings of 3 goroutines x 2 calls x 2 inputs; every completed *)
(* call carries its baseline outcome, and overlapping calls are reachable.          *)
EXTENDS ParserCalls
MCGoroutines == {"g1", "g2", "g3"}
MCCalls == {"version", "dependency"}
MCInputs == {"i1", "i2"}
MCOutcomes == {"o1", "o2", "o3", "o4"}
MCBaseline(c, i) == CASE c = "version" /\ i = "i1" -> "o1" [] c = "version" /\ i = "i2" -> "o2"
                      [] c = "dependency" /\ i = "i1" -> "o3" [] OTHER -> "o4"
Bound == done <= 4
OverlapReachable == InFlight < 3      \* expected to be VIOLATED: calls do overlap in the model (checked separately)
=============================================================================
