SPECIFICATION Spec
INVARIANTS SignerImpliesVerified AcceptOnlyVerified NothingAfterBlock PlainNoSigner BeforeOnlyWhenNotArmorStart
PROPERTY Terminates
CHECK_DEADLOCK FALSE
