------------------------------ MODULE C01Trace ------------------------------
(* V mode for C01-C03: judge observations of pault.ag/go/debian/version.    *)
EXTENDS DebVersion, TraceLib
VARIABLES l, verdict
vars == <<l, verdict>>

VerOf(j) == [e |-> j.e, u |-> j.u, r |-> j.r]

\* ---- C01 -----------------------------------------------------------------
JudgeRow(rec) ==
    LET D == Trace[rec.domline].dom
        badU == {k \in 1..Len(D) : rec.su[k] # PolicyCmp(rec.in.a, D[k])}
        badR == {k \in 1..Len(D) : rec.sr[k] # PolicyCmp(rec.in.a, D[k])}
    IN Checks("exact", << <<Len(rec.su) = Len(D) /\ Len(rec.sr) = Len(D), "row length">>,
                          <<badU = {}, "upstream sign differs from Policy order">>,
                          <<badR = {}, "revision sign differs from Policy order">> >>)

\* two texts: both well-formed, so both parse, and they compare as the versions they denote
JudgeCmpText(rec) ==
    LET ca == Classify(rec.in.ta)  cb == Classify(rec.in.tb) IN
    IF ca.class # "wellformed" \/ cb.class # "wellformed" THEN V(TRUE, "unspecified", "")
    ELSE LET want == Compare(ca.v, cb.v) IN
         Checks(IF want = 0 THEN "equal" ELSE "strict",
            << <<rec.ok_a /\ rec.ok_b, "well-formed version text rejected">>,
               <<rec.sign = want /\ rec.sign_ba = 0 - want, "two version texts compare differently from the versions they denote">>,
               <<rec.sign_reused = want, "two version texts decoded into variables that held another version compare differently from the versions they denote">> >>)

JudgeCmp(rec) ==
    LET a == VerOf(rec.in.a)  b == VerOf(rec.in.b)  want == Compare(a, b) IN
    Checks(IF want = 0 THEN "equal" ELSE "strict",
           << <<rec.sign = want, "Compare(a,b) sign differs from Policy order">>,
              <<rec.sign_ba = 0 - want, "Compare(b,a) sign differs from Policy order">>,
              <<rec.less = (want < 0) /\ rec.less_ba = (want > 0), "Slice.Less differs from Policy order">>,
              <<rec.parsed.some => rec.parsed.sign = want, "comparison of parsed values differs">> >>)

\* ---- C02 -----------------------------------------------------------------
JudgeTriple(rec) ==
    LET n == Len(rec.in.vs)
        s == rec.signs
        v(i) == VerOf(rec.in.vs[i])
    IN Checks("laws",
       << <<\A i \in 1..n : s[i][i] = 0, "not reflexive">>,
          <<\A i, k \in 1..n : s[i][k] = 0 - s[k][i], "swapping operands does not flip the sign">>,
          <<\A i, k, m \in 1..n : (s[i][k] <= 0 /\ s[k][m] <= 0) => s[i][m] <= 0, "not transitive">>,
          <<\A i, k, m \in 1..n : s[i][k] = 0 => s[i][m] = s[k][m], "equal versions behave differently against a third">>,
          <<\A i, k \in 1..n : s[i][k] = Compare(v(i), v(k)), "sign differs from Policy order">> >>)

\* bag equality of two sequences of versions (as records)
SameBag(xs, ys) == /\ Len(xs) = Len(ys)
                   /\ \A i \in 1..Len(xs) :
                        Cardinality({k \in 1..Len(xs) : xs[k] = xs[i]}) =
                        Cardinality({k \in 1..Len(ys) : ys[k] = xs[i]})
JudgeSort(rec) ==
    Checks("sort",
       << <<rec.terminated, "sort did not terminate">>,
          <<SameBag([i \in 1..Len(rec.in.vs) |-> MkVersion(rec.in.vs[i].e, rec.in.vs[i].u, rec.in.vs[i].r)],
                    [i \in 1..Len(rec.out) |-> MkVersion(rec.out[i].e, rec.out[i].u, rec.out[i].r)]), "output is not a permutation of the input">>,
          <<\A i \in 1..(Len(rec.out) - 1) : Compare(VerOf(rec.out[i]), VerOf(rec.out[i + 1])) <= 0,
            "output is not non-decreasing">> >>)

\* ---- C03 -----------------------------------------------------------------
SameObs(x, y) == x.ok = y.ok /\ (x.ok => SameVersion(VerOf(x.v), VerOf(y.v)))

RenderLaw(rt, v, judgeText) ==
    /\ rt.ok /\ rt.back.ok /\ SameVersion(VerOf(rt.back.v), v)
    /\ judgeText => LET c == Classify(rt.r) IN
                    /\ c.class # "reject"
                    /\ c.class = "wellformed" => SameVersion(c.v, v)

JudgeParse(rec) ==
    LET c == Classify(rec.in.s)
        ok == rec.res.ok
        v == VerOf(rec.res.v)
        class == IF c.class = "unspecified"
                 THEN (IF ok THEN "unspecified-accepted" ELSE "unspecified-rejected")
                 ELSE c.class
    IN Checks(class,
       << <<c.class = "wellformed" => ok, "well-formed version rejected">>,
          <<(c.class = "wellformed" /\ ok) => SameVersion(v, c.v), "parts differ from the grammar's">>,
          <<c.class = "reject" => ~ok, "malformed version accepted">>,
          <<SameObs(rec.res, rec.res_control), "UnmarshalControl disagrees with Parse">>,
          <<SameObs(rec.res, rec.res_text), "UnmarshalText disagrees with Parse">>,
          <<SameObs(rec.res, rec.res_text_after), "a version parsed by UnmarshalText changes when the caller's byte slice is overwritten afterwards">>,
          <<SameObs(rec.res, rec.dirty_control), "UnmarshalControl into a receiver that already held a version keeps parts of the old value">>,
          <<SameObs(rec.res, rec.dirty_text), "UnmarshalText into a receiver that already held a version keeps parts of the old value">>,
          <<ok => RenderLaw(rec.rt.string, v, TRUE), "String() does not parse back to the same value">>,
          <<ok => RenderLaw(rec.rt.control, v, TRUE), "MarshalControl does not parse back to the same value">>,
          <<ok => RenderLaw(rec.rt.text, v, TRUE), "MarshalText does not parse back to the same value">>,
          <<ok => RenderLaw(rec.rt.json, v, FALSE), "JSON encoding does not decode to the same value">> >>)

Judge(rec) ==
    CASE rec.ev = "row" -> JudgeRow(rec)
      [] rec.ev = "cmp" -> JudgeCmp(rec)
      [] rec.ev = "cmp_text" -> JudgeCmpText(rec)
      [] rec.ev = "triple" -> JudgeTriple(rec)
      [] rec.ev = "sort" -> JudgeSort(rec)
      [] rec.ev = "parse" -> JudgeParse(rec)
      [] rec.ev = "dom" -> V(TRUE, "aux", "")
      [] OTHER -> V(FALSE, "unknown-event", "unknown event")

Init == l \in 1..Len(Trace) /\ verdict = Pending
Next == verdict.class = "pending" /\ verdict' = JudgeOrCrash(Trace[l], Judge) /\ UNCHANGED l
Spec == Init /\ [][Next]_vars
=============================================================================
