INIT GenInit
NEXT GenNext
CONSTANTS
  Alphabet = {48, 49, 97, 58, 45, 46, 126, 32, 95}
  MaxLen = 5
  Mode = "parse"
CHECK_DEADLOCK FALSE
