SPECIFICATION Spec
CONSTANTS
  Loaders = {"l1", "l2"}
  Setters = {"s1"}
  Discipline = "none"
INVARIANTS TypeOK NoRace
CHECK_DEADLOCK FALSE
