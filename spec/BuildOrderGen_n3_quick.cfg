INIT GenInit
NEXT GenNext
CONSTANTS
  N = 3
  Labels = {"none", "dep", "unselected"}
  Fill = 1
