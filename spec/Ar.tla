--------------------------------- MODULE Ar ---------------------------------
(***************************************************************************)
(* ar(5) archives as used by .deb files.                                   *)
(*                                                                         *)
(* Ref layer : member model, RenderAr (model -> bytes), the Allowed        *)
(*             relations of C13 (exact) and C15 (safety on arbitrary bytes)*)
(*             over logged iteration steps.                                *)
(* Impl layer: the Ar.Next iterator (deb/ar.go) lives in ArMC.tla.         *)
(*                                                                         *)
(* member = [name, mtime, uid, gid, mode, data, blank]                     *)
(*   name  : bytes, 1..16, no surrounding space (GNU style adds a "/")     *)
(*   mtime, uid, gid : digit strings (numbers never become TLC integers)   *)
(*   mode  : bytes (octal text)      data : bytes                          *)
(*   blank : TRUE = numeric columns other than size are left blank         *)
(***************************************************************************)
EXTENDS Bytes

GlobalMagic == <<33, 60, 97, 114, 99, 104, 62, 10>>      \* "!<arch>\n"
HeaderLen == 60

PadRight(s, n) == s \o [k \in 1..(n - Len(s)) |-> SP]
Spaces(n) == [k \in 1..n |-> SP]

\* header columns (1-based, inclusive)
ColName  == <<1, 16>>   ColMtime == <<17, 28>>  ColUid == <<29, 34>>  ColGid == <<35, 40>>
ColMode  == <<41, 48>>  ColSize  == <<49, 58>>  ColMagic == <<59, 60>>

\* zfill: the size column is written right-justified and zero-filled (the other columns carry their zeros in the model)
ZeroFilled(m) == "zfill" \in DOMAIN m /\ m.zfill
Header(m, gnu) ==
    PadRight(m.name \o (IF gnu THEN <<SLASH>> ELSE <<>>), 16) \o
    (IF m.blank THEN Spaces(12) ELSE PadRight(m.mtime, 12)) \o
    (IF m.blank THEN Spaces(6) ELSE PadRight(m.uid, 6)) \o
    (IF m.blank THEN Spaces(6) ELSE PadRight(m.gid, 6)) \o
    (IF m.blank THEN Spaces(8) ELSE PadRight(m.mode, 8)) \o
    (IF ZeroFilled(m) THEN [k \in 1..(10 - Len(NatToDigits(Len(m.data)))) |-> 48] \o NatToDigits(Len(m.data))
     ELSE PadRight(NatToDigits(Len(m.data)), 10)) \o <<BACKTICK, LF>>

MemberBytes(m, gnu) == Header(m, gnu) \o m.data \o (IF Len(m.data) % 2 = 1 THEN <<LF>> ELSE <<>>)

RenderAr(members, gnu) ==
    GlobalMagic \o Concat([k \in 1..Len(members) |-> MemberBytes(members[k], gnu)])

\* offset (0-based, as Go reports it) of the header of member k
RECURSIVE HeaderOffset(_, _)
HeaderOffset(members, k) ==
    IF k = 1 THEN 8
    ELSE LET n == Len(members[k - 1].data) IN HeaderOffset(members, k - 1) + 60 + n + (n % 2)

\* ---- numbers as logged: [neg |-> BOOLEAN, d |-> digits] -------------------
NumIs(n, digits) == ~n.neg /\ StripZeros(n.d) = StripZeros(digits)
NumIsNat(n, k) == ~n.neg /\ StripZeros(n.d) = StripZeros(NatToDigits(k))
NumNonNeg(n) == ~n.neg \/ StripZeros(n.d) = <<>>
\* value of a small logged number (callers guarantee <= 9 digits)
NumVal(n) == DigitsVal(StripZeros(n.d))
NumSmall(n) == Len(StripZeros(n.d)) <= 9

\* ---- C13: iteration over a well-formed archive ----------------------------
\* steps: sequence of records; a member step has ret = "member" and fields
\*   hdr_off, name, mtime, uid, gid, mode, size, data, again (data re-read after Seek(0))
StepIsMember(s, m, off) ==
    /\ s.ret = "member"
    /\ s.name = m.name
    /\ NumIsNat(s.size, Len(m.data))
    /\ NumIs(s.mtime, IF m.blank THEN <<>> ELSE m.mtime)
    /\ NumIs(s.uid, IF m.blank THEN <<>> ELSE m.uid)
    /\ NumIs(s.gid, IF m.blank THEN <<>> ELSE m.gid)
    /\ s.mode = (IF m.blank THEN <<>> ELSE m.mode)
    /\ s.hdr_off = off
    /\ s.data = m.data /\ s.again = m.data

IterationExact(steps, members) ==
    /\ Len(steps) = Len(members) + 1
    /\ \A k \in 1..Len(members) : StepIsMember(steps[k], members[k], HeaderOffset(members, k))
    /\ steps[Len(steps)].ret = "eof"

\* ---- C15: safety of iteration over arbitrary bytes ------------------------
\* at most one step per 60 input bytes, ends in eof or error, header offsets
\* strictly increase by >= 60, every member came from a header with both magic
\* bytes, has a non-negative size and delivers exactly that many bytes
MemberSteps(steps) == SelectSeq(steps, LAMBDA s : s.ret = "member")

IterationSafe(steps, bytes) ==
    LET ms == MemberSteps(steps) IN
    /\ Len(steps) >= 1
    /\ steps[Len(steps)].ret \in {"eof", "err"}
    /\ \A k \in 1..(Len(steps) - 1) : steps[k].ret = "member"
    /\ Len(ms) * 60 <= Len(bytes)
    /\ \A k \in 1..Len(ms) :
          /\ ms[k].hdr_off >= 8
          /\ k > 1 => ms[k].hdr_off >= ms[k - 1].hdr_off + 60
          /\ ms[k].hdr_off + 60 <= Len(bytes)
          /\ bytes[ms[k].hdr_off + 59] = BACKTICK /\ bytes[ms[k].hdr_off + 60] = LF
          /\ NumNonNeg(ms[k].size)
          /\ NumSmall(ms[k].size) /\ ms[k].delivered = NumVal(ms[k].size)

\* ---- corruption of archive bytes (G mode, C15) ----------------------------
SetField(bytes, hdrOff, col, text) ==       \* hdrOff 0-based; text is padded / cut to the column
    LET w == col[2] - col[1] + 1
        t == IF Len(text) >= w THEN Upto(text, w) ELSE PadRight(text, w)
    IN [i \in 1..Len(bytes) |->
          IF i >= hdrOff + col[1] /\ i <= hdrOff + col[2] THEN t[i - hdrOff - col[1] + 1] ELSE bytes[i]]
=============================================================================
