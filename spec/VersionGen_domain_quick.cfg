INIT GenInit
NEXT GenNext
CONSTANTS
  Alphabet = {48, 49, 57, 97, 126, 46}
  MaxLen = 3
  Mode = "domain"
CHECK_DEADLOCK FALSE
