------------------------------ MODULE UploadGen ------------------------------
(* G mode for C20: upload scenarios (operation x handle kind x listed files x  *)
(* name shapes x one injected failure).                                      *)
EXTENDS GenLib
CONSTANTS MaxN
Ops == {"copy", "move", "remove"}
Kinds == {"dsc", "changes"}
NoFault == [kind |-> "none", at |-> 0, stage |-> ""]
\* a directory in place of the source only makes a copy fail (after the destination was created);
\* rename and unlink are happy with (empty) directories.  Nothing is written to a destination by Remove.
FaultKinds(op) == CASE op = "copy" -> {"missing", "srcdir", "dstdir"} [] op = "move" -> {"missing", "dstdir"} [] op = "remove" -> {"missing"}
Plain(n) == [i \in 1..n |-> "plain"]
Faults(op, n) == {NoFault}
    \cup {[kind |-> f, at |-> i, stage |-> ""] : f \in FaultKinds(op), i \in 1..(n + 1)}
    \cup (IF op = "copy" THEN {[kind |-> "hook", at |-> i, stage |-> "copied"] : i \in 1..(n + 1)} ELSE {})
\* not a fault: the destination already holds a file of that name and length with other bytes (newer mtime)
\* ("stalelong": the old file is longer than the new one - what is left of it after the copy must be nothing)
Stale == UNION {{[k |-> "up", op |-> op, kind |-> kd, shapes |-> Plain(n), fault |-> [kind |-> sk, at |-> i, stage |-> ""]] :
                    i \in 1..(n + 1), sk \in {"stale", "stalelong", "stalesame"}} : op \in {"copy", "move"}, kd \in Kinds, n \in 1..MaxN}
\* not a fault either: the destination directory lies on another filesystem (rename(2) answers EXDEV there)
XDev == UNION {{[k |-> "up", op |-> op, kind |-> kd, shapes |-> Plain(n), fault |-> [kind |-> "xdev", at |-> 0, stage |-> ""]] :
                   op \in {"copy", "move"}, kd \in Kinds} : n \in 0..MaxN}
\* the destination named by the caller is a regular file, not a directory: the operation must refuse and touch nothing
DestFile == UNION {{[k |-> "up", op |-> op, kind |-> kd, shapes |-> Plain(n), fault |-> [kind |-> "destfile", at |-> 0, stage |-> ""]] :
                   op \in {"copy", "move"}, kd \in Kinds} : n \in 0..MaxN}
\* nor this: the control file was parsed through a relative path and the working directory changed afterwards
RelPath == UNION {{[k |-> "up", op |-> op, kind |-> kd, shapes |-> Plain(n), fault |-> [kind |-> "relpath", at |-> 0, stage |-> ""]] :
                   op \in Ops, kd \in Kinds} : n \in 0..MaxN}
AllPlain == UNION {{[k |-> "up", op |-> op, kind |-> kd, shapes |-> Plain(n), fault |-> f] : f \in Faults(op, n)} :
                      op \in Ops, kd \in Kinds, n \in 0..MaxN}
OneOdd == UNION {{[k |-> "up", op |-> op, kind |-> kd, shapes |-> [Plain(n) EXCEPT ![i] = sh], fault |-> NoFault] :
                      i \in 1..n, sh \in {"dotdot", "abs", "sub", "dot", "dotdot1", "slash"}} : op \in Ops, kd \in Kinds, n \in 1..MaxN}
\* control files that carry only some of the three file lists (no Files field): whatever names they list,
\* nothing outside the two directories may be touched
Partial == UNION {{[k |-> "up", op |-> op, kind |-> kd, shapes |-> [Plain(n) EXCEPT ![i] = sh], fault |-> NoFault, lists |-> li] :
                      i \in 1..n, sh \in {"plain", "dotdot", "abs"}, li \in {"sha256only", "sha1only", "nofiles"}} :
                   op \in Ops, kd \in Kinds, n \in 1..2}
\* sequences of operations on ONE handle: every sequence of up to 3 of {copy a, copy b, move a, move b, remove}
\* in which no step targets the directory the handle is already in (and nothing follows a remove)
OpSet == {[op |-> "copy", to |-> "a"], [op |-> "copy", to |-> "b"], [op |-> "move", to |-> "a"], [op |-> "move", to |-> "b"], [op |-> "remove", to |-> ""]}
RECURSIVE Where(_, _)
Where(ops, k) == IF k = 0 THEN "src" ELSE IF ops[k].op = "remove" THEN "gone" ELSE ops[k].to
SeqOK(ops) == \A k \in 1..Len(ops) : Where(ops, k - 1) # "gone" /\ (ops[k].op = "remove" \/ ops[k].to # Where(ops, k - 1))
OpSeqs == {s \in UNION {[1..m -> OpSet] : m \in 2..3} : SeqOK(s)}
Seqs == {[k |-> "upseq", kind |-> kd, n |-> n, ops |-> s] : kd \in Kinds, n \in {1, 2}, s \in OpSeqs}
\* one path, two texts: parsed and copied, rewritten to list another file, parsed again and copied elsewhere
Reparse == {[k |-> "upreparse", kind |-> kd] : kd \in Kinds}
ASSUME Emit(SetToSeq(AllPlain \cup OneOdd \cup Stale \cup XDev \cup RelPath \cup DestFile) \o SetToSeq(Partial) \o SetToSeq(Seqs) \o SetToSeq(Reparse))
=============================================================================
