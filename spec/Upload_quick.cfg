SPECIFICATION Spec
CONSTANTS
  MaxN = 3
INVARIANTS ControlLast ErrorMeansAbsent RemoveLast SuccessPost FailureReported Confined DestFileRefused
PROPERTY Terminates
CHECK_DEADLOCK FALSE
