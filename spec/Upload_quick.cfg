SPECIFICATION Spec
CONSTANTS
  MaxN = 3
INVARIANTS ControlLast ErrorMeansAbsent RemoveLast SuccessPost FailureReported Confined
PROPERTY Terminates
CHECK_DEADLOCK FALSE
