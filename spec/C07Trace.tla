------------------------------ MODULE C07Trace ------------------------------
(* V mode for C07/C08: judge observations of the control-file reader/writer. *)
EXTENDS Deb822, TraceLib, LongTrace
VARIABLES l, verdict
vars == <<l, verdict>>

AllParaInv(ps) == \A k \in 1..Len(ps) : ParaInvariant(ps[k]) /\ ps[k].order # <<>>

\* ---- C07: read ------------------------------------------------------------
JudgeRead(rec) ==
    LET r == RefRead(rec.in.doc)
        nx == rec.next
        class == IF ~r.wf THEN "malformed"
                 ELSE IF r.paras = <<>> THEN "trivial" ELSE "wellformed"
    IN Checks(class,
       << <<nx.end \in {"eof", "err"}, "Next loop does not terminate / returns nil without error">>,
          <<nx.steps <= Len(DocLines(rec.in.doc)) + 2, "more Next calls than lines">>,
          <<r.wf => nx.end = "eof", "well-formed document rejected">>,
          <<r.wf => ParasMatch(nx.paras, r.paras), "paragraphs differ from the document's">>,
          <<AllParaInv(nx.paras), "returned paragraph does not list each of its fields exactly once">>,
          <<rec.all.ok = (nx.end = "eof"), "All() and the Next loop disagree on success">>,
          <<rec.all.ok => rec.all.paras = nx.paras, "All() sees a different sequence than Next">>,
          <<rec.slice.ok = (nx.end = "eof"), "Unmarshal(&slice) and the Next loop disagree on success">>,
          <<rec.slice.ok => rec.slice.paras = nx.paras, "Unmarshal(&slice) sees a different sequence">>,
          \* the elements' typed fields A, B, C hold what THEIR paragraph says, and nothing when it does not list the field
          <<(rec.slice.ok /\ "typed" \in DOMAIN rec.slice) =>
                (Len(rec.slice.typed) = Len(rec.slice.paras) /\ \A k \in 1..Len(rec.slice.paras) : \A j \in 1..3 :
                    rec.slice.typed[k][j] = (IF HasVal(rec.slice.paras[k], <<64 + j>>) THEN ValOf(rec.slice.paras[k], <<64 + j>>) ELSE <<>>)),
            "an element of the slice holds a typed field value that its own paragraph does not have">>,
          <<rec.decode.end = nx.end /\ rec.decode.paras = nx.paras, "repeated Decode sees a different sequence">>,
          <<nx.nil_on_end, "a paragraph was returned together with an error">> >>)

\* in an Encoder stream: no white-space-only line anywhere, no two blank lines in
\* a row, none at the start (blank lines only separate paragraphs)
NoGapInsideParas(bytes) ==
    LET ls == DocLines(bytes) IN
    /\ \A i \in 1..Len(ls) : ~IsWsOnly(ls[i])
    /\ \A i \in 1..Len(ls) : ls[i] = <<>> => (i > 1 /\ i < Len(ls) /\ ls[i - 1] # <<>>)

\* ---- C08: write -----------------------------------------------------------
NonEmpty(ps) == SelectSeq(ps, LAMBDA p : p.order # <<>>)
SameParas(ps, qs) == Len(ps) = Len(qs) /\ \A k \in 1..Len(ps) : SameContent(ps[k], qs[k])

CyclesStable(cyc, from) ==
    \A k \in from..Len(cyc) :
        /\ cyc[k].w_ok /\ cyc[k].r.ok
        /\ k > from => (cyc[k].w = cyc[k - 1].w /\ SameParas(cyc[k].r.paras, cyc[k - 1].r.paras))

\* (a value that begins with an empty line and has more lines comes back without that ONE line - KF-C08-1 - and with nothing else changed)
DropsLeadingEmpty(p, q) ==
    /\ p.order = q.order
    /\ \A k \in 1..Len(p.order) :
          HasVal(p, p.order[k]) /\ HasVal(q, p.order[k]) /\
          LET a == ValueLines(ValOf(p, p.order[k]))
              b == ValueLines(ValOf(q, p.order[k]))
          IN a = b \/ (Len(a) > 1 /\ a[1] = <<>> /\ b = From(a, 2))
OnlyDropsLeadingEmpty(ps, qs) ==
    Len(ps) = Len(qs) /\ \A k \in 1..Len(ps) : DropsLeadingEmpty(ps[k], qs[k])


JudgeWrite(rec) ==
    LET ps == rec.in.paras
        rep == \A k \in 1..Len(ps) : Representable(ps[k])
        lead == \E k \in 1..Len(ps) : LeadingEmpty(ps[k])
        ne == NonEmpty(ps)
        cyc == rec.cycles
        class == IF ~rep THEN "unspecified" ELSE IF lead THEN "leading-empty-line" ELSE "representable"
    IN IF ~rep THEN V(TRUE, class, "")
       ELSE Guarded(class,
       << <<\A k \in 1..Len(ps) : rec.singles[k].w_ok, "WriteTo failed">>,
          <<\A k \in 1..Len(ps) : NoGapInside(rec.singles[k].w), "empty or white-space-only line inside a written paragraph">>,
          <<\A k \in 1..Len(ps) : RefReadsBackAs(rec.singles[k].w, ps[k]), "written bytes do not denote the paragraph (reference reader)">>,
          <<\A k \in 1..Len(ps) : rec.singles[k].r.ok /\ Len(rec.singles[k].r.paras) = (IF ps[k].order = <<>> THEN 0 ELSE 1),
            "written paragraph does not read back as one paragraph">> >>,
       << <<\A k \in 1..Len(ps) : ps[k].order # <<>> =>
                (rec.singles[k].r.paras[1].order = ps[k].order /\
                 (IF LeadingEmpty(ps[k]) THEN DropsLeadingEmpty(ps[k], rec.singles[k].r.paras[1]) ELSE SameContent(rec.singles[k].r.paras[1], ps[k]))),
            "written paragraph reads back with different content">>,
          <<Len(cyc) >= 1 /\ cyc[1].w_ok /\ cyc[1].r.ok /\ Len(cyc[1].r.paras) = Len(ne),
            "paragraphs written through one Encoder read back as a different number of paragraphs">>,
          <<IF lead THEN OnlyDropsLeadingEmpty(ne, cyc[1].r.paras) ELSE SameParas(cyc[1].r.paras, ne), "encoder output reads back with different content">>,
          <<lead \/ (Len(cyc) = 3 /\ CyclesStable(cyc, IF Len(ne) = Len(ps) THEN 1 ELSE 2)), "a write/read cycle changed the document">> >>)

\* ---- C08: read-write-read on reader output ----------------------------------
\* The one way the reader's output is known not to be a fixpoint: a value whose
\* first line is empty and which has further lines ("F:\n .\n x" reads as "\nx\n")
\* is written as "F: \n x" and read back without that empty line, because the
\* reader elides an empty first line (TestLineWrapping pins this).
HashName(ps) == \E k \in 1..Len(ps) : \E j \in 1..Len(ps[k].order) :
                    ps[k].order[j] # <<>> /\ ps[k].order[j][1] = HASH

JudgeRW(rec) ==
    IF ~rec.r0.ok THEN V(TRUE, "unspecified", "")
    ELSE IF rec.r0.paras = <<>> THEN V(TRUE, "trivial", "")
    ELSE LET cyc == rec.cycles
             lead == \E k \in 1..Len(rec.r0.paras) : LeadingEmpty(rec.r0.paras[k])
    IN Checks(IF lead THEN "reader-output-leading-empty" ELSE "reader-output",
       << <<AllParaInv(rec.r0.paras), "reader produced an inconsistent paragraph">>,
          <<Len(cyc) = 3 /\ cyc[1].w_ok /\ cyc[1].r.ok, "output of the reader cannot be written and read again">>,
          <<\A k \in 1..Len(cyc) : NoGapInsideParas(cyc[k].w), "empty or white-space-only line inside a written paragraph">>,
          <<SameParas(cyc[1].r.paras, rec.r0.paras) \/ ~OnlyDropsLeadingEmpty(rec.r0.paras, cyc[1].r.paras),
            "read-write-read drops the empty first line of a value">>,
          <<SameParas(cyc[1].r.paras, rec.r0.paras) \/ ~HashName(rec.r0.paras),
            "reader accepted a field name starting with # (after trimming a stray CR), which is written as a comment">>,
          <<SameParas(cyc[1].r.paras, rec.r0.paras), "read-write-read is not the identity">>,
          <<CyclesStable(cyc, 1), "a write/read cycle changed the document">> >>)

\* a sink that refused one Write: every paragraph whose Encode / WriteTo returned nil is in the sink (the reference reader
\* finds at least that many paragraphs there); a call that met the refused Write reports an error
JudgeFault(rec) ==
    LET nOK == Cardinality({k \in 1..Len(rec.errs) : rec.errs[k] = FALSE})
        r == RefRead(rec.sink)
    IN Checks(IF rec.fired THEN "write-refused" ELSE "no-fault",
       << <<\A k \in 1..Len(rec.errs) : rec.errs[k] \in BOOLEAN, "panic while writing to a failing sink">>,
          <<Len(rec.errs) = Len(rec.in.paras), "missing steps">>,
          <<rec.fired => \E k \in 1..Len(rec.errs) : rec.errs[k] = TRUE, "the sink refused a write but every call reported success">>,
          <<~rec.fired => nOK = Len(rec.in.paras), "writing to a healthy sink failed">>,
          <<r.wf => Len(r.paras) >= nOK, "fewer paragraphs reached the sink than were reported as written">>,
          <<(rec.in.paras # <<>> /\ Representable(rec.in.paras[1])) => (rec.after_ok /\ RefReadsBackAs(rec.after, rec.in.paras[1])),
            "after a refused write, a later write of a paragraph to a healthy sink does not give that paragraph">> >>)

\* structs through the Encoder: paragraph k holds Name (always) and Comment (when it has text), nothing else
JudgeEncStructs(rec) ==
    LET vs == rec.in.values
        r == RefRead(rec.w)
        nName == <<78, 97, 109, 101>>  nComment == <<67, 111, 109, 109, 101, 110, 116>>
        nNotes == <<78, 111, 116, 101, 115>>
        Want(v) == <<[name |-> nName, lines |-> <<v.Name>>]>> \o (IF v.Comment = <<>> THEN <<>> ELSE <<[name |-> nComment, lines |-> <<v.Comment>>]>>)
                   \o (IF v.Notes = <<>> \/ HasField(rec.in, "dup") THEN <<>> ELSE <<[name |-> nNotes, lines |-> <<<<>>>> \o Split(v.Notes, LF)]>>)
    IN Guarded("encoder-structs",
       << <<~rec.panic, "panic">>, <<rec.ok, "Encode failed on a supported struct">>, <<r.wf, "the Encoder's output is not a well-formed document">> >>,
       << <<Len(r.paras) = Len(vs), "n structs written through the Encoder do not read back as n paragraphs">>,
          <<Len(r.paras) = Len(vs) => \A k \in 1..Len(vs) :
                Len(r.paras[k]) = Len(Want(vs[k])) /\ \A j \in 1..Len(Want(vs[k])) :
                    r.paras[k][j].name = Want(vs[k])[j].name /\ r.paras[k][j].lines = Want(vs[k])[j].lines,
            "a struct written through the Encoder does not read back with its required field (even empty) and without its empty optional field">> >>)

Judge(rec) ==
    CASE rec.ev = "enc_structs" -> JudgeEncStructs(rec)
      [] rec.ev = "write_fault" -> JudgeFault(rec)
      [] rec.ev = "read" -> JudgeRead(rec)
      [] rec.ev = "write" -> JudgeWrite(rec)
      [] rec.ev = "rw" -> JudgeRW(rec)
      [] OTHER -> V(FALSE, "unknown-event", "unknown event")

Init == l \in 1..Len(Trace) /\ verdict = Pending
Next == verdict.class = "pending" /\ verdict' = JudgeOrCrash(Trace[l], LAMBDA r : IF IsLong(r) THEN JudgeLong(r) ELSE Judge(r)) /\ UNCHANGED l
Spec == Init /\ [][Next]_vars
=============================================================================
