------------------------------ MODULE BuildOrder ------------------------------
(***************************************************************************)
(* control.OrderDSCForBuild: build order of source packages.               *)
(* Ref: a model of sources (binaries, three build-dependency fields made   *)
(* of relations of alternatives with architecture restrictions and         *)
(* substvars), Edges(arch) per the property (per relation the FIRST        *)
(* non-substvar alternative admitting the architecture; an edge t -> s if  *)
(* its name is a binary of t), cycles, and what an outcome may be.         *)
(* RenderDsc writes a source as an ordinary multi-binary .dsc.             *)
(***************************************************************************)
EXTENDS DebDependency

\* alternative = [name, restr]  restr \in {"none", "only-target", "only-other", "not-target", "not-other", "not-target2", "substvar"}
\*   "q-native" / "q-any" / "q-target": the name carries a multiarch qualifier (pkg:native, pkg:any, pkg:amd64) - it still names
\*   that binary;  "versioned": a version constraint follows the name
\*   "only-kbsd-any" [kfreebsd-any] / "not-kbsd-any" [!kfreebsd-any]: a wildcard for ANOTHER operating system (the target is linux)
\*   "only-gnu-any-amd64" [gnu-any-amd64]: a three-part wildcard whose only open component is the operating system
Admits(restr) == restr \in {"none", "only-target", "not-other", "q-native", "q-any", "q-target", "versioned", "not-kbsd-any", "only-linux-any", "only-gnu-any-amd64"}
Selected(rel) == LET ok == {k \in 1..Len(rel) : rel[k].restr # "substvar" /\ Admits(rel[k].restr)} IN
                 IF ok = {} THEN <<>> ELSE <<rel[CHOOSE k \in ok : \A j \in ok : k <= j].name>>
\* source = [name, binaries, fields]  fields = <<bd, bda, bdi>> each a sequence of relations
DepNames(src) == UNION {UNION {{Selected(src.fields[f][r])[i] : i \in 1..Len(Selected(src.fields[f][r]))} :
                                r \in 1..Len(src.fields[f])} : f \in 1..3}
Owner(srcs, bin) == {t \in 1..Len(srcs) : \E k \in 1..Len(srcs[t].binaries) : srcs[t].binaries[k] = bin}
\* edge t -> s : s build-depends on a binary of t
Edges(srcs) == {<<t, s>> \in (1..Len(srcs)) \X (1..Len(srcs)) : \E b \in DepNames(srcs[s]) : t \in Owner(srcs, b)}
RECURSIVE ReachFrom(_, _, _)
ReachFrom(E, frontier, seen) ==
    LET next == {e[2] : e \in {e \in E : e[1] \in frontier}} \ seen IN
    IF next = {} THEN seen ELSE ReachFrom(E, next, seen \cup next)
Reach(E, a) == ReachFrom(E, {a}, {})             \* nodes reachable from a by >= 1 edge
\* (E = Edges(srcs) is passed in: TLC re-evaluates operator applications, and Edges is costly)
RealCycleE(E, n) == \E a \in 1..n : \E b \in Reach(E, a) : a # b /\ a \in Reach(E, b)
SelfDepE(E, n) == \E a \in 1..n : <<a, a>> \in E
RealCycle(srcs) == RealCycleE(Edges(srcs), Len(srcs))
SelfDep(srcs) == SelfDepE(Edges(srcs), Len(srcs))

\* outcome = [ok, order (sequence of source names)]
PosIn(order, name) == CHOOSE k \in 1..Len(order) : order[k] = name
ValidOrderE(srcs, E, order) ==
    /\ Len(order) = Len(srcs)
    /\ {order[k] : k \in 1..Len(order)} = {srcs[i].name : i \in 1..Len(srcs)}
    /\ \A e \in E : e[1] # e[2] => PosIn(order, srcs[e[1]].name) < PosIn(order, srcs[e[2]].name)
ClassE(E, n) == IF RealCycleE(E, n) THEN "cycle" ELSE IF SelfDepE(E, n) THEN "self-dependency" ELSE "acyclic"
AllowedOutcomeE(srcs, E, cls, out) ==
    CASE cls = "cycle" -> ~out.ok
      [] cls = "self-dependency" -> ~out.ok      \* "comes after each source that builds a binary it build-depends on" has no
                                                 \* solution when that source is itself: a cycle of length one
      [] cls = "acyclic" -> out.ok /\ ValidOrderE(srcs, E, out.order)

\* ---- rendering as .dsc ---------------------------------------------------------
TargetArch == <<97, 109, 100, 54, 52>>   OtherArch == <<105, 51, 56, 54>>
RenderAlt(a) ==
    CASE a.restr = "substvar"    -> <<DOLLAR, LBRACE>> \o a.name \o <<RBRACE>>
      [] a.restr = "none"        -> a.name
      [] a.restr = "only-kbsd-any"  -> a.name \o <<SP, LBRACK, 107, 102, 114, 101, 101, 98, 115, 100, HYPHEN, 97, 110, 121, RBRACK>>
      [] a.restr = "not-kbsd-any"   -> a.name \o <<SP, LBRACK, BANG, 107, 102, 114, 101, 101, 98, 115, 100, HYPHEN, 97, 110, 121, RBRACK>>
      [] a.restr = "only-gnu-any-amd64" -> a.name \o <<SP, LBRACK, 103, 110, 117, HYPHEN, 97, 110, 121, HYPHEN>> \o TargetArch \o <<RBRACK>>
      [] a.restr = "only-linux-any" -> a.name \o <<SP, LBRACK, 108, 105, 110, 117, 120, HYPHEN, 97, 110, 121, RBRACK>>
      [] a.restr = "q-native"    -> a.name \o <<COLON, 110, 97, 116, 105, 118, 101>>
      [] a.restr = "q-any"       -> a.name \o <<COLON, 97, 110, 121>>
      [] a.restr = "q-target"    -> a.name \o <<COLON>> \o TargetArch
      [] a.restr = "versioned"   -> a.name \o <<SP, LPAREN, GT, EQ, SP, 48, DOT, 53, RPAREN>>
      [] a.restr = "only-target" -> a.name \o <<SP, LBRACK>> \o TargetArch \o <<RBRACK>>
      [] a.restr = "only-other"  -> a.name \o <<SP, LBRACK>> \o OtherArch \o <<RBRACK>>
      [] a.restr = "not-target"  -> a.name \o <<SP, LBRACK, BANG>> \o TargetArch \o <<RBRACK>>
      [] a.restr = "not-target2" -> a.name \o <<SP, LBRACK, BANG>> \o OtherArch \o <<SP, BANG>> \o TargetArch \o <<RBRACK>>
      [] a.restr = "not-other"   -> a.name \o <<SP, LBRACK, BANG>> \o OtherArch \o <<SP, BANG, 97, 114, 109, 54, 52, RBRACK>>
RenderField(rels, folded) ==
    Join([r \in 1..Len(rels) |-> Join([k \in 1..Len(rels[r]) |-> RenderAlt(rels[r][k])], <<SP, PIPE, SP>>)],
         IF folded THEN <<COMMA, LF, SP>> ELSE <<COMMA, SP>>)
Str(s) == s
L(label, value) == label \o <<COLON, SP>> \o value \o <<LF>>
RenderDsc(src, folded) ==
    L(<<70, 111, 114, 109, 97, 116>>, <<51, 46, 48, 32, 40, 113, 117, 105, 108, 116, 41>>) \o       \* Format: 3.0 (quilt)
    L(<<83, 111, 117, 114, 99, 101>>, src.name) \o                                                 \* Source
    L(<<66, 105, 110, 97, 114, 121>>, Join(src.binaries, IF folded THEN <<COMMA, LF, SP>> ELSE <<COMMA, SP>>)) \o   \* Binary
    L(<<65, 114, 99, 104, 105, 116, 101, 99, 116, 117, 114, 101>>, <<97, 110, 121>>) \o             \* Architecture: any
    L(<<86, 101, 114, 115, 105, 111, 110>>, <<49, 46, 48, 45, 49>>) \o                               \* Version: 1.0-1
    L(<<77, 97, 105, 110, 116, 97, 105, 110, 101, 114>>, <<77, 32, 60, 109, 64, 120, 62>>) \o       \* Maintainer: M <m@x>
    (IF src.fields[1] = <<>> THEN <<>> ELSE L(<<66, 117, 105, 108, 100, 45, 68, 101, 112, 101, 110, 100, 115>>, RenderField(src.fields[1], folded))) \o
    (IF src.fields[2] = <<>> THEN <<>> ELSE L(<<66, 117, 105, 108, 100, 45, 68, 101, 112, 101, 110, 100, 115, 45, 65, 114, 99, 104>>, RenderField(src.fields[2], folded))) \o
    (IF src.fields[3] = <<>> THEN <<>> ELSE L(<<66, 117, 105, 108, 100, 45, 68, 101, 112, 101, 110, 100, 115, 45, 73, 110, 100, 101, 112>>, RenderField(src.fields[3], folded))) \o
    <<70, 105, 108, 101, 115, 58, 10, 32>> \o                                                         \* "Files:\n "
    <<100, 52, 49, 100, 56, 99, 100, 57, 56, 102, 48, 48, 98, 50, 48, 52, 101, 57, 56, 48, 48, 57, 57, 56, 101, 99, 102, 56, 52, 50, 55, 101>> \o
    <<SP, 48, SP>> \o src.name \o <<95, 49, 46, 48, 46, 116, 97, 114, 46, 103, 122, LF>>
=============================================================================
