------------------------------ MODULE C19Trace ------------------------------
(* V mode for C19: judge control.OrderDSCForBuild on parsed .dsc files.       *)
EXTENDS BuildOrder, TraceLib
VARIABLES l, verdict
vars == <<l, verdict>>
Judge(rec) ==
    LET srcs == rec.in.sources
        first == rec.runs[1]
        E == Edges(srcs)
        cls == ClassE(E, Len(srcs))
    IN Checks(cls,
       << <<rec.parsed, "an ordinary .dsc was rejected by ParseDsc">>,
          <<rec.in.dscs = [j \in 1..Len(srcs) |-> RenderDsc(srcs[j], rec.in.folded)], "vector .dsc text is not the rendering of the model">>,
          <<~rec.panic, "panic">>,
          <<\A k \in 1..Len(rec.runs) : rec.runs[k] = first, "the outcome differs between runs">>,
          <<cls = "cycle" => ~first.ok, "a dependency cycle did not yield an error">>,
          <<cls = "acyclic" => first.ok, "an acyclic set of sources was refused">>,
          <<AllowedOutcomeE(srcs, E, cls, first), "the order is not a permutation that respects every build-dependency">> >>)
Init == l \in 1..Len(Trace) /\ verdict = Pending
Next == verdict.class = "pending" /\ verdict' = JudgeOrCrash(Trace[l], Judge) /\ UNCHANGED l
Spec == Init /\ [][Next]_vars
=============================================================================
