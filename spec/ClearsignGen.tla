----------------------------- MODULE ClearsignGen -----------------------------
(* G mode for C11: documents x signing key x keyring composition x structural  *)
(* mutations (the every-byte-position mutations come from the harness, which    *)
(* knows the armored length).                                                  *)
EXTENDS Deb822Tokens, GenLib
Docs == {Doc(<<1, 4, 6, 5, 9, 11, 2, 4>>, FALSE, TRUE), Doc(<<1, 5>>, FALSE, TRUE), Doc(<<11, 8, 4, 9, 9, 1>>, FALSE, FALSE),
         Doc(<<2, 6, 6, 4, 9, 1, 9, 11>>, TRUE, TRUE)}
Keyrings == {<<>>, <<"k1">>, <<"k2">>, <<"k1", "k2">>, <<"k2", "k1">>}
Ops == {"none", "splice_before", "splice_inside", "splice_inside_para", "splice_after", "second_block", "drop_sig"}
Frac == {[op |-> o, num |-> n, den |-> 16, mask |-> 8, byte |-> 32] : o \in {"sub", "del", "ins", "trunc"}, n \in 0..16}
Mut(o) == [op |-> o, num |-> 0, den |-> 1, mask |-> 0, byte |-> 0]
Signed == {[k |-> "cs", doc |-> d, key |-> sk, keyring |-> kr, mut |-> m] :
              d \in Docs, sk \in {"k1", "k2"}, kr \in Keyrings, m \in {Mut(o) : o \in Ops}}
          \cup {[k |-> "cs", doc |-> d, key |-> "k1", keyring |-> <<"k1">>, mut |-> m] : d \in Docs, m \in Frac}
\* an empty keyring in both of its Go forms: EntityList{} and a nil EntityList behind a non-nil pointer
EmptyForms == {[k |-> "cs", doc |-> d, key |-> sk, keyring |-> <<>>, ring_form |-> f, mut |-> Mut(o)] :
                  d \in Docs, sk \in {"k1", "k2"}, f \in {"empty-slice", "nil-slice"}, o \in {"none", "splice_inside", "drop_sig"}}
\* sequences of reads of ONE document in ONE process: accept first, then keyrings that must refuse (and back)
RingSeqs == { << <<"k1">>, <<"k2">>, <<>>, <<"k1">> >>, << <<"k2">>, <<"k1">>, <<"k2">> >>, << <<"k1", "k2">>, <<>>, <<"k2">> >> }
Seqs == {[k |-> "cs_seq", doc |-> d, key |-> "k1", rings |-> rs, mut |-> Mut("none")] : d \in Docs, rs \in RingSeqs}
Unsigned == {[k |-> "cs", doc |-> d, key |-> "", keyring |-> kr, mut |-> Mut(o)] : d \in Docs, kr \in Keyrings, o \in {"none", "splice_after"}}
\* keyring = nil cannot be written as a sequence: those vectors omit the field
NilRing == {[k |-> "cs", doc |-> d, key |-> sk, mut |-> Mut(o)] : d \in Docs, sk \in {"k1", ""}, o \in {"none", "splice_inside", "drop_sig"}}
ASSUME Emit(SetToSeq(Signed \cup Unsigned) \o SetToSeq(NilRing) \o SetToSeq(EmptyForms) \o SetToSeq(Seqs))
=============================================================================
