----------------------------- MODULE ClearsignGen -----------------------------
(* G mode for C11: documents x signing key x keyring composition x structural  *)
(* mutations (the every-byte-position mutations come from the harness, which    *)
(* knows the armored length).                                                  *)
EXTENDS Deb822Tokens, Deb822, GenLib
Docs == {Doc(<<1, 4, 6, 5, 9, 11, 2, 4>>, FALSE, TRUE), Doc(<<1, 5>>, FALSE, TRUE), Doc(<<11, 8, 4, 9, 9, 1>>, FALSE, FALSE),
         Doc(<<2, 6, 6, 4, 9, 1, 9, 11>>, TRUE, TRUE)}
Keyrings == {<<>>, <<"k1">>, <<"k2">>, <<"k1", "k2">>, <<"k2", "k1">>}
Ops == {"none", "splice_before", "splice_inside", "splice_inside_para", "splice_after", "second_block", "drop_sig", "ws_blank_sp", "ws_blank_tab"}
Frac == {[op |-> o, num |-> n, den |-> 16, mask |-> 8, byte |-> 32] : o \in {"sub", "del", "ins", "trunc"}, n \in 0..16}
Mut(o) == [op |-> o, num |-> 0, den |-> 1, mask |-> 0, byte |-> 0]
Signed == {[k |-> "cs", doc |-> d, key |-> sk, keyring |-> kr, mut |-> m] :
              d \in Docs, sk \in {"k1", "k2"}, kr \in Keyrings, m \in {Mut(o) : o \in Ops}}
          \cup {[k |-> "cs", doc |-> d, key |-> "k1", keyring |-> <<"k1">>, mut |-> m] : d \in Docs, m \in Frac}
\* a signed text whose LATER part is not a control file (a line without colon; a continuation line that opens a paragraph):
\* `good` is its well-formed beginning
BadTails == {[k |-> "cs", doc |-> Doc(g \o t, FALSE, TRUE), good |-> Doc(g, FALSE, TRUE), key |-> "k1", keyring |-> kr, mut |-> Mut("none")] :
                g \in {<<1, 4, 9>>, <<1, 9, 2, 4, 9>>}, t \in {<<10, 1>>, <<4, 1>>, <<1, 10>>}, kr \in {<<"k1">>, <<"k2">>}}
\* signed with k1's encryption-only subkey: the entity is in the keyring, the key may not make signatures
EncKey == {[k |-> "cs", doc |-> d, key |-> "k1enc", keyring |-> kr, mut |-> Mut("none")] : d \in Docs, kr \in {<<"k1">>, <<"k1", "k2">>, <<"k2">>}}
\* signed texts with a carriage return that is NOT followed by a line feed, inside a value and between two of them
LoneCR == {[k |-> "cs", doc |-> d, key |-> "k1", keyring |-> <<"k1">>, mut |-> Mut("none")] :
              d \in {<<77, 58, 32, 74, CR, 70, 58, 32, 120, LF>>, <<65, 58, 32, 120, CR, CR, 80, 58, 32, 98, LF>>, <<65, 58, 32, 120, LF, SP, 99, CR, 100, LF, LF, 66, 58, 32, 121, LF>>}}
\* the source fails once at 1/8 .. 8/8 of a validly signed document (the armor line has been seen by then) and then delivers
\* foreign text
Faults == {[k |-> "cs", doc |-> d, key |-> sk, keyring |-> kr, mut |-> Mut("none"), via |-> "fault", fault_num |-> n, fault_den |-> 8] :
              d \in Docs, sk \in {"k1"}, kr \in {<<"k1">>, <<"k2">>, <<>>}, n \in 1..8}
\* an empty keyring in both of its Go forms: EntityList{} and a nil EntityList behind a non-nil pointer
EmptyForms == {[k |-> "cs", doc |-> d, key |-> sk, keyring |-> <<>>, ring_form |-> f, mut |-> Mut(o)] :
                  d \in Docs, sk \in {"k1", "k2"}, f \in {"empty-slice", "nil-slice"}, o \in {"none", "splice_inside", "drop_sig"}}
\* sequences of reads of ONE document in ONE process: accept first, then keyrings that must refuse (and back)
RingSeqs == { << <<"k1">>, <<"k2">>, <<>>, <<"k1">> >>, << <<"k2">>, <<"k1">>, <<"k2">> >>, << <<"k1", "k2">>, <<>>, <<"k2">> >> }
Seqs == {[k |-> "cs_seq", doc |-> d, key |-> "k1", rings |-> rs, mut |-> Mut("none")] : d \in Docs, rs \in RingSeqs}
Unsigned == {[k |-> "cs", doc |-> d, key |-> "", keyring |-> kr, mut |-> Mut(o)] : d \in Docs, kr \in Keyrings, o \in {"none", "splice_after"}}
\* keyring = nil cannot be written as a sequence: those vectors omit the field
NilRing == {[k |-> "cs", doc |-> d, key |-> sk, mut |-> Mut(o)] : d \in Docs, sk \in {"k1", ""}, o \in {"none", "splice_inside", "drop_sig"}}
\* signature armor holding several packets (good = the document's own signature by k1; unrelated = by k1 over another
\* text; empty = by k1 over the empty text; k2good = by k2 over this text), in every order of up to three
DocA0 == Doc(<<1, 4, 6, 5, 9, 11, 2, 4>>, FALSE, TRUE)
PacketKinds == {"good", "unrelated", "empty", "k2good"}
PacketSeqs == {<<a>> : a \in PacketKinds} \cup {<<a, b>> : a \in PacketKinds, b \in PacketKinds} \cup
              {<<"unrelated", "unrelated", "empty">>, <<"empty", "unrelated", "good">>, <<"unrelated", "empty", "k2good">>}
MultiSig == {[k |-> "cs", doc |-> d, key |-> "k1", keyring |-> kr,
              mut |-> [op |-> "multi_sig", num |-> 0, den |-> 1, mask |-> 0, byte |-> 0, packets |-> ps]] :
                d \in {DocA0}, kr \in {<<"k1">>, <<"k2">>, <<"k1", "k2">>}, ps \in PacketSeqs}
\* ---- several readers alive in one process -------------------------------------------------------------
\* reader 1 reads a signed document to its end and is polled `extra` more times; readers 2 (signed, keyring)
\* and 3 (plain, no keyring) are then open at the same time and read in some interleaving; reader 1 is polled
\* again before and after.
DocA == Doc(<<1, 4, 6, 5, 9, 11, 2, 4>>, FALSE, TRUE)  DocB == Doc(<<11, 8, 4, 9, 9, 1>>, FALSE, TRUE)  DocC == Doc(<<2, 6, 6, 4, 9, 1, 9, 11>>, FALSE, TRUE)
NParas(d) == Len(RefRead(d).paras)
Open(r, d, ring, isnil) == [op |-> "open", r |-> r, d |-> d, ring |-> ring, nil |-> isnil]
Nx(r, n) == [i \in 1..n |-> [op |-> "next", r |-> r, d |-> 0, ring |-> <<>>, nil |-> FALSE]]
RECURSIVE Alternate(_, _)
Alternate(a, b) == IF a = <<>> THEN b ELSE IF b = <<>> THEN a ELSE <<Head(a), Head(b)>> \o Alternate(Tail(a), Tail(b))
OpsFor(ds, extra, order, pollBefore) ==
    LET a == Nx(2, NParas(ds[2]) + 1)  b == Nx(3, NParas(ds[3]) + 1) IN
    <<Open(1, 1, <<"k1">>, FALSE)>> \o Nx(1, NParas(ds[1]) + 1 + extra)
    \o <<Open(2, 2, <<"k1">>, FALSE), Open(3, 3, <<>>, TRUE)>>
    \o (IF pollBefore THEN Nx(1, 1) ELSE <<>>)
    \o (CASE order = "ab" -> a \o b [] order = "ba" -> b \o a [] order = "alt" -> Alternate(a, b))
    \o Nx(1, 1)
ReaderOps == {[k |-> "cs_ops", docs |-> ds, keys |-> <<"k1", "k1", "">>, ops |-> OpsFor(ds, e, o, pb)] :
                 ds \in {<<DocA, DocB, DocC>>, <<DocC, DocA, DocB>>}, e \in 0..2, o \in {"ab", "ba", "alt"}, pb \in BOOLEAN}
ASSUME Emit(SetToSeq(Signed \cup Unsigned) \o SetToSeq(NilRing) \o SetToSeq(EmptyForms) \o SetToSeq(Seqs) \o SetToSeq(ReaderOps) \o SetToSeq(MultiSig) \o SetToSeq(BadTails) \o SetToSeq(Faults) \o SetToSeq(LoneCR) \o SetToSeq(EncKey))
=============================================================================
