INIT GenInit
NEXT GenNext
