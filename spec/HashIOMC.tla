------------------------------ MODULE HashIOMC ------------------------------
(* M mode for C12: all chunkings of streams of <= MaxUnits units x all ordered *)
(* lists of distinct algorithms, for writers and readers; verifier protocol   *)
(* New -> Write* -> Close with recorded hashes of every relevant kind.        *)
EXTENDS HashIO, TLC
CONSTANTS MaxUnits
VARIABLES mode, stream, hs, pos, target, consumer, ver, phase
vars == <<mode, stream, hs, pos, target, consumer, ver, phase>>

AlgLists == UNION {{s \in [1..n -> Algs] : \A i, j \in 1..n : s[i] = s[j] => i = j} : n \in 1..2} \cup
            {<<"md5", "sha1", "sha256", "sha512">>, <<"sha512", "sha256", "sha1", "md5">>}
Streams == UNION {[1..n -> {1, 2}] : n \in 0..MaxUnits}
\* recorded hashes: the true digest, a wrong one, or the true digest under another algorithm
Recorded(alg, s) == {Digest(alg, s), Digest(alg, s \o <<9>>)} \cup {Digest(a, s) : a \in Algs}

Init == /\ mode \in {"writer", "reader", "verifier"}
        /\ stream \in Streams
        /\ \E al \in AlgLists : hs = [i \in 1..Len(al) |-> NewHasher(al[i])]
        /\ pos = 0 /\ target = <<>> /\ consumer = <<>>
        /\ IF mode = "verifier"
           THEN \E a \in Algs : \E r \in Recorded(a, stream) : ver = [entry |-> Entry(a, r), absorbed |-> <<>>, closed |-> FALSE, result |-> "none"]
           ELSE ver = [entry |-> Entry("md5", <<>>), absorbed |-> <<>>, closed |-> FALSE, result |-> "none"]
        /\ phase = "run"

Write(k) == /\ mode = "writer" /\ phase = "run" /\ pos + k <= Len(stream)
            /\ LET r == WriteAll(hs, target, SubSeq(stream, pos + 1, pos + k)) IN hs' = r.hs /\ target' = r.target
            /\ pos' = pos + k /\ UNCHANGED <<mode, stream, consumer, ver, phase>>
Read(k) == /\ mode = "reader" /\ phase = "run" /\ pos < Len(stream)
           /\ LET r == ReadSome(hs, stream, pos, k) IN hs' = r.hs /\ consumer' = consumer \o r.got /\ pos' = r.pos
           /\ UNCHANGED <<mode, stream, target, ver, phase>>
VWrite(k) == /\ mode = "verifier" /\ phase = "run" /\ ~ver.closed /\ pos + k <= Len(stream)
             /\ ver' = [ver EXCEPT !.absorbed = @ \o SubSeq(stream, pos + 1, pos + k)]
             /\ pos' = pos + k /\ UNCHANGED <<mode, stream, hs, target, consumer, phase>>
VClose == /\ mode = "verifier" /\ phase = "run" /\ pos = Len(stream) /\ ~ver.closed
          /\ ver' = [ver EXCEPT !.closed = TRUE,
                                !.result = IF Digest(ver.entry.alg, ver.absorbed) = ver.entry.hash THEN "ok" ELSE "mismatch"]
          /\ phase' = "done" /\ UNCHANGED <<mode, stream, hs, pos, target, consumer>>
Finish == /\ mode # "verifier" /\ phase = "run" /\ pos = Len(stream) /\ phase' = "done"
          /\ UNCHANGED <<mode, stream, hs, pos, target, consumer, ver>>
Next == (\E k \in 0..2 : Write(k) \/ VWrite(k)) \/ (\E k \in 1..3 : Read(k)) \/ VClose \/ Finish
Spec == Init /\ [][Next]_vars

Prefix == SubSeq(stream, 1, pos)
PassThrough == (mode = "writer" => target = Prefix) /\ (mode = "reader" => consumer = Prefix)
HashersSeeStream == mode \in {"writer", "reader"} =>
                       \A i \in 1..Len(hs) : hs[i].absorbed = Prefix /\ SizeOf(hs[i]) = pos /\ SumOf(hs[i]) = Digest(hs[i].alg, Prefix)
VerifierIff == (mode = "verifier" /\ phase = "done") => ((ver.result = "ok") <=> Accepts(ver.entry, stream))
=============================================================================
