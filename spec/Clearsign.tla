------------------------------ MODULE Clearsign ------------------------------
(***************************************************************************)
(* Impl layer for C11: control.NewParagraphReader on (possibly) OpenPGP    *)
(* clearsigned input, with IDEAL signatures: a signature is (key, text it  *)
(* was made over); it verifies iff the key is in the keyring and the text  *)
(* presented is canonically the text signed.  One action per step of the   *)
(* code: Peek -> Decode -> NilBypass | Verify -> Read.                     *)
(*                                                                         *)
(* A scenario: does the input start with the armor header, is there a      *)
(* decodable block, was the signed text changed (semantically / only up to *)
(* canonicalisation), is the signature intact, who signed, which keyring,  *)
(* is there foreign text before / after the block.                         *)
(***************************************************************************)
EXTENDS Integers, Sequences, FiniteSets, TLC
VARIABLES sc, phase, reader, signer, result, returned
vars == <<sc, phase, reader, signer, result, returned>>

Keyrings == {"nil", "empty", "k1", "k2", "k1k2"}
KeysOf(r) == CASE r = "k1" -> {"k1"} [] r = "k2" -> {"k2"} [] r = "k1k2" -> {"k1", "k2"} [] OTHER -> {}
Scenarios == [armorStart : BOOLEAN, block : {"none", "ok"}, text : {"orig", "canon", "changed"},
              sig : {"intact", "damaged"}, by : {"k1", "k2"}, ring : Keyrings, before : BOOLEAN, after : BOOLEAN]
\* text before the armor means the input does not start with the armor header
Consistent(s) == (s.before => ~s.armorStart) /\ (s.block = "none" => s.text = "orig" /\ s.sig = "intact")

Verifies(s) == /\ s.block = "ok" /\ s.sig = "intact" /\ s.text \in {"orig", "canon"} /\ s.by \in KeysOf(s.ring)

Init == /\ sc \in {s \in Scenarios : Consistent(s)}
        /\ phase = "peek" /\ reader = "none" /\ signer = "none" /\ result = "none" /\ returned = {}

\* Peek(15) == "-----BEGIN PGP " ?
Peek == /\ phase = "peek"
        /\ IF sc.armorStart THEN phase' = "decode" /\ UNCHANGED reader
           ELSE phase' = "read" /\ reader' = "whole-input"            \* plain path: everything is parsed as control data
        /\ UNCHANGED <<sc, signer, result, returned>>
Decode == /\ phase = "decode"
          /\ IF sc.block = "none" THEN phase' = "done" /\ result' = "err"          \* "Invalid clearsigned input"
             ELSE phase' = (IF sc.ring = "nil" THEN "bypass" ELSE "verify") /\ UNCHANGED result
          /\ UNCHANGED <<sc, reader, signer, returned>>
\* keyring nil: signature checking is disabled (documented), the block's text is parsed, no signer
NilBypass == /\ phase = "bypass" /\ reader' = "block" /\ phase' = "read"
             /\ UNCHANGED <<sc, signer, result, returned>>
Verify == /\ phase = "verify"
          /\ IF Verifies(sc) THEN signer' = sc.by /\ reader' = "block" /\ phase' = "read" /\ UNCHANGED result
             ELSE phase' = "done" /\ result' = "err" /\ UNCHANGED <<signer, reader>>
          /\ UNCHANGED <<sc, returned>>
Read == /\ phase = "read"
        /\ IF reader = "block"
           THEN returned' = {IF sc.text = "changed" THEN "block-changed" ELSE "block-signed"} /\ result' = "ok"
           ELSE \* whole input: foreign paragraphs before the armor are handed out, then the armor lines are bad lines
                /\ returned' = (IF sc.before THEN {"before"} ELSE {}) \cup (IF sc.block = "none" /\ ~sc.armorStart /\ ~sc.before THEN {"plain"} ELSE {})
                /\ result' = (IF sc.block = "ok" THEN "err" ELSE "ok")
        /\ phase' = "done" /\ UNCHANGED <<sc, reader, signer>>
Next == Peek \/ Decode \/ NilBypass \/ Verify \/ Read
Spec == Init /\ [][Next]_vars /\ WF_vars(Next)

SignerImpliesVerified == signer # "none" => (Verifies(sc) /\ signer = sc.by)
AcceptOnlyVerified == (sc.ring # "nil" /\ sc.armorStart /\ returned # {}) => (Verifies(sc) /\ returned = {"block-signed"})
NothingAfterBlock == "after" \notin returned
PlainNoSigner == ~sc.armorStart => signer = "none"
\* the one deviation the model makes explicit (KF-C11-1): text BEFORE the armor is handed out unverified
BeforeOnlyWhenNotArmorStart == "before" \in returned => ~sc.armorStart
Terminates == <>(phase = "done")
=============================================================================
