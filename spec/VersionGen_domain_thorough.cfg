INIT GenInit
NEXT GenNext
CONSTANTS
  Alphabet = {48, 49, 57, 97, 90, 126, 43, 46}
  MaxLen = 3
  Mode = "domain"
CHECK_DEADLOCK FALSE
