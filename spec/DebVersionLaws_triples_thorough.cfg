SPECIFICATION Spec
INVARIANT Holds
CONSTANTS
  Alphabet = {48, 49, 97, 126}
  MaxLen = 3
  Mode = "triples"
CHECK_DEADLOCK FALSE
