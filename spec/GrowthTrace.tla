------------------------------ MODULE GrowthTrace ------------------------------
(* V mode for the growth specification. *)
EXTENDS Growth, ChangelogHeader, TraceLib
VARIABLES l, verdict
vars == <<l, verdict>>

JVacc(rec) == LET v == rec.in.v IN
    Checks("version-accessors",
       << <<rec.native = Native(v), "IsNative is not 'there is no revision'">>,
          <<rec.empty = EmptyVersion(v), "Empty is not 'epoch 0, no upstream part, no revision'">>,
          <<rec.noepoch = NoEpochText(v), "StringWithoutEpoch is not upstream[-revision]">> >>)

JArchs(rec) == LET want == ArchList(rec.in.text) IN
    Checks(IF rec.in.sep \in {<<SP>>, <<SP, SP>>} THEN "blank-separated" ELSE "folded-or-tab-separated",
       << <<rec.ok, "a list of architecture names was rejected">>,
          <<rec.ok => rec.list = want, "the list of architectures is not the list of the names in the field">> >>)

\* "all" is a name of its own (all-all-all); a triple that mixes "all" with other components denotes nothing
JWild(rec) == LET t == rec.in.t  mixed == bAll \in {t.abi, t.os, t.cpu} /\ ~IsAllT(t) IN
    IF mixed THEN V(TRUE, "unspecified", "")
    ELSE Checks("wildcard", << <<rec.r = IsWild(t), "IsWildcard differs from 'some component is any (and it is not all)'">> >>)

JByHash(rec) ==
    Checks("by-hash-" \o rec.in.alg,
       << <<rec.ok, "hash line rejected">>,
          <<rec.r = ByHashPath(rec.in.path, rec.in.alg, rec.in.hash), "by-hash path is not <dir>/by-hash/<HashName>/<digest>">> >>)

JGetDsc(rec) == LET want == DscOf(rec.in.names) IN
    Checks(IF want.some THEN "with-dsc" ELSE "without-dsc",
       << <<rec.parsed, ".changes file rejected (harness)">>,
          <<rec.ok = want.some, "GetDSC succeeds exactly when the .changes lists a .dsc">>,
          <<rec.ok => (rec.file = want.name /\ rec.dir_same), "GetDSC did not open the first listed .dsc next to the .changes">>,
          <<rec.ok => rec.source = <<115, 114, 99, 45, 111, 102, 45>> \o want.name, "GetDSC returned another document">> >>)

JCompressor(rec) == Checks("compressor", << <<rec.ok = (rec.in.name \in KnownCompressors), "GetCompressor knows other names than the specification">> >>)
JDecompressor(rec) ==
    LET known == rec.in.ext \in KnownDecompressExts IN
    Checks(IF known THEN "known-extension" ELSE "pass-through",
       << <<known => (rec.decodes /\ ~rec.passthrough), "a member extension of deb(5) is not decompressed">>,
          <<~known => rec.passthrough, "an unknown extension is not passed through unchanged">> >>)

JXz(rec) ==
    IF ~rec.built THEN V(TRUE, "aux", "")
    ELSE Checks("xz-dictionary-limit",
       << <<Len(rec.oks) = Len(rec.in.limits), "missing steps">>,
          <<\A k \in 1..Len(rec.in.limits) : rec.oks[k] = XZLoads(rec.in.limits[k], rec.in.dict),
            "after SetXZMaxDict(n) an xz member loads although its dictionary exceeds n, or is refused although it does not (0 = default)">> >>)

\* LoadFile: the abstract state is the set of open handles; an operation's name ends in the handle it acts on
HandleOf(o) == SubSeq(o, Len(o), Len(o))
RECURSIVE OpenAfter(_, _)
OpenAfter(ops, k) ==
    IF k = 0 THEN {}
    ELSE LET o == ops[k]  prev == OpenAfter(ops, k - 1) IN
         IF o \in {"open1", "open2"} THEN prev \cup {HandleOf(o)}
         ELSE IF o \in {"c1", "c2", "d1", "d2"} THEN prev \ {HandleOf(o)}
         ELSE prev
JLoadFile(rec) ==
    LET ops == rec.in.ops
        bad == {k \in 1..Len(ops) :
                  \/ rec.steps[k].panic
                  \/ rec.steps[k].fds # Descriptors(0, OpenAfter(ops, k))
                  \/ (ops[k] \in {"open1", "open2", "read1", "read2"} /\ ~rec.steps[k].ok)
                  \/ (ops[k] \in {"openbad", "openmissing"} /\ rec.steps[k].ok)
                  \/ (ops[k] \in {"c1", "c2", "d1", "d2"} /\ HandleOf(ops[k]) \in OpenAfter(ops, k - 1) /\ ~rec.steps[k].ok)}
    IN Checks("loadfile-lifecycle",
       << <<Len(rec.steps) = Len(ops), "missing steps">>,
          <<Len(rec.steps) = Len(ops) => bad = {},
            "LoadFile / Close: a step failed, or the process does not hold exactly one descriptor per open package (leak on the error path, or descriptor still open after Close)">> >>)

JFileVariants(rec) ==
    Checks("file-variants",
       << <<\A k \in 1..Len(rec.pairs) : rec.pairs[k].file = rec.pairs[k].reader, "a Parse*File function returns something else than its reader variant on the same bytes">> >>)

\* changelog header: the code against the scanner model (ImplHeader), and both against dpkg's grammar (RefHeader)
JClHeader(rec) ==
    LET line == rec.in.line  r == RefHeader(line)  m == ImplHeader(line)  c == VersionOf(r.vtext)
        obsargs == {rec.args[k] : k \in 1..Len(rec.args)}
        scope == IF ~(r.ok /\ r.optsok) \/ c.class = "reject" THEN "dpkg-rejects"
                 ELSE IF c.class = "unspecified" \/ ~NoDupKeys(r.opts) THEN "unspecified" ELSE "dpkg-accepts"
        wf == scope = "dpkg-accepts"
    IN Checks("header-" \o scope \o (IF rec.ok THEN "-accepted" ELSE "-refused"),
       << <<rec.ok = m.ok, "the scanner model (ImplHeader) and changelog.ParseOne disagree on whether the header is accepted">>,
          <<(rec.ok /\ m.ok) => (rec.source = m.source /\ SameVersion(rec.ver, m.version) /\ rec.target = m.target /\ obsargs = m.args),
            "the scanner model (ImplHeader) and changelog.ParseOne disagree on a field of the header">>,
          <<wf => rec.ok, "a header that dpkg accepts is refused">>,
          <<(wf /\ rec.ok) => (rec.source = r.source /\ SameVersion(rec.ver, c.v) /\ WordsOf(rec.target, PerlSpace) = r.dists),
            "source, version or distributions of a header that dpkg accepts come out differently">>,
          <<(wf /\ rec.ok) => obsargs \ {EmptyPair} = {r.opts[n] : n \in 1..Len(r.opts)}, "the options of a header that dpkg accepts come out differently">>,
          <<(wf /\ rec.ok) => EmptyPair \notin obsargs, "metadata that is empty or ends in a comma adds the entry '' -> '' to Arguments">>,
          <<scope = "dpkg-rejects" => ~rec.ok, "a header line that dpkg refuses is accepted">> >>)

\* an I/O error of the source is an error of the read: it is reported by the constructor or by a Next, never lost
\* (15 = the number of bytes NewParagraphReader looks at to recognise an OpenPGP armor)
JSrcFault(rec) == Checks(IF rec.in.at < 15 THEN "source-fails-in-the-first-15-bytes" ELSE "source-fails-later",
                         << <<rec.reported, "a read error of the source is lost: reading goes on as if nothing had happened">> >>)

\* blanks between a field name and its colon are no part of the name (dpkg: "field name, optional white space, colon")
JColonBlank(rec) == Checks("blank-before-colon",
    << <<rec.ok_plain, "the plain document was rejected (harness)">>,
       <<rec.ok_blank, "a document with blanks between field names and colons was rejected">>,
       <<rec.ok_blank => rec.paras_blank = rec.paras_plain, "blanks between a field name and its colon change the paragraphs read (they end up in the name)">> >>)

\* the typed documents written again: Marshal of what a typed parser returned, parsed by the same parser, is the same document
JRemarshal(rec) ==
    IF ~rec.parsed \/ ~HasField(rec, "remarshal") THEN V(TRUE, "aux", "")
    ELSE Checks("remarshal-" \o rec.in.kind,
       << <<rec.remarshal.marshal_ok, "Marshal failed on a typed document that its parser returned">>,
          <<rec.remarshal.ok, "the marshalled typed document is rejected by its own parser">>,
          <<rec.remarshal.flat = rec.flat, "marshalling the typed document and parsing that text again does not give the same document">> >>)

JApi(rec) == LET want == ApiContract(rec.in.case) IN
    Checks("api-" \o rec.in.case,
       << <<~rec.panic, "a call of the reflection API panicked">>,
          <<want = "error" => rec.err, "a misuse of the reflection API is not reported as an error">>,
          <<want = "same" => (~rec.err /\ rec.equal), "two routes of the reflection API that should agree do not">> >>)

Judge(rec) ==
    CASE rec.ev = "vacc" -> JVacc(rec) [] rec.ev = "archs" -> JArchs(rec) [] rec.ev = "wild" -> JWild(rec)
      [] rec.ev = "byhash" -> JByHash(rec) [] rec.ev = "getdsc" -> JGetDsc(rec) [] rec.ev = "compressor" -> JCompressor(rec)
      [] rec.ev = "decompressor" -> JDecompressor(rec) [] rec.ev = "xzdict" -> JXz(rec) [] rec.ev = "loadfile" -> JLoadFile(rec)
      [] rec.ev = "filevariants" -> JFileVariants(rec) [] rec.ev = "clheader" -> JClHeader(rec) [] rec.ev = "srcfault" -> JSrcFault(rec) [] rec.ev = "colonblank" -> JColonBlank(rec) [] rec.ev = "doc" -> JRemarshal(rec) [] rec.ev = "api" -> JApi(rec) [] rec.ev = "keys" -> V(TRUE, "aux", "")
      [] OTHER -> V(FALSE, "unknown-event", "unknown event")

Init == l \in 1..Len(Trace) /\ verdict = Pending
Next == verdict.class = "pending" /\ verdict' = JudgeOrCrash(Trace[l], Judge) /\ UNCHANGED l
Spec == Init /\ [][Next]_vars
=============================================================================
