------------------------------ MODULE C13Trace ------------------------------
(* V mode for C13/C15 (ar level): judge iteration traces of deb.LoadAr/Next. *)
EXTENDS Ar, TraceLib
VARIABLES l, verdict
vars == <<l, verdict>>

JudgeAr(rec) ==
    LET ms == rec.in.members IN
    Guarded(IF ms = <<>> THEN "empty-archive" ELSE "wellformed",
       << <<~rec.panic, "panic">>,
          <<rec.in.bytes = RenderAr(ms, rec.in.gnu), "vector bytes are not the rendering of the model">>,
          <<Len(rec.steps) = Len(ms) + 1, "wrong number of members returned">> >>,
       <<
          <<IterationExact(rec.steps, ms), "member metadata, bytes or offsets differ from the archive">>,
          <<\A k \in 1..Len(ms) : ~rec.steps[k].read_err /\ ~rec.steps[k].seek_err, "member reader failed">>,
          <<Len(rec.late) = Len(ms) /\ \A k \in 1..Len(ms) : rec.late[k] = ms[k].data,
            "reader of an earlier member is not valid after the iterator advanced">>,
          <<Len(rec.late_meta) = Len(ms) /\ \A k \in 1..Len(ms) :
                rec.late_meta[k].name = ms[k].name /\ rec.late_meta[k].mode = (IF ms[k].blank THEN <<>> ELSE ms[k].mode) /\
                NumIsNat(rec.late_meta[k].size, Len(ms[k].data)),
            "metadata of an earlier member changed after the iterator advanced">> >>)

JudgeArBig(rec) ==
    LET ms == rec.in.members
        off[k \in 1..(Len(ms) + 1)] ==
            IF k = 1 THEN 8 ELSE off[k - 1] + 60 + ms[k - 1].size + (ms[k - 1].size % 2)
    IN Guarded(IF ms = <<>> THEN "empty-archive" ELSE "wellformed-large",
       << <<~rec.panic, "panic">>,
          <<Len(rec.steps) = Len(ms) + 1 /\ rec.steps[Len(rec.steps)].ret = "eof", "wrong number of members returned">> >>,
       <<
          <<\A k \in 1..Len(ms) :
               LET s == rec.steps[k]  m == ms[k] IN
               /\ s.ret = "member" /\ s.name = m.name /\ s.hdr_off = off[k]
               /\ NumIsNat(s.size, m.size) /\ s.delivered = m.size /\ s.data_ok
               /\ NumIs(s.mtime, m.mtime) /\ NumIs(s.uid, m.uid) /\ NumIs(s.gid, m.gid) /\ s.mode = m.mode,
            "member metadata, bytes or offsets differ from the archive">> >>)

JudgeRaw(rec) ==
    LET b == rec.in.bytes
        ms == MemberSteps(rec.steps)
        class == IF Len(ms) = 0 THEN "rejected-or-empty" ELSE "members-returned"
    IN Checks(class,
       << <<~rec.panic, "panic">>,
          <<rec.steps # <<>> /\ rec.steps[Len(rec.steps)].ret # "budget-exceeded", "iteration does not finish within one step per 60 bytes">>,
          <<IterationSafe(rec.steps, b), "unsafe iteration (offsets, magic, size or delivered bytes)">>,
          <<rec.steps2 = rec.steps, "loading the same bytes twice gives different outcomes">> >>)

\* a member of 4 GiB and more (its bytes are all 'Z'), then a three-byte member, then the end: sizes are compared as text
JudgeArSparse(rec) ==
    Guarded("wellformed-4GiB",
       << <<~rec.panic, "panic">>,
          <<rec.end = "eof" /\ Len(rec.members) = 2, "wrong number of members returned">> >>,
       << <<rec.members[1].name = <<98, 105, 103>> /\ rec.members[1].size = rec.in.size
            /\ rec.members[1].first = <<90, 90, 90, 90>> /\ rec.members[1].last = <<90, 90, 90, 90>>
            /\ rec.members[2].name = <<116, 97, 105, 108>> /\ rec.members[2].size = <<51>> /\ rec.members[2].first = <<120, 121, 122>>,
            "member metadata, bytes or offsets differ from the archive">> >>)

Judge(rec) ==
    CASE rec.ev = "ar" -> JudgeAr(rec)
      [] rec.ev = "arbig" -> JudgeArBig(rec)
      [] rec.ev = "arsparse" -> JudgeArSparse(rec)
      [] rec.ev = "arraw" -> JudgeRaw(rec)
      [] OTHER -> V(FALSE, "unknown-event", "unknown event")

Init == l \in 1..Len(Trace) /\ verdict = Pending
Next == verdict.class = "pending" /\ verdict' = JudgeOrCrash(Trace[l], Judge) /\ UNCHANGED l
Spec == Init /\ [][Next]_vars
=============================================================================
