------------------------------ MODULE C12Trace ------------------------------
(* V mode for C12: judge hashing writers/readers step by step, and verifiers. *)
EXTENDS HashIO, TraceLib
VARIABLES l, verdict
vars == <<l, verdict>>

Sum(seq, k) == LET f[i \in 0..k] == IF i = 0 THEN 0 ELSE f[i - 1] + seq[i] IN f[k]
Min(a, b) == IF a < b THEN a ELSE b

\* writers: after chunk k everything written so far reached the target and every hasher
JudgeHW(rec) ==
    LET algs == rec.in.algs  ch == rec.in.chunks IN
    Checks(IF Len(algs) = 1 THEN "one-hasher" ELSE "many-hashers",
       << <<rec.new_ok, "constructor failed for a known algorithm">>,
          <<Len(rec.steps) = Len(ch), "missing steps">>,
          <<\A k \in 1..Len(ch) : ~rec.steps[k].err /\ rec.steps[k].n = ch[k], "Write did not accept the whole chunk">>,
          <<\A k \in 1..Len(ch) : rec.steps[k].passed_len = Sum(ch, k) /\ rec.steps[k].passed_ok, "bytes did not pass through unchanged">>,
          <<rec.small => \A k \in 1..Len(ch) : rec.steps[k].passed = SubSeq(rec.stream, 1, Sum(ch, k)), "bytes did not pass through unchanged (small stream)">>,
          <<\A k \in 1..Len(ch) : rec.steps[k].names = algs, "hashers are not the requested algorithms in order">>,
          <<\A k \in 1..Len(ch) : \A h \in 1..Len(algs) : rec.steps[k].sizes[h] = Sum(ch, k), "reported size is not the stream length">>,
          <<\A k \in 1..Len(ch) : \A h \in 1..Len(algs) : rec.steps[k].sum_is[h] = algs[h], "reported digest is not the true digest of the stream">> >>)

\* readers: the consumer gets a prefix of the source, the hashers exactly what the consumer got
JudgeHR(rec) ==
    LET algs == rec.in.algs  bufs == rec.in.chunks  total == rec.in.total
        got[k \in 0..Len(bufs)] == IF k = 0 THEN 0 ELSE got[k - 1] + rec.steps[k].n
    IN Checks(IF Len(algs) = 1 THEN "one-hasher" ELSE "many-hashers",
       << <<rec.new_ok, "constructor failed for a known algorithm">>,
          <<Len(rec.steps) = Len(bufs), "missing steps">>,
          <<\A k \in 1..Len(bufs) : (("src" \in DOMAIN rec.in /\ rec.in.src = "transient") \/ ~rec.steps[k].err) /\ rec.steps[k].n <= bufs[k] /\ rec.steps[k].n >= 0, "Read failed or overran its buffer">>,
          <<\A k \in 1..Len(bufs) : rec.steps[k].passed_len = got[k] /\ got[k] <= total /\ rec.steps[k].passed_ok, "bytes did not pass through unchanged">>,
          <<\A k \in 1..Len(bufs) : (rec.steps[k].n = 0 /\ bufs[k] > 0) => got[k] = total, "reader stopped before the end of the stream">>,
          <<rec.small => \A k \in 1..Len(bufs) : rec.steps[k].passed = SubSeq(rec.stream, 1, got[k]), "bytes did not pass through unchanged (small stream)">>,
          <<\A k \in 1..Len(bufs) : rec.steps[k].names = algs, "hashers are not the requested algorithms in order">>,
          <<\A k \in 1..Len(bufs) : \A h \in 1..Len(algs) : rec.steps[k].sizes[h] = got[k], "reported size is not the length read so far">>,
          <<\A k \in 1..Len(bufs) : \A h \in 1..Len(algs) : rec.steps[k].sum_is[h] = algs[h], "reported digest is not the true digest of what was read">> >>)

\* verifier: accept iff the recorded hash is the true digest under the entry's own algorithm
JudgeVerifier(rec) ==
    LET own == rec.in.alg
        should == rec.hash_is = own               \* ground truth: does the recorded hash denote the content's digest?
        accepted == rec.new_ok /\ rec.close_ok
    IN Checks(IF should THEN "must-accept" ELSE "must-reject",
       << <<~rec.died, "Verifier() killed the process">>,
          <<rec.n_entries = 1, "the checksum field did not yield exactly one entry">>,
          <<rec.entry_alg = own, "entry is tagged with the wrong algorithm">>,
          <<should => accepted, "stream with the recorded digest was rejected">>,
          <<~should => ~accepted, "stream accepted although its digest differs from the recorded hash">>,
          <<rec.in.recorded = "equal" => rec.size_ok, "recorded size differs from the stream length">> >>)

\* one hasher used again and again: abstract state = the number of bytes written so far; every Sum and every entry
\* built from the hasher (by value) reports the true digest and the length of exactly those bytes
JudgeLife(rec) ==
    LET ops == rec.in.ops
        written[k \in 0..Len(ops)] == IF k = 0 THEN 0 ELSE written[k - 1] + ops[k].n
        Bad(k) == LET st == rec.steps[k] IN
                  CASE ops[k].op \in {"w", "ws"} -> st.err \/ st.n # ops[k].n
                    [] ops[k].op \in {"s", "sp"} -> st.sum_is # rec.in.alg \/ st.size # written[k]
                    [] ops[k].op = "e" -> st.sum_is # rec.in.alg \/ st.size # written[k] \/ st.entry_alg # rec.in.alg
        bad == {k \in 1..Len(ops) : Bad(k)}
    IN Checks("hasher-lifecycle",
       << <<rec.new_ok, "constructor failed for a known algorithm">>,
          <<Len(rec.steps) = Len(ops), "missing steps">>,
          <<Len(rec.steps) = Len(ops) => bad = {},
            "a hasher that is used again after Sum or after an entry was built from it no longer reports the true digest / length of the bytes written">> >>)

Judge(rec) ==
    CASE rec.ev = "hasher_life" -> JudgeLife(rec)
      [] rec.ev = "hw" -> JudgeHW(rec)
      [] rec.ev = "hr" -> JudgeHR(rec)
      [] rec.ev = "verifier" -> JudgeVerifier(rec)
      [] OTHER -> V(FALSE, "unknown-event", "unknown event")

Init == l \in 1..Len(Trace) /\ verdict = Pending
Next == verdict.class = "pending" /\ verdict' = JudgeOrCrash(Trace[l], Judge) /\ UNCHANGED l
Spec == Init /\ [][Next]_vars
=============================================================================
