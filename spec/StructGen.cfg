INIT GenInit
NEXT GenNext
