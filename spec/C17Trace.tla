------------------------------ MODULE C17Trace ------------------------------
(* V mode for C17: judge changelog.Parse / ParseOne on rendered changelogs,  *)
(* on every prefix of each, and on single-edit corruptions.                  *)
EXTENDS Changelog, TraceLib, LongTrace
VARIABLES l, verdict
vars == <<l, verdict>>

JudgeCL(rec) ==
    LET es == rec.in.entries
        b == rec.in.bytes
        ends == rec.in.ends
        n == Len(es)
        r == RenderChangelog(es, rec.in.lead, rec.in.gap, rec.in.final)
        cutsOK == {c \in 0..Len(b) : AllowedCut(b, ends, c, rec.cuts[c + 1])}
        \* at a boundary the entries returned are the first k entries of the full parse
        prefixSame == \A c \in 0..Len(b) :
                         (rec.cuts[c + 1].ok /\ rec.cuts[c + 1].n <= Len(rec.full.ids)) =>
                             rec.cuts[c + 1].ids = Upto(rec.full.ids, rec.cuts[c + 1].n)
        bad == (0..Len(b)) \ cutsOK
        \* ParseOne called repeatedly: n entries then end of input (or an error if only the final newline is missing)
        stepsOK == IF rec.in.final
                   THEN Len(rec.steps) = n + 1 /\ rec.steps[n + 1].ret = "eof" /\
                        \A k \in 1..n : rec.steps[k].ret = "entry" /\ rec.steps[k].id = rec.full.ids[k]
                   ELSE \/ Len(rec.steps) = n + 1 /\ rec.steps[n + 1].ret = "eof" /\ \A k \in 1..n : rec.steps[k].ret = "entry"
                        \/ Len(rec.steps) = n /\ rec.steps[n].ret = "err" /\ \A k \in 1..(n - 1) : rec.steps[k].ret = "entry"
    IN Checks("rendered",
       << <<b = r.bytes /\ ends = r.ends, "vector bytes are not the rendering of the model">>,
          <<~rec.full.panic /\ \A c \in 1..Len(rec.cuts) : ~rec.cuts[c].panic, "panic">>,
          <<rec.in.final => rec.full.ok, "well-formed changelog rejected">>,
          <<rec.full.ok => EntriesMatch(rec.full.entries, es), "entries differ from what is written in the changelog">>,
          <<\A c \in 0..Len(b) : CutClass(b, ends, c) # "inside-entry" \/ ~rec.cuts[c + 1].ok,
            "input ending inside an entry gave a silently shortened list">>,
          <<\A c \in 1..Len(rec.faults) : ~rec.faults[c].panic /\ (rec.faults[c].ok => rec.faults[c].n >= n),
            "a source that fails with an I/O error gave a silently shortened list">>,
          <<\A z \in 1..Len(rec.tz) : rec.tz[z].ok = rec.full.ok /\ rec.tz[z].ids = rec.full.ids,
            "the entries (their instants or zone offsets) depend on the time zone the process runs in">>,
          <<bad = {}, "a prefix of the changelog parsed to the wrong number of entries">>,
          <<prefixSame, "entries returned for a prefix differ from those of the full text">>,
          <<stepsOK, "repeated ParseOne does not deliver each entry and then end of input">> >>)

JudgeRaw(rec) ==
    Checks(IF rec.ok THEN "corrupted-accepted" ELSE "corrupted-rejected",
       << <<~rec.panic, "panic">>,
          <<rec.ok => rec.n >= rec.in.n, "corrupted changelog gave a silently shortened list">>,
          <<rec.same, "parsing the same text twice gives different results">> >>)

Judge(rec) ==
    CASE rec.ev = "cl" -> JudgeCL(rec)
      [] rec.ev = "clraw" -> JudgeRaw(rec)
      [] OTHER -> V(FALSE, "unknown-event", "unknown event")

Init == l \in 1..Len(Trace) /\ verdict = Pending
Next == verdict.class = "pending" /\ verdict' = JudgeOrCrash(Trace[l], LAMBDA r : IF IsLong(r) THEN JudgeLong(r) ELSE Judge(r)) /\ UNCHANGED l
Spec == Init /\ [][Next]_vars
=============================================================================
