INIT GenInit
NEXT GenNext
CONSTANTS
  Orders = {"avs"}
  Styles = {"min", "canon", "wide", "fold"}
  Mode = "c06"
  Kind = "x"
  MaxAlts = 3
  SetEntries = "all"
