------------------------------- MODULE GenLib -------------------------------
(* G mode plumbing: a generator module EXTENDS GenLib and states              *)
(*   ASSUME Emit(<sequence of vector records>)                                *)
(* TLC evaluates the ASSUME at start-up and writes the vectors as ndjson to   *)
(* the file named by the environment variable OUT_FILE.                       *)
EXTENDS Json, IOUtils, TLC, Sequences, Integers, FiniteSets, SequencesExt
OutFile == IOEnv.OUT_FILE
Emit(vectors) == ndJsonSerialize(OutFile, vectors)
VARIABLE dummy
GenInit == dummy = 0
GenNext == UNCHANGED dummy
=============================================================================
