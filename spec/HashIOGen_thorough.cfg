INIT GenInit
NEXT GenNext
CONSTANTS
  Chunkings = "all"
  Lens = {0, 1, 64, 200}
  LifeLen = 4
