SPECIFICATION Spec
CONSTANTS
  MaxLines = 5
INVARIANTS AllOrError Accepts FaultReported
PROPERTY Terminates
CHECK_DEADLOCK FALSE
