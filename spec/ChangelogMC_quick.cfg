SPECIFICATION Spec
CONSTANTS
  MaxLines = 5
INVARIANTS AllOrError Accepts
PROPERTY Terminates
CHECK_DEADLOCK FALSE
