SPECIFICATION Spec
CONSTANTS
  MaxLines = 3
  Mode = "write"
INVARIANT Holds
CHECK_DEADLOCK FALSE
