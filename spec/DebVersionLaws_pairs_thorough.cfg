SPECIFICATION Spec
INVARIANT Holds
CONSTANTS
  Alphabet = {48, 49, 57, 97, 90, 126, 43, 46}
  MaxLen = 3
  Mode = "pairs"
CHECK_DEADLOCK FALSE
