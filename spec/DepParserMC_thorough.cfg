SPECIFICATION Spec
CONSTANTS
  Alphabet = {97, 32, 44, 124, 40, 41, 91, 93, 60, 62, 33, 61, 58, 36, 123, 125, 49, 10}
  MaxLen = 4
INVARIANT Holds
CHECK_DEADLOCK FALSE
