INIT GenInit
NEXT GenNext
CONSTANTS
  Orders = {"avs", "sva"}
  Styles = {"min", "canon", "wide", "fold"}
  Mode = "dep"
  Kind = "dep_rt"
  MaxAlts = 1
  SetEntries = "few"
