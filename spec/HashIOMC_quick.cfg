SPECIFICATION Spec
CONSTANTS
  MaxUnits = 3
INVARIANTS PassThrough HashersSeeStream VerifierIff
CHECK_DEADLOCK FALSE
