------------------------------- MODULE DebDocs -------------------------------
(***************************************************************************)
(* Typed Debian documents (.dsc, .changes, debian/control paragraphs,      *)
(* Packages and Sources stanzas): a document MODEL assigns a value to each *)
(* field of the kind's table (DebDocsTables), RenderDoc writes it in the   *)
(* real Debian layout, Expected is the typed view a faithful parser        *)
(* returns (flat: key -> value).                                           *)
(*                                                                         *)
(* value kinds and their layout                                            *)
(*   scalar/version/arch/int/bool  one line                                *)
(*   mstring   lines: "F: l1\n l2\n .\n l4"                                *)
(*   archs     space-separated names on one line                           *)
(*   dep       relations joined ", " (or folded ",\n ")                    *)
(*   clist     elements joined ", " (or folded ",\n ")                     *)
(*   slist     elements joined " " (or folded "\n ")                       *)
(*   cslist    elements joined ", " (or folded ",\n ")                     *)
(*   sums:alg  one " hash size name" line per file                         *)
(*   chfiles   one " hash size section priority name" line per file        *)
(***************************************************************************)
EXTENDS Deb822, DebDocsTables

IsList(kind) == kind \in {"archs", "dep", "clist", "slist", "cslist", "mstring", "sums:md5", "sums:sha1", "sums:sha256", "sums:sha512", "chfiles"}
\* model: [present : SUBSET field indices, n : list length used, folded : BOOLEAN]
ModelValue(row, n) == IF row[3] = "scalar-n" THEN row[4][n]            \* a scalar with one text per n
                      ELSE IF IsList(row[3]) /\ row[3] # "mstring" THEN SubSeq(row[4], 1, n) ELSE row[4]

CommaSep(folded) == IF folded THEN <<COMMA, LF, SP>> ELSE <<COMMA, SP>>
RenderValue(kind, v, folded) ==
    CASE kind \in {"scalar", "scalar-n", "version", "arch", "int", "bool"} -> <<SP>> \o v
      [] kind = "mstring" -> <<SP>> \o v[1] \o Concat([k \in 1..(Len(v) - 1) |-> <<LF, SP>> \o (IF v[k + 1] = <<>> THEN <<DOT>> ELSE v[k + 1])])
      [] kind = "archs" -> <<SP>> \o Join(v, <<SP>>)
      [] kind \in {"dep", "clist", "cslist"} -> <<SP>> \o Join(v, CommaSep(folded))
      [] kind = "slist" -> <<SP>> \o Join(v, IF folded THEN <<LF, SP>> ELSE <<SP>>)
      [] kind \in {"sums:md5", "sums:sha1", "sums:sha256", "sums:sha512"} ->
            Concat([k \in 1..Len(v) |-> <<LF, SP>> \o v[k][1] \o <<SP>> \o v[k][2] \o <<SP>> \o v[k][3]])
      [] kind = "chfiles" ->
            Concat([k \in 1..Len(v) |-> <<LF, SP>> \o v[k][1] \o <<SP>> \o v[k][2] \o <<SP>> \o v[k][3] \o <<SP>> \o v[k][4] \o <<SP>> \o v[k][5]])
\* a field with an empty list is simply not written (Debian never writes "Files:" with nothing below)
Writes(row, m) == LET v == ModelValue(row, m.n) IN ~(IsList(row[3]) /\ v = <<>>)
RenderDoc(kind, m) ==
    LET t == FieldTable(kind) IN
    Concat([i \in 1..Len(t) |->
              IF i \in m.present /\ Writes(t[i], m) THEN t[i][1] \o <<COLON>> \o RenderValue(t[i][3], ModelValue(t[i], m.n), m.folded) \o <<LF>>
              ELSE <<>>])

AlgOf(kind) == CASE kind = "sums:md5" -> "md5" [] kind = "sums:sha1" -> "sha1" [] kind = "sums:sha256" -> "sha256" [] kind = "sums:sha512" -> "sha512" [] kind = "chfiles" -> "md5"
\* the typed view of one field; absent fields have the zero value of their kind
Zero(kind) == CASE kind = "int" -> 0 [] kind = "bool" -> FALSE
                [] kind \in {"scalar", "version", "arch", "dep", "mstring"} -> <<>> [] OTHER -> <<>>
ExpectedField(kind, v) ==
    CASE kind = "int" -> DigitsVal(v)
      [] kind = "bool" -> v = <<121, 101, 115>>
      [] kind = "dep" -> Join(v, <<COMMA, SP>>)
      [] kind = "mstring" -> v                      \* compared as lines
      [] kind \in {"sums:md5", "sums:sha1", "sums:sha256", "sums:sha512"} -> [k \in 1..Len(v) |-> <<AlgOf(kind), v[k][1], v[k][2], v[k][3]>>]
      [] kind = "chfiles" -> [k \in 1..Len(v) |-> <<"md5", v[k][1], v[k][2], v[k][5], v[k][3], v[k][4]>>]
      [] OTHER -> v
FieldAgrees(kind, got, present, v) ==
    IF ~present THEN (IF kind = "mstring" THEN got = <<>> ELSE got = Zero(kind))
    ELSE IF kind = "mstring" THEN ValueLines(got) = v
    ELSE got = ExpectedField(kind, v)
=============================================================================
