SPECIFICATION Spec
CONSTANTS
  MaxLines = 6
INVARIANTS AllOrError Accepts
PROPERTY Terminates
CHECK_DEADLOCK FALSE
