SPECIFICATION Spec
CONSTANTS
  MaxLines = 6
INVARIANTS AllOrError Accepts FaultReported
PROPERTY Terminates
CHECK_DEADLOCK FALSE
