------------------------------ MODULE C04Trace ------------------------------
(* V mode for C04-C06: judge observations of pault.ag/go/debian/dependency. *)
EXTENDS DebDependency, TraceLib
VARIABLES l, verdict
vars == <<l, verdict>>

\* ---- C04: parse ------------------------------------------------------------
JudgeDep(rec) ==
    LET p == RefParse(rec.in.text)
        class == IF p.class = "unspecified"
                 THEN (IF rec.res.ok THEN "unspecified-accepted" ELSE "unspecified-rejected")
                 ELSE p.class
    IN Checks(class,
       << <<~rec.panic, "panic">>,
          <<p.class = "accept" => rec.res.ok, "valid relationship field rejected">>,
          <<(p.class = "accept" /\ rec.res.ok) => rec.res.ast = p.ast, "parsed structure differs from what the field denotes">>,
          <<p.class = "reject" => ~rec.res.ok, "malformed relationship field accepted">>,
          <<~rec.res.ok => rec.res.nil, "a result was returned together with an error">>,
          <<rec.res_control.ok = rec.res.ok /\ (rec.res.ok => rec.res_control.ast = rec.res.ast),
            "UnmarshalControl disagrees with Parse">>,
          <<rec.dirty_control.ok = rec.res.ok /\ (rec.res.ok => rec.dirty_control.ast = rec.res.ast),
            "UnmarshalControl into a value that already held relations does not give the field's own relations">>,
          <<rec.res.ok => (rec.kept_after.ok /\ rec.kept_after.ast = rec.res.ast),
            "a value decoded earlier and kept changed when its receiver decoded another field">>,
          <<rec.res.ok => (rec.independent.ok /\ rec.independent.ast = rec.res.ast),
            "two parses of one text share state: editing the first value changed the second">> >>)

\* ---- C05: render / re-parse fixpoint ------------------------------------------
JudgeDepRT(rec) ==
    IF ~rec.res.ok THEN V(TRUE, "unspecified-rejected", "")
    ELSE LET pr == RefParse(rec.rt.r) IN
    Checks(IF rec.res.ast = <<>> THEN "trivial" ELSE "accepted",
       << <<~rec.panic, "panic">>,
          <<rec.rt.same_control, "MarshalControl differs from String()">>,
          <<rec.rt.back.ok, "rendered form is not accepted by the parser">>,
          <<rec.rt.back.ok => rec.rt.back.ast = rec.res.ast, "rendered form parses to a different value">>,
          <<rec.kept_after.ok /\ rec.kept_after.ast = rec.res.ast,
            "a value decoded earlier and kept no longer renders / parses to the same value after its receiver decoded another field">>,
          <<rec.independent.ok /\ rec.independent.ast = rec.res.ast, "two parses of one text share state: editing the first value changed the second">>,
          <<rec.dirty_control.ok /\ rec.dirty_control.ast = rec.res.ast,
            "decoding the field into a value that already held relations gives another value than parsing it">>,
          <<pr.class # "reject", "rendered form is a malformed relationship field">>,
          <<pr.class = "accept" => pr.ast = rec.res.ast, "rendered form denotes a different value (reference parser)">> >>)

JudgeArchRT(rec) ==
    IF ~rec.ok THEN V(TRUE, "unspecified-rejected", "")
    ELSE Checks("arch-name",
       << <<rec.ok2, "rendered architecture name is rejected">>,
          <<rec.t2 = rec.t1, "architecture widened or narrowed by a parse/render/parse round trip">>,
          <<rec.same_control \/ rec.t1 = Triple(<<>>, <<>>, <<>>), "MarshalControl differs from String()">>,     \* (the zero Arch is an unset field: marshalled as "")
          <<rec.via_control.ok /\ rec.via_control.t = rec.t1, "UnmarshalControl disagrees with ParseArch">>,
          <<rec.t1 = RefArchTriple(rec.in.name), "architecture name parsed to the wrong (abi, os, cpu)">> >>)

\* ---- C06 ------------------------------------------------------------------------
JudgeIs(rec) ==
    LET m == Match(rec.in.x, rec.in.y) IN
    Checks(IF m.some THEN "pinned" ELSE "wildcard-pair",
       << <<rec.r_xy = rec.r_yx, "matching is not symmetric">>,
          <<m.some => rec.r_xy = m.v, "match result differs from Debian semantics">>,
          <<rec.parsed.some => (rec.parsed.tx = rec.in.x /\ rec.parsed.ty = rec.in.y), "canonical name parsed to a different architecture">>,
          <<rec.parsed.some => (rec.parsed.r_xy = rec.r_xy /\ rec.parsed.r_yx = rec.r_yx), "parsed architectures match differently">>,
          <<rec.parsed.some => (rec.uc.some /\ rec.uc.tx = rec.in.x /\ rec.uc.ty = rec.in.y /\ rec.uc.r_xy = rec.r_xy /\ rec.uc.r_yx = rec.r_yx),
            "architectures read by UnmarshalControl denote or match differently">>,
          <<rec.parsed.some => (rec.uc_dirty.some /\ rec.uc_dirty.tx = rec.in.x /\ rec.uc_dirty.ty = rec.in.y /\ rec.uc_dirty.r_xy = rec.r_xy /\ rec.uc_dirty.r_yx = rec.r_yx),
            "architectures read by UnmarshalControl into values that held another architecture denote or match differently">> >>)

JudgeSet(rec) ==
    IF ~SetPinned(rec.in.set, rec.in.a) THEN V(TRUE, "unspecified", "")
    ELSE Checks(IF rec.in.set.list = <<>> THEN "empty-list" ELSE IF rec.in.set.not THEN "negated" ELSE "positive",
       << <<rec.r = SetAdmits(rec.in.set, rec.in.a), "architecture list admits/rejects wrongly">> >>)

JudgeSelect(rec) ==
    LET dep == rec.in.dep
        sel == Select(dep, rec.in.a)
        want == [k \in 1..Len(SelectSeq([r \in 1..Len(dep) |-> r], LAMBDA r : sel[r] # 0)) |->
                   LET r == SelectSeq([q \in 1..Len(dep) |-> q], LAMBDA q : sel[q] # 0)[k] IN dep[r][sel[r]].name]
        flat == Concat([r \in 1..Len(dep) |-> [k \in 1..Len(dep[r]) |-> dep[r][k]]])
        wantAll == [k \in 1..Len(SelectSeq(flat, LAMBDA p : ~p.substvar)) |-> SelectSeq(flat, LAMBDA p : ~p.substvar)[k].name]
        wantSub == [k \in 1..Len(SelectSeq(flat, LAMBDA p : p.substvar)) |-> SelectSeq(flat, LAMBDA p : p.substvar)[k].name]
    IN Checks("selection",
       << <<rec.poss = want, "possibilities selected for the architecture are wrong">>,
          <<rec.all = wantAll, "GetAllPossibilities wrong">>,
          <<rec.subst = wantSub, "GetSubstvars wrong">>,
          <<rec.parsed.some, "canonical text of the dependency was rejected">>,
          <<rec.parsed.some => (rec.parsed.poss = want /\ rec.parsed.all = wantAll /\ rec.parsed.subst = wantSub),
            "selection on the parsed dependency is wrong">> >>)

JudgeSat(rec) ==
    LET cn == Classify(rec.in.n)
        v == [e |-> rec.in.v.e, u |-> rec.in.v.u, r |-> rec.in.v.r]
    IN IF cn.class = "unspecified" THEN V(TRUE, "unspecified", "")
       ELSE IF cn.class = "reject" \/ ~KnownOp(rec.in.op)
            THEN Checks("never", << <<~rec.r, "constraint with unparsable version or unknown operator reported satisfied">> >>)
       ELSE Checks("decided", << <<rec.r = OpHolds(rec.in.op, Compare(v, cn.v)), "version constraint evaluated wrongly">> >>)

Judge(rec) ==
    CASE rec.ev = "dep" -> JudgeDep(rec)
      [] rec.ev = "dep_rt" -> JudgeDepRT(rec)
      [] rec.ev = "arch_rt" -> JudgeArchRT(rec)
      [] rec.ev = "is" -> JudgeIs(rec)
      [] rec.ev = "setmatch" -> JudgeSet(rec)
      [] rec.ev = "select" -> JudgeSelect(rec)
      [] rec.ev = "sat" -> JudgeSat(rec)
      [] OTHER -> V(FALSE, "unknown-event", "unknown event")

Init == l \in 1..Len(Trace) /\ verdict = Pending
Next == verdict.class = "pending" /\ verdict' = JudgeOrCrash(Trace[l], Judge) /\ UNCHANGED l
Spec == Init /\ [][Next]_vars
=============================================================================
