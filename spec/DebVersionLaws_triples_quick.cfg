SPECIFICATION Spec
INVARIANT Holds
CONSTANTS
  Alphabet = {48, 49, 97, 126, 46}
  MaxLen = 2
  Mode = "triples"
CHECK_DEADLOCK FALSE
