----------------------------- MODULE VersionGen -----------------------------
(* G mode for C01-C03: bounded-exhaustive vectors for the version package.   *)
EXTENDS DebVersion, GenLib
CONSTANTS Alphabet, MaxLen, Mode

Strings == SeqsUpTo(Alphabet, MaxLen)

\* C01: the domain of part strings; the driver compares every ordered pair
DomainVec == << [k |-> "allpairs", dom |-> SetToSeq(Strings)] >>

\* C01: structured (epoch, upstream, revision) triples, all ordered pairs
Epochs == {<<48>>, <<49>>, <<49, 48>>}
Ups == {<<49>>} \cup {<<49>> \o s : s \in Strings \ {<<>>}} \cup {s \o <<49>> : s \in {t \in Strings : t # <<>> /\ t[1] \in 48..57}}
Revs == {<<>>, <<48>>, <<49>>, <<126>>}
Vers == {[e |-> e, u |-> u, r |-> r] : e \in Epochs, u \in Ups, r \in Revs}
Literals == { [e |-> <<48>>, u |-> <<49, 46, 48, 126, 114, 99, 49>>, r |-> <<>>],   \* 1.0~rc1
              [e |-> <<48>>, u |-> <<49, 46, 48>>, r |-> <<>>],                       \* 1.0
              [e |-> <<48>>, u |-> <<49, 46, 48, 43, 98, 49>>, r |-> <<>>],           \* 1.0+b1
              [e |-> <<48>>, u |-> <<49, 46, 48>>, r |-> <<48>>] }                     \* 1.0-0
\* upstream parts with hyphens and colons inside (legal when a revision / an epoch is written): "1-1" vs "1", "1:0-1" ...
HyUps == {<<49>> \o s : s \in SeqsUpTo({48, 49, HYPHEN, COLON}, 2)}
HyVers == {[e |-> <<48>>, u |-> u, r |-> r] : u \in HyUps, r \in {<<>>, <<49>>}}
\* epochs at the boundaries of the machine integer types (the field is an unsigned machine word; the parser stops
\* at 2^63-1, a caller may set more): 0, 1, 2^31-1, 2^31, 2^32, 2^63-1, 2^63, 2^64-1
Dg(s) == [i \in 1..Len(s) |-> 48 + s[i]]
BigEpochs == {<<48>>, <<49>>, Dg(<<2,1,4,7,4,8,3,6,4,7>>), Dg(<<2,1,4,7,4,8,3,6,4,8>>), Dg(<<4,2,9,4,9,6,7,2,9,6>>),
              Dg(<<9,2,2,3,3,7,2,0,3,6,8,5,4,7,7,5,8,0,7>>), Dg(<<9,2,2,3,3,7,2,0,3,6,8,5,4,7,7,5,8,0,8>>),
              Dg(<<1,8,4,4,6,7,4,4,0,7,3,7,0,9,5,5,1,6,1,5>>)}
BigEpochVers == {[e |-> e, u |-> u, r |-> <<>>] : e \in BigEpochs, u \in {<<49>>, <<50>>}}
\* version TEXTS whose epochs carry leading zeros (decimal all the same: 010 is ten, 08 is eight), every ordered pair
EpochTexts == {e \o <<COLON, 49, 46, 48, HYPHEN, 49>> : e \in {<<48, 49, 48>>, <<57>>, <<49, 48>>, <<48, 48, 49, 48>>, <<48, 56>>, <<56>>, <<48, 48>>, <<48, 49, 55>>, <<49, 53>>}}
              \cup {<<49, 46, 48, HYPHEN, 49>>}
TextVecs == SetToSeq({[k |-> "cmp_text", ta |-> a, tb |-> b] : a \in EpochTexts, b \in EpochTexts})
\* long digit runs that share a long prefix and differ in their length or last digits: 1.1 followed by 39, 40, 41 zeros,
\* by 39 zeros and a 5, 10^40 and 10^41 as revisions; the same behind a 35-byte common lead-in
Zs(n) == [i \in 1..n |-> 48]
LongNums == {<<49, 46, 49>> \o Zs(n) : n \in {39, 40, 41}} \cup {<<49, 46, 49>> \o Zs(39) \o <<53>>, <<49, 46, 49>> \o Zs(40) \o <<53>>}
LongVers == {[e |-> <<48>>, u |-> u, r |-> <<>>] : u \in LongNums} \cup {[e |-> <<48>>, u |-> <<49>>, r |-> <<49>> \o Zs(n)] : n \in {39, 40, 41}}
            \cup {[e |-> <<48>>, u |-> <<50, 46>> \o [i \in 1..33 |-> 97] \o <<49>> \o Zs(n), r |-> <<>>] : n \in {15, 16, 17, 31, 32, 33}}
CmpVecs == SetToSeq({[k |-> "cmp", a |-> a, b |-> b] : a \in LongVers, b \in LongVers}) \o SetToSeq({[k |-> "cmp", a |-> a, b |-> b] : a \in Vers \cup Literals, b \in Vers \cup Literals})
           \o SetToSeq({[k |-> "cmp", a |-> a, b |-> b] : a \in HyVers, b \in HyVers})
           \o SetToSeq({[k |-> "cmp", a |-> a, b |-> b] : a \in BigEpochVers, b \in BigEpochVers})
           \o TextVecs

\* C03: every string over the alphabet
\* characters beyond U+00FF whose LOW BYTE is a letter or digit (U+0131 -> '1', U+0141 -> 'A', U+0431 -> '1', U+4E30 -> '0'),
\* as UTF-8, in the revision and in the upstream part: outside the Policy alphabet all the same
UniChars == {<<196, 177>>, <<197, 129>>, <<208, 177>>, <<228, 184, 176>>, <<239, 188, 145>>}
UniTexts == {<<49, 46, 48, HYPHEN>> \o c \o <<49>> : c \in UniChars} \cup {<<49, 46, 48, HYPHEN, 49>> \o c \o <<98, 50>> : c \in UniChars}
            \cup {<<49, 46, 48, HYPHEN>> \o c : c \in UniChars}                  \* (at the very end: unspecified, it might be white space)
            \cup {<<49>> \o c \o <<HYPHEN, 49>> : c \in UniChars} \cup {<<50, COLON, 49, 46>> \o c \o <<46, 51>> : c \in UniChars}
ParseVecs == SetToSeq({[k |-> "parse", s |-> s] : s \in Strings \cup UniTexts})

ASSUME Emit(CASE Mode = "domain" -> DomainVec
              [] Mode = "cmp" -> CmpVecs
              [] Mode = "parse" -> ParseVecs)
=============================================================================
