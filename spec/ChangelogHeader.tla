--------------------------- MODULE ChangelogHeader ---------------------------
\* The first line of a changelog entry (deb-changelog(5)):
\*     package (version) distribution(s); metadata
\* Ref layer  : RefHeader - the grammar as dpkg's Dpkg::Changelog reads it
\*              (written from the manual page and dpkg's regular
\*              expression, NOT from the Go code):
\*   ^(\w[-+0-9a-z.]*) \(([^\(\) \t]+)\)((?:\s+[-+0-9a-z.]+)+)\;(.*?)\s*$
\*              metadata = items split at \s*,\s* , each
\*              ^([-0-9a-z]+)\=\s*(.*\S)$  (case-insensitive)
\* Impl layer : ImplHeader - changelog.ParseOne's header scanner
\*              (partition at the first ';', '(' and ')', trim, split the
\*              options at ',', partition each at '='), transcribed.
\* Growth specification (DESIGN 7): no listed property anchors the header
\* grammar beyond C17's well-formed entries.  ChangelogHeaderMC checks
\* Impl against Ref for every token string up to a bound; the growth
\* pipeline binds Impl to the code (one observation per header) and Ref to
\* both.
EXTENDS DebVersion, FiniteSets

SEMI == 59  UNDERSCORE == 95
NameChar(c) == IsAlnum(c) \/ c \in {HYPHEN, PLUS, DOT}     \* [-+0-9a-z.] , case-insensitive
WordChar(c) == IsAlnum(c) \/ c = UNDERSCORE                 \* \w
KeyChar(c)  == IsAlnum(c) \/ c = HYPHEN                      \* [-0-9a-z]
\* Perl's \s on bytes (no LF inside a line here, but it is white space all the same)
PerlSpace == {9, 10, 11, 12, 13, 32}

\* words of s, split at runs of bytes of S
RECURSIVE WordsOfFrom(_, _, _, _)
WordsOfFrom(s, i, S, acc) ==
    LET a == LeftIdx(s, i, S) IN
    IF a > Len(s) THEN acc
    ELSE LET b == FindFrom(s, a, S) IN WordsOfFrom(s, b, S, Append(acc, Slice(s, a, b - 1)))
WordsOf(s, S) == WordsOfFrom(s, 1, S, <<>>)

NoHeader == [ok |-> FALSE, source |-> <<>>, vtext |-> <<>>, dists |-> <<>>, opts |-> <<>>, optsok |-> FALSE]

\* ---- Ref -------------------------------------------------------------------
\* split at \s*,\s* : pieces between commas, each trimmed (Perl's split drops trailing empty pieces)
RECURSIVE DropTrailingEmpty(_)
DropTrailingEmpty(ps) == IF ps # <<>> /\ ps[Len(ps)] = <<>> THEN DropTrailingEmpty(Upto(ps, Len(ps) - 1)) ELSE ps
RefItems(text) ==
    LET t == TrimLeftSet(text, PerlSpace)
        raw == Split(t, COMMA)
    IN IF t = <<>> THEN <<>> ELSE DropTrailingEmpty([k \in 1..Len(raw) |-> TrimSet(raw[k], PerlSpace)])
\* one item ^([-0-9a-z]+)\=\s*(.*\S)$
RefItem(item) ==
    LET e == IndexOf(item, EQ)
        key == IF e = 0 THEN <<>> ELSE Upto(item, e - 1)
        val == IF e = 0 THEN <<>> ELSE TrimSet(From(item, e + 1), PerlSpace)
    IN [ok |-> e > 1 /\ AllOf(key, KeyChar) /\ val # <<>>, kv |-> <<key, val>>]
\* the first character is \w, which admits '_' where the other characters do not
RefSourceOK(source) == source # <<>> /\ WordChar(source[1]) /\ AllOf(From(source, 2), NameChar)
RefHeader(line) ==
    LET i == IndexOf(line, SP)
        source == Upto(line, i - 1)
        j == IndexFrom(line, i + 2, RPAREN)
        vtext == Slice(line, i + 2, j - 1)
        k == IndexFrom(line, j + 1, SEMI)
        mid == Slice(line, j + 1, k - 1)
        rest == TrimRightSet(From(line, k + 1), PerlSpace)
        items == RefItems(rest)
        parsed == [n \in 1..Len(items) |-> RefItem(items[n])]
    IN IF i < 2 \/ ~RefSourceOK(source) THEN NoHeader
       ELSE IF i + 1 > Len(line) \/ line[i + 1] # LPAREN THEN NoHeader
       ELSE IF j = 0 \/ vtext = <<>> \/ AnyOf(vtext, LAMBDA c : c \in {LPAREN, RPAREN, SP, TAB}) THEN NoHeader
       ELSE IF k = 0 \/ mid = <<>> \/ mid[1] \notin PerlSpace \/ ~NameChar(mid[Len(mid)])
               \/ ~AllOf(mid, LAMBDA c : c \in PerlSpace \/ NameChar(c)) THEN NoHeader
       ELSE [ok |-> TRUE, source |-> source, vtext |-> vtext, dists |-> WordsOf(mid, PerlSpace),
             opts |-> [n \in 1..Len(parsed) |-> parsed[n].kv],
             optsok |-> \A n \in 1..Len(parsed) : parsed[n].ok]

\* ---- Impl ------------------------------------------------------------------
GoTrimSet == {LF, CR, TAB, SP}                          \* strings.Trim(line, "\n\r\t ")
GoTrim(s) == TrimSet(s, GoTrimSet)
\* partition(line, delim) for a one-byte delimiter: (before, after), or (line, "") when it does not occur
Partition(s, c) == LET i == IndexOf(s, c) IN IF i = 0 THEN <<s, <<>>>> ELSE <<Upto(s, i - 1), From(s, i + 1)>>
ImplHeader(line) ==
    LET po == Partition(line, SEMI)
        ps == Partition(po[1], LPAREN)
        pv == Partition(ps[2], RPAREN)
        ver == ImplParse(GoTrim(pv[1]))
        entries == Split(po[2], COMMA)
        kvs == [n \in 1..Len(entries) |-> LET p == Partition(GoTrim(entries[n]), EQ) IN <<GoTrim(p[1]), GoTrim(p[2])>>]
    IN IF line = <<>> \/ line[1] = SP THEN [ok |-> FALSE]      \* a blank line is skipped, a line led by a blank is "Unexpected line"
       ELSE IF ~ver.ok THEN [ok |-> FALSE]
       ELSE [ok |-> TRUE, source |-> GoTrim(ps[1]), version |-> ver.v, target |-> GoTrim(pv[2]),
             \* a Go map: the last entry of a key wins
             args |-> {kvs[n] : n \in {m \in 1..Len(kvs) : \A m2 \in (m + 1)..Len(kvs) : kvs[m2][1] # kvs[m][1]}}]

\* ---- the relation between the two --------------------------------------------
\* what a reader of deb-changelog(5) expects of a header dpkg accepts (with a version Policy accepts)
VersionOf(vtext) == Classify(vtext)
NoDupKeys(opts) == \A a, b \in 1..Len(opts) : opts[a][1] = opts[b][1] => a = b
EmptyPair == <<<<>>, <<>>>>
Faithful(line) ==
    LET r == RefHeader(line)  m == ImplHeader(line)  c == VersionOf(r.vtext) IN
    (r.ok /\ r.optsok /\ c.class = "wellformed" /\ NoDupKeys(r.opts)) =>
        /\ m.ok
        /\ m.source = r.source
        /\ SameVersion(m.version, c.v)
        /\ WordsOf(m.target, PerlSpace) = r.dists
        /\ m.args \ {EmptyPair} = {r.opts[n] : n \in 1..Len(r.opts)}
\* the one place where a header dpkg accepts comes out differently: metadata that is empty, or that ends in a comma, adds
\* the entry "" -> "" to the map (dpkg drops empty items at the end)
EndsInEmptyItem(line) == LET t == TrimSpace(From(line, IndexOf(line, SEMI) + 1)) IN t = <<>> \/ t[Len(t)] = COMMA
EmptyItem(line) ==
    LET r == RefHeader(line)  m == ImplHeader(line) IN
    (r.ok /\ r.optsok /\ VersionOf(r.vtext).class = "wellformed") => (m.ok /\ (EmptyPair \in m.args <=> EndsInEmptyItem(line)))
\* classes of headers the scanner accepts although dpkg does not
Lenient(line) == ImplHeader(line).ok /\ ~(RefHeader(line).ok /\ RefHeader(line).optsok)
=============================================================================
