INIT GenInit
NEXT GenNext
CONSTANTS
  Orders = {"avs", "sva", "vas", "vsa", "asv", "sav"}
  Styles = {"min", "canon", "wide", "fold"}
  Mode = "dep"
  Kind = "dep"
  MaxAlts = 1
  SetEntries = "few"
