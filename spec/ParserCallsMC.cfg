SPECIFICATION Spec
CONSTANTS
  Goroutines <- MCGoroutines
  Calls <- MCCalls
  Inputs <- MCInputs
  Outcomes <- MCOutcomes
  Baseline <- MCBaseline
  None = None
CONSTRAINT Bound
CHECK_DEADLOCK FALSE
