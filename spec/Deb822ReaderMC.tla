--------------------------- MODULE Deb822ReaderMC ---------------------------
(***************************************************************************)
(* Impl layer for C07: ParagraphReader.Next (control/parse.go:175-264) as  *)
(* a state machine, one action per loop iteration (= one raw line), with   *)
(* the per-call locals (paragraph, lastKey) reset at every Next() call and *)
(* the reader position surviving across calls.  TLC checks over all token  *)
(* sequences x EOL x final-newline:                                        *)
(*   Refines    : at the end, well-formed documents yield exactly RefRead  *)
(*   Invariant  : every returned paragraph lists each field once and has a *)
(*                value for exactly the fields it lists (ANY input)        *)
(*   Progress   : every step consumes a line or ends a call                *)
(***************************************************************************)
EXTENDS Deb822, Deb822Tokens, TLC
CONSTANTS MaxToks, Toks
VARIABLES doc, raw, pos, order, vals, lastKey, out, st, steps
vars == <<doc, raw, pos, order, vals, lastKey, out, st, steps>>

\* raw lines as bufio.ReadString('\n') delivers them, minus the LF
Init == /\ \E ts \in TokSeqs(MaxToks, Toks), crlf \in BOOLEAN, final \in BOOLEAN :
             doc = Doc(ts, crlf, final)
        /\ raw = Lines(doc)
        /\ pos = 1 /\ order = <<>> /\ vals = <<>> /\ lastKey = <<>> /\ out = <<>>
        /\ st = "running" /\ steps = 0

ParaNow == [order |-> order, values |-> vals]
SetVal(vs, k, v) == IF \E i \in 1..Len(vs) : vs[i][1] = k
                    THEN [i \in 1..Len(vs) |-> IF vs[i][1] = k THEN <<k, v>> ELSE vs[i]]
                    ELSE Append(vs, <<k, v>>)
GetVal(vs, k) == IF \E i \in 1..Len(vs) : vs[i][1] = k
                 THEN vs[CHOOSE i \in 1..Len(vs) : vs[i][1] = k][2] ELSE <<>>
Return == /\ out' = Append(out, ParaNow)
          /\ order' = <<>> /\ vals' = <<>> /\ lastKey' = <<>>     \* next Next() call starts afresh

AtEof == pos > Len(raw)
Line == raw[pos]
IsBlankRaw(l) == l = <<>> \/ l = <<CR>>

EofPending == /\ st = "running" /\ AtEof /\ order # <<>>
              /\ Return /\ UNCHANGED <<pos, st>>
EofEmpty   == /\ st = "running" /\ AtEof /\ order = <<>>
              /\ st' = "eof" /\ UNCHANGED <<pos, order, vals, lastKey, out>>
BlankSkip  == /\ st = "running" /\ ~AtEof /\ IsBlankRaw(Line) /\ order = <<>>
              /\ pos' = pos + 1 /\ UNCHANGED <<order, vals, lastKey, out, st>>
BlankEnd   == /\ st = "running" /\ ~AtEof /\ IsBlankRaw(Line) /\ order # <<>>
              /\ pos' = pos + 1 /\ Return /\ UNCHANGED st
Comment    == /\ st = "running" /\ ~AtEof /\ ~IsBlankRaw(Line) /\ Line[1] = HASH
              /\ pos' = pos + 1 /\ UNCHANGED <<order, vals, lastKey, out, st>>
IsCont == ~AtEof /\ ~IsBlankRaw(Line) /\ Line[1] \in {SP, TAB}
\* (after fix) a continuation line before any field of this paragraph is an error
OrphanCont == /\ st = "running" /\ IsCont /\ order = <<>>
              /\ st' = "err" /\ UNCHANGED <<pos, order, vals, lastKey, out>>
Continuation ==
    /\ st = "running" /\ IsCont /\ order # <<>>
    /\ LET t == TrimRightSpace(From(Line, 2))
           l == IF t = <<DOT>> THEN <<>> ELSE t
           cur == GetVal(vals, lastKey)
           nv == IF cur = <<>> THEN l \o <<LF>>
                 ELSE (IF cur[Len(cur)] = LF THEN cur ELSE cur \o <<LF>>) \o l \o <<LF>>
       IN vals' = SetVal(vals, lastKey, nv)
    /\ pos' = pos + 1 /\ UNCHANGED <<order, lastKey, out, st>>
IsOther == ~AtEof /\ ~IsBlankRaw(Line) /\ Line[1] \notin {SP, TAB, HASH}
BadLine == /\ st = "running" /\ IsOther /\ ~Contains(Line, COLON)
           /\ st' = "err" /\ UNCHANGED <<pos, order, vals, lastKey, out>>
\* (after fix) a repeated field name overwrites the value and keeps its place
KeyLine == /\ st = "running" /\ IsOther /\ Contains(Line, COLON)
           /\ LET c == IndexOf(Line, COLON)
                  k == TrimSpace(Upto(Line, c - 1))
                  v == TrimSpace(From(Line, c + 1))
              IN /\ lastKey' = k
                 /\ order' = IF \E i \in 1..Len(order) : order[i] = k THEN order ELSE Append(order, k)
                 /\ vals' = SetVal(vals, k, v)
           /\ pos' = pos + 1 /\ UNCHANGED <<out, st>>

Step == EofPending \/ EofEmpty \/ BlankSkip \/ BlankEnd \/ Comment \/ OrphanCont \/ Continuation
        \/ BadLine \/ KeyLine
Next == Step /\ steps' = steps + 1 /\ UNCHANGED <<doc, raw>>
Spec == Init /\ [][Next]_vars /\ WF_vars(Next)

Done == st \in {"eof", "err"}
Refines == Done => LET r == RefRead(doc) IN r.wf => (st = "eof" /\ ParasMatch(out, r.paras))
ParaInv == \A k \in 1..Len(out) : ParaInvariant(out[k]) /\ out[k].order # <<>>
Bounded == steps <= Len(raw) + Len(out) + 1
Terminates == <>Done
=============================================================================
