INIT GenInit
NEXT GenNext
CONSTANTS
  Mode = "c14"
  Comps = {"", "gz", "xz", "bz2", "lzma", "zst"}
  Reps = 20
