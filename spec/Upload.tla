------------------------------- MODULE Upload -------------------------------
(***************************************************************************)
(* DSC/Changes .Copy, .Move and .Remove (control/dsc.go, control/changes.go,*)
(* internal/copy.go) at system-call granularity, against a destination     *)
(* that anybody may look at between any two steps, with one injected       *)
(* failure at any step.  Files: 0 = the control file, 1..n = the files it   *)
(* lists, in order.  A listed name is "plain" or points outside the        *)
(* control file's directory ("outside": ../x or an absolute path).         *)
(*                                                                         *)
(* Every reachable state is also a crash state (the operation may simply   *)
(* stop there), so the state invariants below are crash-safety properties. *)
(*   ControlLast      control file in the destination => every listed file *)
(*                    is there, complete                                   *)
(*   ErrorMeansAbsent an error return => no control file in the            *)
(*                    destination (and, for a move, still at its source)   *)
(*   RemoveLast       control file removed => every listed file removed    *)
(*   SuccessPost      success => handle at the new place, all files whole  *)
(*   Confined         nothing outside the two directories is read into the *)
(*                    destination, overwritten, moved or deleted           *)
(***************************************************************************)
EXTENDS Integers, Sequences, FiniteSets, TLC
CONSTANTS MaxN
VARIABLES op, n, shape, fault, src, dst, outside, touched, k, stage, ret, handle, dest
vars == <<op, n, shape, fault, src, dst, outside, touched, k, stage, ret, handle, dest>>

Stages(o) == IF o = "copy" THEN {"open", "create", "write", "close"} ELSE {"syscall"}
\* fault = [at |-> file index or -1 for none, stage |-> step of that file that fails]
Init == /\ op \in {"copy", "move", "remove"}
        /\ n \in 0..MaxN
        /\ shape \in [1..n -> {"plain", "outside"}]
        /\ fault \in {[at |-> -1, stage |-> "none"]} \cup
                     {[at |-> i, stage |-> s] : i \in 0..n, s \in Stages(op)}
        /\ src = [i \in 0..n |-> "full"]              \* listed files with an "outside" name live in `outside`
        /\ dst = [i \in 0..n |-> "absent"]
        /\ outside = [i \in 1..n |-> IF shape[i] = "outside" THEN "full" ELSE "none"]
        /\ touched = FALSE
        /\ k = -1 /\ stage = "validate" /\ ret = "none" /\ handle = "src"
        /\ dest \in {"dir", "file"}                   \* what the caller names as destination: a directory, or a regular file

\* order of work: listed files 1..n, then the control file 0
NextFile(i) == IF i = -1 THEN (IF n >= 1 THEN 1 ELSE 0) ELSE IF i = 0 THEN -2 ELSE IF i < n THEN i + 1 ELSE 0
First == IF n >= 1 THEN 1 ELSE 0
Fails(i, s) == fault.at = i /\ fault.stage = s
Unchanged(S) == UNCHANGED S

\* (after fix) listed names that are not plain file names are refused before anything is touched
Validate == /\ stage = "validate"
            /\ IF (op # "remove" /\ dest = "file") \/ \E i \in 1..n : shape[i] # "plain"
               THEN ret' = "err" /\ stage' = "done" /\ UNCHANGED k
               ELSE k' = First /\ stage' = (IF op = "copy" THEN "open" ELSE "syscall") /\ UNCHANGED ret
            /\ UNCHANGED <<op, n, shape, fault, src, dst, outside, touched, handle, dest>>

Abort == ret' = "err" /\ stage' = "done"
Advance == LET j == NextFile(k) IN
           IF j = -2 THEN /\ ret' = "ok" /\ stage' = "done" /\ UNCHANGED k
                          /\ handle' = (IF op = "remove" THEN handle ELSE "dst")
           ELSE /\ k' = j /\ stage' = (IF op = "copy" THEN "open" ELSE "syscall") /\ UNCHANGED <<ret, handle>>

\* ---- copy: open source, create destination (visible, empty), write, close ----
COpen == /\ op = "copy" /\ stage = "open"
         /\ IF Fails(k, "open") THEN Abort /\ UNCHANGED k ELSE stage' = "create" /\ UNCHANGED <<k, ret>>
         /\ UNCHANGED <<op, n, shape, fault, src, dst, outside, touched, handle, dest>>
CCreate == /\ op = "copy" /\ stage = "create"
           /\ IF Fails(k, "create") THEN Abort /\ UNCHANGED <<k, dst>>
              ELSE dst' = [dst EXCEPT ![k] = "empty"] /\ stage' = "write" /\ UNCHANGED <<k, ret>>
           /\ UNCHANGED <<op, n, shape, fault, src, outside, touched, handle, dest>>
CWrite == /\ op = "copy" /\ stage = "write"
          /\ IF Fails(k, "write")
             THEN /\ dst' = [dst EXCEPT ![k] = "partial"]
                  /\ IF k = 0 THEN stage' = "cleanup" /\ UNCHANGED ret ELSE Abort
             ELSE dst' = [dst EXCEPT ![k] = "full"] /\ stage' = "close" /\ UNCHANGED ret
          /\ UNCHANGED <<op, n, shape, fault, src, outside, touched, k, handle, dest>>
CClose == /\ op = "copy" /\ stage = "close"
          /\ IF Fails(k, "close")
             THEN (IF k = 0 THEN stage' = "cleanup" /\ UNCHANGED <<ret, k, handle>> ELSE Abort /\ UNCHANGED <<k, handle>>)
             ELSE Advance
          /\ UNCHANGED <<op, n, shape, fault, src, dst, outside, touched, dest>>
\* (after fix) a failed copy of the control file itself is removed from the destination
CCleanup == /\ op = "copy" /\ stage = "cleanup"
            /\ dst' = [dst EXCEPT ![0] = "absent"] /\ Abort
            /\ UNCHANGED <<op, n, shape, fault, src, outside, touched, k, handle, dest>>

\* ---- move: one rename per file ---------------------------------------------------
MRename == /\ op = "move" /\ stage = "syscall"
           /\ IF Fails(k, "syscall") THEN Abort /\ UNCHANGED <<src, dst, k, handle>>
              ELSE /\ src' = [src EXCEPT ![k] = "absent"] /\ dst' = [dst EXCEPT ![k] = "full"] /\ Advance
           /\ UNCHANGED <<op, n, shape, fault, outside, touched, dest>>
\* ---- remove: one unlink per file ---------------------------------------------------
RUnlink == /\ op = "remove" /\ stage = "syscall"
           /\ IF Fails(k, "syscall") THEN Abort /\ UNCHANGED <<src, k, handle>>
              ELSE src' = [src EXCEPT ![k] = "absent"] /\ Advance
           /\ UNCHANGED <<op, n, shape, fault, dst, outside, touched, dest>>

Next == Validate \/ COpen \/ CCreate \/ CWrite \/ CClose \/ CCleanup \/ MRename \/ RUnlink
Spec == Init /\ [][Next]_vars /\ WF_vars(Next)

ControlLast == (op \in {"copy", "move"} /\ dst[0] # "absent") => \A i \in 1..n : dst[i] = "full"
ErrorMeansAbsent == ret = "err" => (dst[0] = "absent" /\ (op = "move" => src[0] = "full"))
RemoveLast == (op = "remove" /\ src[0] = "absent") => \A i \in 1..n : src[i] = "absent"
SuccessPost == ret = "ok" =>
                 /\ op \in {"copy", "move"} => (handle = "dst" /\ \A i \in 0..n : dst[i] = "full")
                 /\ op = "copy" => \A i \in 0..n : src[i] = "full"
                 /\ op \in {"move", "remove"} => \A i \in 0..n : src[i] = "absent"
FailureReported == (ret = "ok") => fault.at = -1
DestFileRefused == (dest = "file" /\ op # "remove") => (ret # "ok" /\ \A i \in 0..n : dst[i] = "absent" /\ src[i] = "full")
Confined == ~touched /\ \A i \in 1..n : outside[i] \in {"full", "none"}
Terminates == <>(stage = "done")
=============================================================================
