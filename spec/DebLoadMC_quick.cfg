SPECIFICATION Spec
CONSTANTS
  MaxMembers = 4
INVARIANTS Deterministic RejectRules SigCovers
PROPERTY Terminates
CHECK_DEADLOCK FALSE
