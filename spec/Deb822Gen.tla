----------------------------- MODULE Deb822Gen -----------------------------
(* G mode for C07/C08: documents and paragraphs, bounded-exhaustively.       *)
EXTENDS Deb822, Deb822Tokens, GenLib
CONSTANTS MaxToks, Toks, ByteAlphabet, MaxBytes, Mode, Kind

\* documents of more than 15 bytes (the length of the armor marker the reader looks for) that begin with a comment,
\* with a run of blank lines, or with a field name that sorts below '-'
Leads == {<<HASH>> \o [i \in 1..16 |-> 99] \o <<LF>>, [i \in 1..16 |-> LF], <<43, 120, COLON, SP>> \o [i \in 1..14 |-> 49] \o <<LF>>,
          <<HASH, LF, LF, HASH, HASH, LF, CR, LF>> \o [i \in 1..8 |-> LF], <<33, 120, COLON, SP, 49, LF>> \o [i \in 1..10 |-> LF]}
LeadDocs == {pre \o Doc(ts, FALSE, TRUE) : pre \in Leads, ts \in TokSeqs(2, {1, 2, 4, 9})}
\* fields named like the members of the library's own Paragraph type (Order, Values) and like the type itself: field names
\* like any other ("Order: p q", "Values: v", "Paragraph: x", alone and beside an ordinary field)
nmOrder == <<79, 114, 100, 101, 114>>  nmValues == <<86, 97, 108, 117, 101, 115>>  nmPara == <<80, 97, 114, 97, 103, 114, 97, 112, 104>>
NameDocs == {pre \o n \o <<COLON, SP, 112, SP, 113, LF>> \o post : n \in {nmOrder, nmValues, nmPara}, pre \in {<<>>, <<65, COLON, SP, 120, LF>>},
                                                                   post \in {<<>>, <<66, COLON, LF, SP, 99, LF>>}}
            \cup {nmOrder \o <<COLON, LF, 65, COLON, SP, 120, LF>>}
TokDocs == {Doc(ts, crlf, final) : ts \in TokSeqs(MaxToks, Toks), crlf \in BOOLEAN, final \in BOOLEAN} \cup LeadDocs \cup NameDocs
ByteDocs == SeqsUpTo(ByteAlphabet, MaxBytes)

\* values = line sequences over {"", "a", " b"} with or without a trailing newline
LineChoices == {<<>>, <<97>>, <<SP, 98>>, <<11, 101>>, <<HASH, 120>>, <<37, 100, 37>>}          \* ..., "%d%"
LineSeqs == UNION {[1..n -> LineChoices] : n \in 1..3}
Values == {Join(ls, <<LF>>) \o t : ls \in LineSeqs, t \in {<<>>, <<LF>>}}
SmallValues == {<<>>, <<97>>, <<97, LF>>, <<97, LF, LF, 98>>, <<97, LF, SP, 98, LF>>, <<LF, 97>>, <<97, LF, LF, LF, 98, LF>>, <<SP, 98>>}
PE == [order |-> <<>>, values |-> <<>>]
P1(v) == [order |-> << <<75>> >>, values |-> << <<<<75>>, v>> >>]
P2(v, w) == [order |-> << <<75>>, <<76, 45, 77>> >>, values |-> << <<<<75>>, v>>, <<<<76, 45, 77>>, w>> >>]
\* two fields whose names differ in letter case only: two fields (a paragraph is what its Order says)
PCase(v, w) == [order |-> << <<75>>, <<107>> >>, values |-> << <<<<75>>, v>>, <<<<107>>, w>> >>]
ParaVecs == {[k |-> "write", paras |-> <<P1(v)>>] : v \in Values}
       \cup {[k |-> "write", paras |-> <<PCase(v, w)>>] : v \in {<<97>>, <<97, LF, 98>>}, w \in {<<99>>, <<>>}}
       \cup {[k |-> "write", paras |-> <<P2(v, w)>>] : v \in SmallValues, w \in Values}
       \cup {[k |-> "write", paras |-> <<P1(v), P2(w, v), P1(w)>>] : v \in SmallValues, w \in SmallValues}
       \* paragraphs without any field between / before / after real ones: they must not eat a separator
       \cup {[k |-> "write", paras |-> ps] : ps \in {<<P1(<<97>>), PE, P1(<<98>>)>>, <<PE, P1(<<97>>), P1(<<98>>)>>, <<P1(<<97>>), P1(<<98>>), PE>>,
                                                    <<P1(<<97>>), PE, PE, P2(<<98>>, <<99>>)>>, <<PE>>, <<PE, PE, P1(<<97>>)>>}}

\* a sink that refuses its k-th Write: three paragraphs of two fields, every k up to the number of writes a faithful
\* writer may issue, through the Encoder and through WriteTo
FaultVecs == {[k |-> "write_fault", paras |-> <<P2(<<111, 110, 101>>, <<97>>), P2(<<116, 119, 111>>, <<98, LF, 99>>), P2(<<116, 104, 114, 101, 101>>, <<100>>)>>,
               fail_at |-> n, via |-> v] : n \in 1..12, v \in {"encoder", "writeto"}}
\* structs with a required and an optional field through the Encoder: every value is one paragraph, "Name" always
\* written (even empty), "Comment" only when it has text
\* ... and "Notes", tagged multiline:"true": its text starts on the line after the field name
EncVals == {[Name |-> n, Comment |-> c, Notes |-> t] : n \in {<<>>, <<111, 110, 101>>}, c \in {<<>>, <<99>>}, t \in {<<>>, <<108, 49, LF, 108, 50>>}}
EncVecs == {[k |-> "enc_structs", values |-> vs] : vs \in UNION {[1..n -> EncVals] : n \in 1..3}}
           \cup {[k |-> "enc_structs", values |-> vs, dup |-> TRUE] : vs \in UNION {[1..n -> EncVals] : n \in 1..2}}
           \* the first one or two of three structs are written by one Encode call, as a slice
           \cup {[k |-> "enc_structs", values |-> vs, slice_first |-> sf, slice_ptr |-> sp] :
                   vs \in [1..3 -> {[Name |-> <<111, 110, 101>>, Comment |-> <<99>>, Notes |-> <<>>], [Name |-> <<>>, Comment |-> <<>>, Notes |-> <<108, 49, LF, 108, 50>>]}],
                   sf \in {1, 2, 3}, sp \in BOOLEAN}
ASSUME Emit(CASE Mode = "tokdocs"  -> SetToSeq({[k |-> Kind, doc |-> d] : d \in TokDocs})
              [] Mode = "bytedocs" -> SetToSeq({[k |-> Kind, doc |-> d] : d \in ByteDocs})
              [] Mode = "paras"    -> SetToSeq(ParaVecs) \o SetToSeq(FaultVecs) \o SetToSeq(EncVecs))
=============================================================================
