SPECIFICATION Spec
CONSTANTS N = 20  Look = 15  Discipline = "checked"
INVARIANT ErrorReported
PROPERTY Terminates
CHECK_DEADLOCK FALSE
