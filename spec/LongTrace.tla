------------------------------ MODULE LongTrace ------------------------------
(***************************************************************************)
(* V mode for the long-line vectors of LongGen.tla (physical lines around  *)
(* and beyond the implementation's buffer sizes).  Expected values are     *)
(* segment strings given by the generator from its model; observed values  *)
(* arrive in run-length form; both are compared exactly (Segs.tla).        *)
(***************************************************************************)
EXTENDS Segs, TraceLib

IsLong(rec) == rec.ev \in {"read_long", "write_long", "rt_long", "doc_long", "cl_long"}

\* observed paragraph [order, values = Seq([name, present, value(rle)]), nvalues] against expected Seq([name, value(segs)])
ParaIsLong(obs, exp) ==
    /\ Len(obs.order) = Len(exp) /\ obs.nvalues = Len(exp) /\ Len(obs.values) = Len(exp)
    /\ \A k \in 1..Len(exp) : /\ obs.order[k] = exp[k].name
                              /\ obs.values[k].name = exp[k].name /\ obs.values[k].present
                              /\ obs.values[k].value = RLE(exp[k].value)
\* C08 compares values up to one trailing newline
DropLF(segs) == IF segs # <<>> /\ segs[Len(segs)] = Lit(<<LF>>) THEN SubSeq(segs, 1, Len(segs) - 1) ELSE segs
ParaIsLongUpToLF(obs, exp) ==
    /\ Len(obs.order) = Len(exp) /\ obs.nvalues = Len(exp) /\ Len(obs.values) = Len(exp)
    /\ \A k \in 1..Len(exp) : /\ obs.order[k] = exp[k].name
                              /\ obs.values[k].name = exp[k].name /\ obs.values[k].present
                              /\ obs.values[k].value \in {RLE(exp[k].value), RLE(DropLF(exp[k].value))}
ParasAreLong(path, exp) == path.ok /\ Len(path.paras) = Len(exp) /\ \A k \in 1..Len(exp) : ParaIsLong(path.paras[k], exp[k])

JudgeReadLong(rec) ==
    Checks("long-lines",
       << <<rec.len = SegLen(rec.in.doc), "harness expanded the document to another length (harness)">>,
          <<ParasAreLong(rec.next, rec.in.expect), "a document with a line longer than the read buffer is not read as its fields say (Next)">>,
          <<ParasAreLong(rec.all, rec.in.expect), "a document with a line longer than the read buffer is not read as its fields say (All)">>,
          <<ParasAreLong(rec.slice, rec.in.expect), "a document with a line longer than the read buffer is not read as its fields say (Unmarshal into a slice)">>,
          <<"sign" \in DOMAIN rec.in => rec.signer = rec.in.sign, "a validly signed document with a long line: the reported signer is not the signing key">> >>)

JudgeWriteLong(rec) ==
    Checks("long-lines",
       << <<rec.w_ok, "WriteTo failed on a paragraph with a long line">>,
          <<rec.written = RLE(rec.in.written), "a paragraph with a long line is not written as its lines say">>,
          <<rec.back.ok /\ Len(rec.back.paras) = 1 /\ ParaIsLongUpToLF(rec.back.paras[1], rec.in.expect),
            "a paragraph with a long line does not read back as written">> >>)

JudgeRTLong(rec) ==
    Checks("long-lines",
       << <<rec.marshal_ok, "Marshal failed on a struct with a long field">>,
          <<rec.unmarshal_ok, "the marshalled text of a struct with a long field is rejected">>,
          <<Len(rec.decoded) = Len(rec.in.elems) /\ \A k \in 1..Len(rec.in.elems) : rec.decoded[k] = RLE(rec.in.elems[k]),
            "unmarshalling the marshalled text of a struct with a long field does not reproduce the value">> >>)

JudgeDocLong(rec) ==
    LET nm == rec.in.names IN
    Checks("long-lines",
       << <<rec.ok /\ rec.n = 1, "a Packages paragraph with a long Depends line is rejected or split">>,
          <<rec.package = <<112>> /\ rec.nfields = 4, "a Packages paragraph with a long Depends line has other fields than written">>,
          <<Len(rec.depends) = 3, "a long Depends line does not give the relations written">>,
          <<Len(rec.depends) = 3 =>
              /\ Len(rec.depends[1]) = 1 /\ rec.depends[1][1].name = RLE(nm[1]) /\ ~rec.depends[1][1].has_version
              /\ Len(rec.depends[2]) = 1 /\ rec.depends[2][1].name = RLE(nm[2]) /\ rec.depends[2][1].has_version
              /\ rec.depends[2][1].op = ">=" /\ rec.depends[2][1].number = <<49, 58, 50, 46, 48>>
              /\ Len(rec.depends[3]) = 2 /\ rec.depends[3][1].name = RLE(nm[3]) /\ rec.depends[3][2].name = <<<<122, 1>>>>,
            "a long Depends line does not give the relations written">> >>)

\* the change text of an entry is the lines between header and trailer, verbatim
JudgeClLong(rec) ==
    Checks("long-lines",
       << <<rec.ok, "a changelog with a long change line is rejected">>,
          <<Len(rec.entries) = Len(rec.in.bodies), "a changelog with a long change line gives another number of entries">>,
          <<Len(rec.entries) = Len(rec.in.bodies) => \A k \in 1..Len(rec.in.bodies) : rec.entries[k].changelog = RLE(rec.in.bodies[k]),
            "the change text of an entry with a long line is not verbatim">>,
          <<Len(rec.entries) = 2 => (rec.entries[1].version = <<50, 46, 48>> /\ rec.entries[2].version = <<49, 46, 48>>), "versions differ">> >>)

JudgeLong(rec) ==
    CASE rec.ev = "read_long" -> JudgeReadLong(rec)
      [] rec.ev = "write_long" -> JudgeWriteLong(rec)
      [] rec.ev = "rt_long" -> JudgeRTLong(rec)
      [] rec.ev = "doc_long" -> JudgeDocLong(rec)
      [] rec.ev = "cl_long" -> JudgeClLong(rec)
=============================================================================
