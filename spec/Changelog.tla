------------------------------ MODULE Changelog ------------------------------
(***************************************************************************)
(* debian/changelog in dpkg format (deb-changelog(5)).                     *)
(*                                                                         *)
(* Ref layer : entry model, RenderChangelog (model -> bytes, with the end  *)
(*             offset of every entry), Expected (what a faithful parse     *)
(*             returns) and AllowedCut (what parsing a prefix may return). *)
(* Impl layer: ParseOne / Parse as a line machine in ChangelogMC.tla.      *)
(*                                                                         *)
(* entry = [source, version, dists, opts, body, maint, date]               *)
(*   dists : Seq(bytes)      opts : Seq(<<key, value>>)                    *)
(*   body  : Seq(bytes)  lines between header and trailer, verbatim        *)
(*   date  : [wd, day, mon, year, hh, mm, ss, zneg, zh, zm]  (mon 1..12)   *)
(***************************************************************************)
EXTENDS Bytes

TwoDigits(n) == <<48 + (n \div 10), 48 + (n % 10)>>
WdName(w) == CASE w = 1 -> <<77, 111, 110>> [] w = 2 -> <<84, 117, 101>> [] w = 3 -> <<87, 101, 100>>
               [] w = 4 -> <<84, 104, 117>> [] w = 5 -> <<70, 114, 105>> [] w = 6 -> <<83, 97, 116>> [] w = 7 -> <<83, 117, 110>>
MonName(m) == CASE m = 1 -> <<74, 97, 110>> [] m = 2 -> <<70, 101, 98>> [] m = 3 -> <<77, 97, 114>> [] m = 4 -> <<65, 112, 114>>
                [] m = 5 -> <<77, 97, 121>> [] m = 6 -> <<74, 117, 110>> [] m = 7 -> <<74, 117, 108>> [] m = 8 -> <<65, 117, 103>>
                [] m = 9 -> <<83, 101, 112>> [] m = 10 -> <<79, 99, 116>> [] m = 11 -> <<78, 111, 118>> [] m = 12 -> <<68, 101, 99>>
\* "Mon, 02 Jan 2006 15:04:05 -0700"
RenderDate(d) == WdName(d.wd) \o <<COMMA, SP>> \o TwoDigits(d.day) \o <<SP>> \o MonName(d.mon) \o <<SP>> \o NatToDigits(d.year)
                 \o <<SP>> \o TwoDigits(d.hh) \o <<COLON>> \o TwoDigits(d.mm) \o <<COLON>> \o TwoDigits(d.ss) \o <<SP>>
                 \o <<IF d.zneg THEN HYPHEN ELSE PLUS>> \o TwoDigits(d.zh) \o TwoDigits(d.zm)

\* the version as WRITTEN in the header (vtext) may differ in spelling from the version it denotes (e.g. an epoch with a
\* leading zero); entries without a vtext field are written as their version
VText(e) == IF "vtext" \in DOMAIN e THEN e.vtext ELSE e.version
\* the options are separated by a comma; the blank after it is customary, not required (dpkg splits at \s*,\s*)
OSep(e) == IF "osep" \in DOMAIN e THEN e.osep ELSE <<COMMA, SP>>
RenderHeader(e) ==
    e.source \o <<SP, LPAREN>> \o VText(e) \o <<RPAREN, SP>> \o Join(e.dists, <<SP>>) \o <<59, SP>> \o   \* ";"
    Join([k \in 1..Len(e.opts) |-> e.opts[k][1] \o <<EQ>> \o e.opts[k][2]], OSep(e))
RenderTrailer(e) == <<SP, HYPHEN, HYPHEN, SP>> \o e.maint \o <<SP, SP>> \o RenderDate(e.date)
RenderEntry(e) == RenderHeader(e) \o <<LF>> \o Concat([k \in 1..Len(e.body) |-> e.body[k] \o <<LF>>]) \o RenderTrailer(e) \o <<LF>>

\* document = lead blank lines, entries separated by `gap` blank lines, final newline or not
RECURSIVE RenderFrom(_, _, _, _, _)
RenderFrom(es, k, gap, acc, ends) ==
    IF k > Len(es) THEN [bytes |-> acc, ends |-> ends]
    ELSE LET b == acc \o (IF k > 1 THEN [i \in 1..gap |-> LF] ELSE <<>>) \o RenderEntry(es[k])
         IN RenderFrom(es, k + 1, gap, b, Append(ends, Len(b)))
RenderChangelog(es, lead, gap, final) ==
    LET r == RenderFrom(es, 1, gap, [i \in 1..lead |-> LF], <<>>)
        b == IF final \/ r.bytes = <<>> \/ es = <<>> THEN r.bytes ELSE Upto(r.bytes, Len(r.bytes) - 1)
    IN [bytes |-> b, ends |-> r.ends]           \* ends[k] = offset just after entry k's trailer newline

\* ---- what a faithful parse returns -----------------------------------------
BodyText(e) == Concat([k \in 1..Len(e.body) |-> e.body[k] \o <<LF>>])
\* observed entry (from Go): [source, version, target, args (sorted <<k,v>> pairs), changelog, changedby, when]
\*   when = [year, mon, day, hh, mm, ss, zone]  zone = offset in seconds east of UTC
ZoneSecs(d) == (IF d.zneg THEN -1 ELSE 1) * (d.zh * 3600 + d.zm * 60)
PairSet(ps) == {ps[k] : k \in 1..Len(ps)}
EntryMatches(o, e) ==
    /\ o.source = e.source /\ o.version = e.version
    /\ o.target = Join(e.dists, <<SP>>)
    /\ PairSet(o.args) = PairSet(e.opts) /\ Len(o.args) = Len(e.opts)
    /\ o.changelog = BodyText(e)
    /\ o.changedby = e.maint
    /\ o.when.year = e.date.year /\ o.when.mon = e.date.mon /\ o.when.day = e.date.day
    /\ o.when.hh = e.date.hh /\ o.when.mm = e.date.mm /\ o.when.ss = e.date.ss
    /\ o.when.zone = ZoneSecs(e.date)
EntriesMatch(os, es) == Len(os) = Len(es) /\ \A k \in 1..Len(es) : EntryMatches(os[k], es[k])

\* ---- prefixes ------------------------------------------------------------------
\* number of complete entries in the first c bytes
Complete(ends, c) == Cardinality({k \in 1..Len(ends) : ends[k] <= c})
\* the prefix of length c is itself a changelog of `Complete` entries: after the last complete entry
\* (or from the start) there are only newlines
AtBoundary(bytes, ends, c) ==
    LET k == Complete(ends, c)  from == IF k = 0 THEN 0 ELSE ends[k] IN
    \A i \in (from + 1)..c : bytes[i] = LF
\* only the final newline of the next entry's trailer is missing
OnlyNewlineMissing(ends, c) == \E k \in 1..Len(ends) : c = ends[k] - 1

\* outcome of parsing the prefix: [ok, n] ; what is allowed?
CutClass(bytes, ends, c) ==
    IF AtBoundary(bytes, ends, c) THEN "boundary"
    ELSE IF OnlyNewlineMissing(ends, c) THEN "newline-missing"
    ELSE "inside-entry"
AllowedCut(bytes, ends, c, out) ==
    LET k == Complete(ends, c)  cls == CutClass(bytes, ends, c) IN
    CASE cls = "boundary"        -> out.ok /\ out.n = k
      [] cls = "newline-missing" -> ~out.ok \/ out.n = k + 1
      [] cls = "inside-entry"    -> ~out.ok                       \* never the silently shortened list
=============================================================================
