SPECIFICATION Spec
INVARIANT Holds
CONSTANTS
  Alphabet = {48, 49, 57, 97, 126, 46}
  MaxLen = 3
  Mode = "pairs"
CHECK_DEADLOCK FALSE
