-------------------------- MODULE ChangelogHeaderMC --------------------------
(* M mode for the header grammar: every string of at most MaxToks tokens (and every edit of a few complete      *)
(* headers) - the scanner of changelog.ParseOne (ImplHeader) against dpkg's grammar (RefHeader).               *)
EXTENDS ChangelogHeader, TLC
CONSTANTS MaxToks
Toks == << <<97>>, <<98, HYPHEN, 49>>, <<49>>, <<49, HYPHEN, 50>>, <<SP>>, <<LPAREN>>, <<RPAREN>>, <<SEMI>>, <<COMMA>>, <<EQ>>, <<TAB>> >>
VARIABLES ts, done
vars == <<ts, done>>
Line == Concat([k \in 1..Len(ts) |-> Toks[ts[k]]])
\* complete headers: "a (1) a; a=1", two distributions, two options, a revision
Bases == { <<1, 5, 6, 3, 7, 5, 1, 8, 5, 1, 10, 3>>,
           <<2, 5, 6, 4, 7, 5, 1, 5, 2, 8, 5, 1, 10, 1, 9, 5, 2, 10, 3>>,
           <<1, 5, 6, 3, 7, 5, 1, 8>> }
Edits(b) == {b} \cup {Upto(b, i - 1) \o From(b, i + 1) : i \in 1..Len(b)}
            \cup {Upto(b, i - 1) \o <<t>> \o From(b, i + 1) : i \in 1..Len(b), t \in 1..Len(Toks)}
            \cup {Upto(b, i) \o <<t>> \o From(b, i + 1) : i \in 0..Len(b), t \in 1..Len(Toks)}
Init == /\ ts \in UNION {[1..n -> 1..Len(Toks)] : n \in 0..MaxToks} \cup UNION {Edits(b) : b \in Bases}
        /\ done = FALSE
Next == ~done /\ done' = TRUE /\ UNCHANGED ts
Spec == Init /\ [][Next]_vars
FaithfulInv == Faithful(Line)
EmptyItemInv == EmptyItem(Line)
\* the scanner never reports a source, target or key with blanks at its ends, and never an invalid version
Tidy == LET m == ImplHeader(Line) IN
        m.ok => /\ GoTrim(m.source) = m.source /\ GoTrim(m.target) = m.target
                /\ \A kv \in m.args : GoTrim(kv[1]) = kv[1] /\ GoTrim(kv[2]) = kv[2]
                /\ m.version.u # <<>> /\ IsDigit(m.version.u[1])
=============================================================================
