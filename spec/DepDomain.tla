------------------------------ MODULE DepDomain ------------------------------
(* The bounded domain of dependency models shared by the M laws and G mode.   *)
EXTENDS DebDependency
CONSTANTS Orders, Styles

b(s) == s
nA == <<97>>                                                    \* a
nLib == <<108, 105, 98, 45, 120, 49, 46, 48, 43, 98>>           \* lib-x1.0+b
amd64 == <<97, 109, 100, 54, 52>>   i386 == <<105, 51, 56, 54>>
linuxany == <<108, 105, 110, 117, 120, 45, 97, 110, 121>>      \* linux-any
Names == {nA, nLib}
Quals == {<<>>, bAny, amd64}
V(op, num) == [some |-> TRUE, op |-> op, num |-> num]
NoVer == [some |-> FALSE, op |-> <<>>, num |-> <<>>]
Vers == {NoVer, V(<<GT, EQ>>, <<49>>), V(<<LT, LT>>, <<50, 46, 48, 45, 49, 126>>), V(<<EQ>>, <<49, 58, 48>>),
         V(<<LT, EQ>>, <<49>>), V(<<GT, GT>>, <<48>>)}
AN(not, names) == [not |-> not, names |-> names]
Archns == {AN(FALSE, <<>>), AN(FALSE, <<amd64>>), AN(TRUE, <<amd64, i386>>), AN(FALSE, <<linuxany, amd64>>)}
St(not, name) == [not |-> not, name |-> name]
sa == <<115, 116, 97, 103, 101, 49>>  sb == <<99, 114, 111, 115, 115>>    \* stage1 cross
StageSets == {<<>>, << <<St(FALSE, sa)>> >>, << <<St(TRUE, sa), St(FALSE, sb)>> >>, << <<St(FALSE, sa)>>, <<St(TRUE, sb)>> >>}
MP(n, q, v, a, s) == [name |-> n, qualn |-> q, ver |-> v, archn |-> a, stages |-> s, substvar |-> FALSE]
SV(n) == [name |-> n, qualn |-> <<>>, ver |-> NoVer, archn |-> AN(FALSE, <<>>), stages |-> <<>>, substvar |-> TRUE]
Singles == {MP(n, q, v, a, s) : n \in Names, q \in Quals, v \in Vers, a \in Archns, s \in StageSets}
           \cup {SV(<<109, 105, 115, 99, 58, 68, 101, 112, 101, 110, 100, 115>>), SV(<<120>>)}     \* misc:Depends, x
\* a representative subset for combinations
Few == {MP(nA, <<>>, NoVer, AN(FALSE, <<>>), <<>>), MP(nLib, amd64, V(<<GT, EQ>>, <<49>>), AN(FALSE, <<>>), <<>>),
        MP(nA, <<>>, NoVer, AN(TRUE, <<amd64, i386>>), <<>>), MP(nLib, <<>>, V(<<EQ>>, <<49, 58, 48>>), AN(FALSE, <<amd64>>), << <<St(TRUE, sa), St(FALSE, sb)>> >>),
        SV(<<120>>), MP(nA, bAny, NoVer, AN(FALSE, <<>>), << <<St(FALSE, sa)>>, <<St(TRUE, sb)>> >>)}
Deps == {<< <<p>> >> : p \in Singles}
        \cup {<< <<p, q>> >> : p \in Few, q \in Few}
        \cup {<< <<p>>, <<q>> >> : p \in Few, q \in Few}
        \cup {<< <<p, q>>, <<r>>, <<q, r, p>> >> : p \in Few, q \in {MP(nA, <<>>, NoVer, AN(FALSE, <<>>), <<>>)}, r \in Few}
OrderOf(o) == CASE o = "avs" -> <<"a", "v", "s">> [] o = "sva" -> <<"s", "v", "a">> [] o = "vas" -> <<"v", "a", "s">>
                 [] o = "vsa" -> <<"v", "s", "a">> [] o = "asv" -> <<"a", "s", "v">> [] o = "sav" -> <<"s", "a", "v">>
Renderings == {[dep |-> d, style |-> st, order |-> OrderOf(o)] : d \in Deps, st \in Styles, o \in Orders}
=============================================================================
