------------------------------- MODULE Growth -------------------------------
(***************************************************************************)
(* Behaviour of go-debian beyond the twenty listed properties: the parts   *)
(* of the public API that no property anchors, specified the same way      *)
(* (reference semantics from Debian's documents, not from the Go code) and *)
(* bound to the code by the same G / V machinery (GrowthGen, GrowthTrace). *)
(* `./check growth` runs it; its deviations are findings about the         *)
(* library, never verdicts about a listed property.                        *)
(*                                                                         *)
(*  1. version accessors    IsNative, Empty, StringWithoutEpoch            *)
(*  2. architecture lists   ParseArchitectures, IsWildcard                 *)
(*  3. by-hash paths        FileHash.ByHashPath                            *)
(*  4. .changes -> .dsc     Changes.GetDSC                                 *)
(*  5. compressor registry  hashio.GetCompressor, deb.DecompressorFor,     *)
(*                          deb.SetXZMaxDict (sequential meaning; the      *)
(*                          concurrent one is Registry.tla)                *)
(*  6. LoadFile lifecycle   descriptors held by a package loaded from a    *)
(*                          path (DebFile.tla is the state machine)        *)
(*  7. file variants        ParseFile / ParseFileOne / Parse*File agree    *)
(*                          with their reader variants                     *)
(***************************************************************************)
EXTENDS DebDependency

\* ---- 1. version accessors (version = [e, u, r] as in DebVersion) -------------
Native(v) == v.r = <<>>
EmptyVersion(v) == CanonEpoch(v.e) = <<48>> /\ v.u = <<>> /\ v.r = <<>>
\* the text after the epoch: upstream part, and "-revision"; the revision is what follows the LAST hyphen, so an empty
\* revision keeps its hyphen when the upstream part holds one (as in ImplString of DebVersion)
NoEpochText(v) == v.u \o (IF v.r # <<>> \/ Contains(v.u, HYPHEN) THEN <<HYPHEN>> \o v.r ELSE <<>>)

\* ---- 2. architecture lists ---------------------------------------------------
\* Policy 5.6.8: "a list of architectures (separated by spaces)"; as a control field value the list may be folded,
\* so any run of white space separates two names
SplitOnSet(s, S) == Split([i \in 1..Len(s) |-> IF s[i] \in S THEN SP ELSE s[i]], SP)
ArchWords(s) == SelectSeq(SplitOnSet(s, SpaceSet), LAMBDA w : w # <<>>)
ArchList(s) == [k \in 1..Len(ArchWords(s)) |-> RefArchTriple(ArchWords(s)[k])]

\* ---- 3. by-hash ----------------------------------------------------------------
\* apt's Acquire-By-Hash: <directory of the index>/by-hash/<HashName>/<hex digest>; HashName is the name of the
\* field in the Release file: MD5Sum, SHA1, SHA256, SHA512
HashFieldName(alg) == CASE alg = "md5" -> <<77, 68, 53, 83, 117, 109>> [] alg = "sha1" -> <<83, 72, 65, 49>>
                        [] alg = "sha256" -> <<83, 72, 65, 50, 53, 54>> [] alg = "sha512" -> <<83, 72, 65, 53, 49, 50>>
\* directory part of a clean relative or absolute path ("." when there is none)
DirOf(path) == LET i == LastIndexOf(path, SLASH) IN
               IF i = 0 THEN <<DOT>> ELSE IF i = 1 THEN <<SLASH>> ELSE SubSeq(path, 1, i - 1)
ByHashPath(path, alg, hash) == DirOf(path) \o <<SLASH, 98, 121, 45, 104, 97, 115, 104, SLASH>> \o HashFieldName(alg) \o <<SLASH>> \o hash

\* ---- 4. .changes -> .dsc ---------------------------------------------------------
IsDscName(n) == Len(n) >= 4 /\ SubSeq(n, Len(n) - 3, Len(n)) = <<DOT, 100, 115, 99>>
DscOf(names) == LET hits == {k \in 1..Len(names) : IsDscName(names[k])} IN
                IF hits = {} THEN [some |-> FALSE, name |-> <<>>]
                ELSE [some |-> TRUE, name |-> names[CHOOSE k \in hits : \A j \in hits : k <= j]]

\* ---- 5. compressors ---------------------------------------------------------------
KnownCompressors == {"gz"}                                   \* hashio: what can be WRITTEN
KnownDecompressExts == {".gz", ".bz2", ".xz", ".lzma", ".zst"}      \* deb(5) members that can be READ; anything else is passed through
\* a member compressed with dictionary size dict loads under limit `lim` (0 = the decoder's default limit)
XZLoads(lim, dict) == lim = 0 \/ dict <= lim

\* ---- 6. LoadFile: descriptors ------------------------------------------------------
\* handles = set of open handle ids; every open handle holds exactly one descriptor on its file
Descriptors(base, open) == base + Cardinality(open)
\* ---- 8. the reflection API outside its documents' use ------------------------------------------------------------
\* what a call must end in: "error" (an error value, nothing written that matters), or "same" (no error, and the same
\* result as the ordinary route named in the case).  Never a panic.
ApiContract(c) ==
    CASE c \in {"decode-nonpointer", "decode-into-int", "unmarshal-float-field", "unmarshal-nested-struct-field", "unmarshal-pointer-field",
                "marshal-float-field", "marshal-nested-struct-field", "marshal-int", "convert-nonpointer", "convert-pointer-to-int",
                "unpack-nonpointer", "hashio-unknown-NewHasher", "hashio-unknown-GetHash", "hashio-unknown-NewHasherReader",
                "hashio-unknown-NewHasherWriter", "hashio-unknown-NewHasherReaders", "hashio-unknown-NewHasherWriters",
                "debsig-on-zero-deb", "debsig-signature-member-only", "debsig-without-control-and-data",
                "parsefile-missing-dsc", "parsefile-missing-changes", "parsefile-missing-control", "parsefile-missing-changelog",
                "getdsc-listed-but-missing"} -> "error"
      [] c \in {"unpack-equals-unmarshal", "convert-equals-marshal", "encode-slice-equals-encode-each", "encode-pointer-to-slice",
                "marshal-pointer-field", "gz-compressor-roundtrip", "close-deb-without-closer",
                "unmarshal-empty-number-fields", "stageset-without-stages", "parsefile-named-pipe"} -> "same"
      [] c = "marshal-nil-pointer-field" -> "error-or-omitted"        \* a nil pointer has no text: an error, or the field left out
ApiCases == {"decode-nonpointer", "decode-into-int", "unmarshal-float-field", "unmarshal-nested-struct-field", "unmarshal-pointer-field",
             "marshal-float-field", "marshal-nested-struct-field", "marshal-int", "convert-nonpointer", "convert-pointer-to-int",
             "unpack-nonpointer", "unpack-equals-unmarshal", "convert-equals-marshal", "encode-slice-equals-encode-each",
             "encode-pointer-to-slice", "marshal-pointer-field", "marshal-nil-pointer-field",
             "hashio-unknown-NewHasher", "hashio-unknown-GetHash", "hashio-unknown-NewHasherReader", "hashio-unknown-NewHasherWriter",
             "hashio-unknown-NewHasherReaders", "hashio-unknown-NewHasherWriters", "gz-compressor-roundtrip",
             "debsig-on-zero-deb", "debsig-signature-member-only", "debsig-without-control-and-data", "close-deb-without-closer",
             "parsefile-missing-dsc", "parsefile-missing-changes", "parsefile-missing-control", "parsefile-missing-changelog",
             "getdsc-listed-but-missing", "unmarshal-empty-number-fields", "stageset-without-stages", "parsefile-named-pipe"}
=============================================================================
