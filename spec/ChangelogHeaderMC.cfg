SPECIFICATION Spec
CONSTANTS MaxToks = 5
INVARIANTS FaithfulInv EmptyItemInv Tidy
CHECK_DEADLOCK FALSE
