---------------------------- MODULE ChangelogMC ----------------------------
(***************************************************************************)
(* Impl layer for C17: changelog.ParseOne / Parse as a line machine.  The  *)
(* input is a sequence of line tokens ended by an optional partial line:   *)
(*   "H" header   "Hbad" header with unparsable version   "B" body line    *)
(*   "" blank     "T" trailer   "Tbad" trailer with a bad date   "J" junk  *)
(* (junk = a non-blank line that does not start with a space), and `part`  *)
(* = TRUE means the last line lacks its newline.  One action per line read.*)
(*   AllOrError : the result is an error or one entry per complete         *)
(*                (H, body*, T) block of the input - never fewer           *)
(*   CleanEnd   : the list ends without error only between entries         *)
(***************************************************************************)
EXTENDS Integers, Sequences, FiniteSets, TLC
CONSTANTS MaxLines
VARIABLES toks, part, pos, mode, n, st, fail
vars == <<toks, part, pos, mode, n, st, fail>>
Kinds == {"H", "Hbad", "B", "", "T", "Tbad", "J"}
Init == /\ toks \in UNION {[1..k -> Kinds] : k \in 0..MaxLines}
        /\ part \in BOOLEAN
        /\ fail \in BOOLEAN          \* the source ends in an I/O error instead of end-of-input
        /\ pos = 1 /\ mode = "header" /\ n = 0 /\ st = "run"

AtEnd == pos > Len(toks)
Tok == toks[pos]
\* (after fix) a last line without newline is still read as a line
Read == /\ st = "run" /\ ~AtEnd /\ pos' = pos + 1
HeaderScan ==   \* ParseOne's first loop
    /\ mode = "header" /\ Read
    /\ CASE Tok = "" -> UNCHANGED <<mode, n, st>>
         [] Tok \in {"B", "T", "Tbad"} -> st' = "err" /\ UNCHANGED <<mode, n>>       \* "Unexpected line" (starts with a space)
         [] Tok = "Hbad" -> st' = "err" /\ UNCHANGED <<mode, n>>
         [] Tok \in {"H", "J"} -> (IF Tok = "H" THEN mode' = "body" /\ UNCHANGED <<n, st>>
                                   ELSE st' = "err" /\ UNCHANGED <<mode, n>>)          \* junk as header: version does not parse
    /\ UNCHANGED <<toks, part, fail>>
Body ==         \* ParseOne's second loop
    /\ mode = "body" /\ Read
    /\ CASE Tok \in {"B", ""} -> UNCHANGED <<mode, n, st>>
         [] Tok \in {"H", "Hbad", "J"} -> st' = "err" /\ UNCHANGED <<mode, n>>         \* "Didn't get ending line"
         [] Tok = "T" -> mode' = "header" /\ n' = n + 1 /\ UNCHANGED st
         [] Tok = "Tbad" -> st' = "err" /\ UNCHANGED <<mode, n>>
    /\ UNCHANGED <<toks, part, fail>>
\* (after fix) end of input is the clean end of the list only between entries
Eof == /\ st = "run" /\ AtEnd
       /\ st' = IF fail THEN "err" ELSE IF mode = "header" THEN "done" ELSE "err"     \* an I/O error is an error wherever it strikes
       /\ UNCHANGED <<toks, part, pos, mode, n, fail>>
Next == HeaderScan \/ Body \/ Eof
Spec == Init /\ [][Next]_vars /\ WF_vars(Next)

\* reference: number of complete blocks if the text is a sequence of well-formed blocks and blank lines, else -1
RECURSIVE Blocks(_, _, _)
Blocks(i, inEntry, acc) ==
    IF i > Len(toks) THEN (IF inEntry THEN -1 ELSE acc)
    ELSE IF ~inEntry THEN (IF toks[i] = "" THEN Blocks(i + 1, FALSE, acc)
                           ELSE IF toks[i] = "H" THEN Blocks(i + 1, TRUE, acc) ELSE -1)
    ELSE (IF toks[i] \in {"B", ""} THEN Blocks(i + 1, TRUE, acc)
          ELSE IF toks[i] = "T" THEN Blocks(i + 1, FALSE, acc + 1) ELSE -1)
WellFormed == Blocks(1, FALSE, 0) >= 0
AllOrError == (st = "done") => (WellFormed /\ n = Blocks(1, FALSE, 0))
Accepts == (st \in {"done", "err"} /\ WellFormed /\ ~fail) => st = "done"
FaultReported == (fail /\ st \in {"done", "err"}) => st = "err"
Terminates == <>(st \in {"done", "err"})
=============================================================================
