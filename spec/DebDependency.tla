--------------------------- MODULE DebDependency ---------------------------
(***************************************************************************)
(* Relationship fields (Policy 7.1) and architecture names / restrictions. *)
(*                                                                         *)
(* Ref layer : RefParse (bytes -> accept(AST) | reject | unspecified), an  *)
(*             independent recursive descent written from Policy 7.1 and   *)
(*             the property text; Render (AST -> bytes, several spacing    *)
(*             styles and clause orders); RefArchTriple; Match / SetAdmits *)
(*             / Select / Satisfied (C06).                                 *)
(*                                                                         *)
(* AST (spec side and as logged from Go, after projection):                *)
(*   dependency  = Seq(relation)      relation = Seq(possibility)          *)
(*   possibility = [name, qual, ver, archs, stages, substvar]              *)
(*     qual   = [some, t]  t = arch triple [abi, os, cpu]                  *)
(*     ver    = [some, op, num]                                            *)
(*     archs  = [not, list]   list = Seq(triple)                           *)
(*     stages = Seq(Seq([not, name]))                                      *)
(***************************************************************************)
EXTENDS DebVersion

\* ---- architecture names ---------------------------------------------------
bAny == <<97, 110, 121>>   bAll == <<97, 108, 108>>   bGnu == <<103, 110, 117>>
bLinux == <<108, 105, 110, 117, 120>>
Triple(a, o, c) == [abi |-> a, os |-> o, cpu |-> c]
NoTriple == Triple(<<>>, <<>>, <<>>)

\* go-debian's documented convention (arch.go): "any"/"all" stand for themselves,
\* a bare cpu is gnu-linux-<cpu>, os-cpu leaves the ABI open, abi-os-cpu is explicit
RefArchTriple(n) ==
    LET p == Split(n, HYPHEN) IN
    IF Len(p) = 1 THEN (IF n = bAny \/ n = bAll THEN Triple(n, n, n) ELSE Triple(bGnu, bLinux, n))
    ELSE IF Len(p) = 2 THEN Triple(bAny, p[1], p[2])
    ELSE Triple(p[1], p[2], Join(From(p, 3), <<HYPHEN>>))

\* canonical name of a triple: the shortest name that denotes exactly this triple
ArchName(t) ==
    IF t.abi = t.os /\ t.os = t.cpu /\ t.cpu \in {bAny, bAll} THEN t.cpu
    ELSE IF t.abi = bGnu /\ t.os = bLinux /\ t.cpu \notin {bAny, bAll} THEN t.cpu
    ELSE IF t.abi = bAny THEN t.os \o <<HYPHEN>> \o t.cpu
    ELSE t.abi \o <<HYPHEN>> \o t.os \o <<HYPHEN>> \o t.cpu

\* ---- C06: matching ----------------------------------------------------------
IsAllT(t) == t = Triple(bAll, bAll, bAll)
IsWild(t) == ~IsAllT(t) /\ (t.abi = bAny \/ t.os = bAny \/ t.cpu = bAny)
CompMatch(c, w) == w = bAny \/ w = c
\* [some |-> is the answer pinned by the property?, v |-> the answer]
Match(x, y) ==
    IF IsAllT(x) \/ IsAllT(y) THEN [some |-> TRUE, v |-> IsAllT(x) /\ IsAllT(y)]
    ELSE IF IsWild(x) /\ IsWild(y) THEN [some |-> FALSE, v |-> FALSE]      \* only symmetry is demanded
    ELSE IF IsWild(y) THEN [some |-> TRUE, v |-> CompMatch(x.abi, y.abi) /\ CompMatch(x.os, y.os) /\ CompMatch(x.cpu, y.cpu)]
    ELSE IF IsWild(x) THEN [some |-> TRUE, v |-> CompMatch(y.abi, x.abi) /\ CompMatch(y.os, x.os) /\ CompMatch(y.cpu, x.cpu)]
    ELSE [some |-> TRUE, v |-> x = y]

\* a bracketed list admits a (concrete or "all") architecture
SetAdmits(set, a) ==
    set.list = <<>> \/ ((\E k \in 1..Len(set.list) : Match(set.list[k], a).v) # set.not)
SetPinned(set, a) == \A k \in 1..Len(set.list) : Match(set.list[k], a).some

\* per relation, in order: the first non-substvar alternative whose list admits a
FirstAdmitted(rel, a) ==
    LET ok == {k \in 1..Len(rel) : ~rel[k].substvar /\ SetAdmits(rel[k].archs, a)} IN
    IF ok = {} THEN 0 ELSE CHOOSE k \in ok : \A j \in ok : k <= j
Select(dep, a) ==
    LET picks == [r \in 1..Len(dep) |-> FirstAdmitted(dep[r], a)] IN
    [r \in 1..Len(dep) |-> picks[r]]        \* 0 = nothing selected in relation r

OpHolds(op, c) ==
    CASE op = <<LT, LT>> -> c < 0
      [] op = <<LT, EQ>> -> c <= 0
      [] op = <<EQ>> -> c = 0
      [] op = <<GT, EQ>> -> c >= 0
      [] op = <<GT, GT>> -> c > 0
      [] OTHER -> FALSE
KnownOp(op) == op \in {<<LT, LT>>, <<LT, EQ>>, <<EQ>>, <<GT, EQ>>, <<GT, GT>>}

\* ---- Ref parser ---------------------------------------------------------------
DepWS == WS4Set
OpChars == {LT, GT, EQ}
Delims == DepWS \cup {COMMA, PIPE, LPAREN, RPAREN, LBRACK, RBRACK, LT, GT, COLON, BANG, DOLLAR, LBRACE, RBRACE, EQ}
SkipWS(s, i) == LeftIdx(s, i, DepWS)
RunEnd(s, i, stop) == FindFrom(s, i, stop)      \* first index >= i whose byte is in stop, or Len+1
At(s, i) == IF i <= Len(s) THEN s[i] ELSE 0     \* 0 = end of input

PkgNameChar(c) == IsLower(c) \/ IsDigit(c) \/ c \in {PLUS, DOT, HYPHEN}
GoodPkgName(n) == Len(n) >= 1 /\ (IsLower(n[1]) \/ IsDigit(n[1])) /\ AllOf(n, PkgNameChar)
ArchNameChar(c) == IsLower(c) \/ IsDigit(c) \/ c = HYPHEN
GoodArchName(n) == n # <<>> /\ AllOf(n, ArchNameChar) /\ n[1] # HYPHEN /\ n[Len(n)] # HYPHEN /\ ~ContainsSeq(n, <<HYPHEN, HYPHEN>>)
StageChar(c) == IsLower(c) \/ IsDigit(c) \/ c \in {HYPHEN, DOT, PLUS}
GoodStage(n) == n # <<>> /\ AllOf(n, StageChar)
VerChar(c) == IsAlnum(c) \/ c \in {DOT, PLUS, TILDE, COLON, HYPHEN}

\* maximal non-white-space runs of s
RECURSIVE WordsFrom(_, _, _)
WordsFrom(s, i, acc) ==
    LET a == SkipWS(s, i) IN
    IF a > Len(s) THEN acc
    ELSE LET b == RunEnd(s, a, DepWS) IN WordsFrom(s, b, Append(acc, Slice(s, a, b - 1)))
Words(s) == WordsFrom(s, 1, <<>>)

R(st, v, i) == [st |-> st, v |-> v, i |-> i]      \* st: "ok" | "reject" | "unspec"
Worse(a, b) == IF a = "reject" \/ b = "reject" THEN "reject" ELSE IF a = "unspec" \/ b = "unspec" THEN "unspec" ELSE "ok"

EmptyPoss == [name |-> <<>>, qual |-> [some |-> FALSE, t |-> NoTriple], ver |-> [some |-> FALSE, op |-> <<>>, num |-> <<>>],
              archs |-> [not |-> FALSE, list |-> <<>>], stages |-> <<>>, substvar |-> FALSE]

\* "[ ... ]" starting at i (s[i] = "[")
ParseArchClause(s, i) ==
    LET close == IndexFrom(s, i + 1, RBRACK) IN
    IF close = 0 THEN R("reject", [not |-> FALSE, list |-> <<>>], Len(s) + 1)        \* unterminated bracket
    ELSE LET ws == Words(Slice(s, i + 1, close - 1))
             neg(w) == w # <<>> /\ w[1] = BANG
             nm(w) == IF neg(w) THEN From(w, 2) ELSE w
             mixed == \E a, b \in 1..Len(ws) : neg(ws[a]) # neg(ws[b])
             bad == ws = <<>> \/ \E a \in 1..Len(ws) : ~GoodArchName(nm(ws[a]))
         IN IF ws # <<>> /\ mixed /\ \A a \in 1..Len(ws) : GoodArchName(nm(ws[a]))
            THEN R("reject", [not |-> FALSE, list |-> <<>>], close + 1)               \* mixed negation
            ELSE R(IF bad \/ mixed THEN "unspec" ELSE "ok",
                   [not |-> ws # <<>> /\ neg(ws[1]), list |-> [a \in 1..Len(ws) |-> RefArchTriple(nm(ws[a]))]],
                   close + 1)

\* "< ... >" starting at i
ParseStageClause(s, i) ==
    LET close == IndexFrom(s, i + 1, GT) IN
    IF close = 0 THEN R("reject", <<>>, Len(s) + 1)                                    \* unterminated bracket
    ELSE LET ws == Words(Slice(s, i + 1, close - 1))
             neg(w) == w # <<>> /\ w[1] = BANG
             nm(w) == IF neg(w) THEN From(w, 2) ELSE w
             bad == ws = <<>> \/ \E a \in 1..Len(ws) : ~GoodStage(nm(ws[a]))
         IN R(IF bad THEN "unspec" ELSE "ok", [a \in 1..Len(ws) |-> [not |-> neg(ws[a]), name |-> nm(ws[a])]], close + 1)

\* "( op version )" starting at i
ParseVerClause(s, i) ==
    LET close == IndexFrom(s, i + 1, RPAREN) IN
    IF close = 0 THEN R("reject", [some |-> FALSE, op |-> <<>>, num |-> <<>>], Len(s) + 1)   \* unterminated paren
    ELSE LET a == SkipWS(s, i + 1)
             b == LeftIdx(s, a, OpChars)                  \* end of the operator run
             op == Slice(s, a, b - 1)
             c == SkipWS(s, b)
             d == RunEnd(s, c, DepWS \cup {RPAREN})
             num == Slice(s, c, d - 1)
             e == SkipWS(s, d)
             st == IF op # <<>> /\ ~KnownOp(op) /\ op \notin {<<LT>>, <<GT>>} THEN "reject"     \* unknown operator
                   ELSE IF op = <<>> \/ ~KnownOp(op) THEN "unspec"                              \* none, or obsolete < >
                   ELSE IF num = <<>> \/ e # close \/ ~AllOf(num, VerChar) THEN "unspec"
                   ELSE "ok"
         IN R(st, [some |-> TRUE, op |-> op, num |-> num], close + 1)

\* clauses after the name; p is the possibility so far, i the scan position
RECURSIVE ParseClauses(_, _, _, _)
ParseClauses(s, i, p, st) ==
    LET k == SkipWS(s, i)  c == At(s, k) IN
    IF c \in {0, COMMA, PIPE} THEN R(st, p, k)
    ELSE IF c = LPAREN THEN
        (IF p.ver.some THEN R("reject", p, Len(s) + 1)                                  \* second version clause
         ELSE LET r == ParseVerClause(s, k) IN
              IF r.st = "reject" THEN R("reject", p, r.i)
              ELSE ParseClauses(s, r.i, [p EXCEPT !.ver = r.v], Worse(st, r.st)))
    ELSE IF c = LBRACK THEN
        (IF p.archs.list # <<>> THEN R("reject", p, Len(s) + 1)                         \* second architecture clause
         ELSE LET r == ParseArchClause(s, k) IN
              IF r.st = "reject" THEN R("reject", p, r.i)
              ELSE ParseClauses(s, r.i, [p EXCEPT !.archs = r.v], Worse(st, r.st)))
    ELSE IF c = LT THEN
        (LET r == ParseStageClause(s, k) IN
         IF r.st = "reject" THEN R("reject", p, r.i)
         ELSE ParseClauses(s, r.i, [p EXCEPT !.stages = Append(@, r.v)], Worse(st, r.st)))
    ELSE IF c \notin Delims /\ k > i THEN R("reject", p, Len(s) + 1)                    \* two names without a separator
    ELSE R("unspec", p, Len(s) + 1)                                                      \* stray closer etc.

ParsePoss(s, i) ==
    IF At(s, i) = DOLLAR THEN
        (IF At(s, i + 1) # LBRACE THEN R("unspec", EmptyPoss, Len(s) + 1)
         ELSE LET close == IndexFrom(s, i + 2, RBRACE) IN
              IF close = 0 THEN R("reject", EmptyPoss, Len(s) + 1)                       \* unterminated substvar
              ELSE LET k == SkipWS(s, close + 1) IN
                   R(IF At(s, k) \in {0, COMMA, PIPE} THEN "ok" ELSE "unspec",
                     [EmptyPoss EXCEPT !.name = Slice(s, i + 2, close - 1), !.substvar = TRUE], k))
    ELSE LET j == RunEnd(s, i, Delims)
             name == Slice(s, i, j - 1)
             hasq == At(s, j) = COLON
             qe == IF hasq THEN RunEnd(s, j + 1, Delims) ELSE j
             qn == IF hasq THEN Slice(s, j + 1, qe - 1) ELSE <<>>
             st0 == IF ~GoodPkgName(name) \/ (hasq /\ ~GoodArchName(qn)) THEN "unspec" ELSE "ok"
             p == [EmptyPoss EXCEPT !.name = name,
                                    !.qual = IF hasq THEN [some |-> TRUE, t |-> RefArchTriple(qn)] ELSE @]
         IN IF name = <<>> THEN R("unspec", EmptyPoss, Len(s) + 1)
            ELSE ParseClauses(s, qe, p, st0)

\* alternatives of one relation, starting at i (first non-white-space byte)
RECURSIVE ParseRel(_, _, _, _)
ParseRel(s, i, acc, st) ==
    IF At(s, i) \in {0, COMMA, PIPE} THEN R("unspec", acc, Len(s) + 1)                  \* empty alternative
    ELSE LET r == ParsePoss(s, i) IN
         IF r.st = "reject" THEN R("reject", acc, r.i)
         ELSE IF r.st = "unspec" /\ r.i > Len(s) THEN R("unspec", acc, r.i)
         ELSE LET acc2 == Append(acc, r.v)  st2 == Worse(st, r.st) IN
              IF At(s, r.i) = PIPE THEN ParseRel(s, SkipWS(s, r.i + 1), acc2, st2)
              ELSE R(st2, acc2, r.i)

RECURSIVE ParseDepFrom(_, _, _, _)
ParseDepFrom(s, i, acc, st) ==
    LET r == ParseRel(s, i, <<>>, "ok") IN
    IF r.st = "reject" THEN R("reject", acc, r.i)
    ELSE IF r.st = "unspec" /\ r.i > Len(s) THEN R("unspec", acc, r.i)
    ELSE LET acc2 == Append(acc, r.v)  st2 == Worse(st, r.st) IN
         IF At(s, r.i) = COMMA THEN
             (LET k == SkipWS(s, r.i + 1) IN
              IF k > Len(s) THEN R(Worse(st2, "unspec"), acc2, k)                           \* trailing comma
              ELSE ParseDepFrom(s, k, acc2, st2))
         ELSE R(st2, acc2, r.i)

\* result: [class |-> "accept" | "reject" | "unspecified", ast]
RefParse(s) ==
    LET i == SkipWS(s, 1) IN
    IF AnyOf(s, LAMBDA c : c = 0 \/ c >= 128) THEN [class |-> "unspecified", ast |-> <<>>]
    ELSE IF i > Len(s) THEN [class |-> "accept", ast |-> <<>>]                           \* empty field: no relations
    ELSE LET r == ParseDepFrom(s, i, <<>>, "ok") IN
         [class |-> IF r.st = "ok" THEN "accept" ELSE IF r.st = "reject" THEN "reject" ELSE "unspecified",
          ast |-> IF r.st = "ok" THEN r.v ELSE <<>>]

\* ---- Render: AST -> bytes (generation, and the reference rendering) ---------
\* a model possibility carries arch NAMES: qualn (bytes or <<>>), archn = [not, names]
RenderStage(st) == (IF st.not THEN <<BANG>> ELSE <<>>) \o st.name
Sp(style) == CASE style = "min" -> <<>> [] style = "canon" -> <<SP>> [] style = "wide" -> <<SP, TAB, SP>> [] style = "fold" -> <<LF>>
In(style) == CASE style = "min" -> <<>> [] style = "canon" -> <<>> [] style = "wide" -> <<SP, SP>> [] style = "fold" -> <<TAB>>
Sep1(style) == CASE style = "min" -> <<SP>> [] style = "canon" -> <<SP>> [] style = "wide" -> <<SP, LF, SP>> [] style = "fold" -> <<LF>>

RenderVer(v, style) == <<LPAREN>> \o In(style) \o v.op \o (IF style = "min" THEN <<>> ELSE <<SP>>) \o v.num \o In(style) \o <<RPAREN>>
RenderArchs(a, style) ==
    <<LBRACK>> \o In(style) \o
    Join([k \in 1..Len(a.names) |-> (IF a.not THEN <<BANG>> ELSE <<>>) \o a.names[k]], Sep1(style)) \o In(style) \o <<RBRACK>>
RenderStages(set, style) ==
    <<LT>> \o In(style) \o Join([k \in 1..Len(set) |-> RenderStage(set[k])], Sep1(style)) \o In(style) \o <<GT>>

\* order: a permutation of <<"v", "a", "s">> saying in which order the clause kinds appear
RenderPoss(p, style, order) ==
    IF p.substvar THEN <<DOLLAR, LBRACE>> \o p.name \o <<RBRACE>>
    ELSE LET clause(kind) ==
                 CASE kind = "v" -> IF p.ver.some THEN <<RenderVer(p.ver, style)>> ELSE <<>>
                   [] kind = "a" -> IF p.archn.names # <<>> THEN <<RenderArchs(p.archn, style)>> ELSE <<>>
                   [] kind = "s" -> [k \in 1..Len(p.stages) |-> RenderStages(p.stages[k], style)]
             cl == clause(order[1]) \o clause(order[2]) \o clause(order[3])
         IN p.name \o (IF p.qualn # <<>> THEN <<COLON>> \o p.qualn ELSE <<>>) \o
            Concat([k \in 1..Len(cl) |-> Sp(style) \o cl[k]])
RenderRel(rel, style, order) ==
    Join([k \in 1..Len(rel) |-> RenderPoss(rel[k], style, order)], Sp(style) \o <<PIPE>> \o Sp(style))
RenderDep(dep, style, order) ==
    Join([k \in 1..Len(dep) |-> RenderRel(dep[k], style, order)],
         IF style = "fold" THEN <<COMMA, LF>> ELSE <<COMMA>> \o Sp(style)) \o (IF style = "fold" THEN <<LF>> ELSE <<>>)

\* model possibility -> AST possibility (names -> triples)
ToAst(p) == [name |-> p.name, qual |-> IF p.qualn = <<>> THEN [some |-> FALSE, t |-> NoTriple] ELSE [some |-> TRUE, t |-> RefArchTriple(p.qualn)],
             ver |-> p.ver, archs |-> [not |-> p.archn.not /\ p.archn.names # <<>>, list |-> [k \in 1..Len(p.archn.names) |-> RefArchTriple(p.archn.names[k])]],
             stages |-> p.stages, substvar |-> p.substvar]
DepToAst(dep) == [r \in 1..Len(dep) |-> [k \in 1..Len(dep[r]) |-> ToAst(dep[r][k])]]
=============================================================================
