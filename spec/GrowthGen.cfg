INIT GenInit
NEXT GenNext
