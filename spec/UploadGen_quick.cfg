INIT GenInit
NEXT GenNext
CONSTANTS
  MaxN = 2
