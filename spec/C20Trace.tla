------------------------------ MODULE C20Trace ------------------------------
(***************************************************************************)
(* V mode for C20: one trace = one real Copy/Move/Remove on a temporary    *)
(* directory tree: the inotify event sequence of source, destination and   *)
(* outside directories (raw inotify, one queue, so the order is the        *)
(* kernel's), the returned error, where the handle points, and snapshots   *)
(* before/after.  The event sequence is replayed on the abstract file      *)
(* system of Upload.tla: every prefix of it is a state somebody watching   *)
(* the destination - or a crash - may see, and the invariants are          *)
(* evaluated on every prefix.                                              *)
(***************************************************************************)
EXTENDS TraceLib, FiniteSets
VARIABLES l, verdict
vars == <<l, verdict>>

Names(snap) == {snap[i][1] : i \in 1..Len(snap)}
StateOf(snap, name) == IF \E i \in 1..Len(snap) : snap[i][1] = name
                       THEN snap[CHOOSE i \in 1..Len(snap) : snap[i][1] = name][2] ELSE "absent"
BaseSet(rec) == {rec.bases[i] : i \in 1..Len(rec.bases)}
KeyOf(rec, name) == IF name = rec.ctl THEN "full:ctl"
                    ELSE "full:f" \o ToString(CHOOSE i \in 1..Len(rec.bases) : rec.bases[i] = name)

\* events up to and including position p
Before(ev, p) == SubSeq(ev, 1, p)
Completed(ev, p, dir) == {ev[i].name : i \in {j \in 1..p : ev[j].dir = dir /\ ev[j].op \in {"close_write", "moved_to"}}}
\* (a listed file may live in a sub-directory or, before the fix, outside: what matters is that it left)
Gone(ev, p, dir) == {ev[i].name : i \in {j \in 1..p : ev[j].dir # "dst" /\ ev[j].op \in {"delete", "moved_from"}}}

\* the control file appears in the destination (create / moved_to - or, when an older one already lies there, the
\* first write into it) only after every listed file is complete there
ControlLastOnTrace(rec) ==
    \A p \in 1..Len(rec.events) :
        (rec.events[p].dir = "dst" /\ rec.events[p].name = rec.ctl /\ rec.events[p].op \in {"create", "moved_to", "modify"})
            => BaseSet(rec) \subseteq Completed(rec.events, p - 1, "dst")
\* the control file leaves the source directory (delete / moved_from) only after every listed file has left it
RemoveLastOnTrace(rec) ==
    \A p \in 1..Len(rec.events) :
        (rec.events[p].dir = "src" /\ rec.events[p].name = rec.ctl /\ rec.events[p].op \in {"delete", "moved_from"})
            => BaseSet(rec) \subseteq Gone(rec.events, p - 1, "src")

AllPlain(rec) == \A i \in 1..Len(rec.in.shapes) : rec.in.shapes[i] = "plain"
HasOutside(rec) == \E i \in 1..Len(rec.in.shapes) : rec.in.shapes[i] \in {"dotdot", "abs", "dot", "dotdot1", "slash"}   \* ("." ".." "/": directories, not files of the upload)
HasSub(rec) == \E i \in 1..Len(rec.in.shapes) : rec.in.shapes[i] = "sub"
Faulted(rec) == rec.in.fault.kind \notin {"none", "stale", "stalelong", "stalesame", "xdev", "relpath"}     \* a stale destination file is not a failure; a
                                        \* destination on another filesystem is not one either, but a MOVE may refuse it

\* nothing outside the control file's directory and the destination is read into the destination,
\* overwritten, moved or deleted
ConfinedOnTrace(rec) ==
    /\ rec.after.out = rec.before.out
    /\ \A i \in 1..Len(rec.events) : rec.events[i].dir # "out"
    /\ \A i \in 1..Len(rec.after.dst) : rec.after.dst[i][2] \notin {"full:out:f1", "full:out:f2", "full:out:f3", "full:out:f4", "full:sentinel"}

Judge(rec) ==
    LET op == rec.in.op
        files == BaseSet(rec) \cup {rec.ctl}
        ctlInDst == StateOf(rec.after.dst, rec.ctl)
        partial == "lists" \in DOMAIN rec.in
        class == IF partial THEN (IF HasOutside(rec) THEN "partial-lists-outside-name" ELSE "partial-lists")
                 ELSE IF HasOutside(rec) THEN "outside-name" ELSE IF HasSub(rec) THEN "unspecified"
                 ELSE IF Faulted(rec) THEN "fault-" \o rec.in.fault.kind ELSE "success-path"
    IN Checks(class,
       << <<~rec.panic, "panic">>,
          <<rec.in.fault.kind = "hook" => rec.hook_fired, "failpoint did not fire (harness)">>,
          <<partial \/ ControlLastOnTrace(rec), "control file became visible in the destination before a listed file was complete">>,
          <<(op \in {"move", "remove"} /\ ~partial) => RemoveLastOnTrace(rec), "control file left the source directory before a listed file">>,
          <<ConfinedOnTrace(rec), "a file outside the control file's directory and the destination was read, moved or deleted">>,
          <<rec.err => ctlInDst \in {"absent", "dir"}, "an error was returned but the control file is in the destination">>,
          <<(rec.err /\ op = "move" /\ ~(rec.in.fault.kind \in {"missing", "srcdir"} /\ rec.in.fault.at = Len(rec.bases) + 1))
                => StateOf(rec.after.src, rec.ctl) = "full:ctl",
            "a move failed but the control file is no longer at its source">>,
          <<(AllPlain(rec) /\ Faulted(rec)) => rec.err, "a step failed but no error was returned">>,
          <<(AllPlain(rec) /\ ~Faulted(rec) /\ ~partial /\ ~(rec.in.fault.kind = "xdev" /\ op = "move")) => ~rec.err, "plain upload without faults failed">>,
          <<rec.in.fault.kind = "destfile" => (rec.dst_self = "full:destfile" /\ \A f \in files : StateOf(rec.after.src, f) = KeyOf(rec, f)),
            "the destination is a regular file: it was overwritten, or files of the upload were touched">>,
          <<(rec.err /\ rec.in.fault.kind = "xdev") => \A f \in files : StateOf(rec.after.src, f) = KeyOf(rec, f),
            "a move to another filesystem was refused but the source files are no longer all in place">>,
          <<(~rec.err /\ op \in {"copy", "move"} /\ ~partial) =>
                (rec.handle = "dst" /\ \A f \in files : StateOf(rec.after.dst, f) = KeyOf(rec, f)),
            "after success the handle does not point at the destination or a file differs from the original">>,
          <<(~rec.err /\ op = "copy" /\ AllPlain(rec)) => \A f \in files : StateOf(rec.after.src, f) = KeyOf(rec, f),
            "copy altered the source files">>,
          <<(~rec.err /\ op \in {"move", "remove"} /\ AllPlain(rec) /\ ~partial) => \A f \in files : StateOf(rec.after.src, f) = "absent",
            "after a successful move/remove a file is still at its source">> >>)

\* ---- sequences of operations on one handle -----------------------------------------------------------
\* abstract state: which directory holds a full set of files (control file + listed files), and where the handle is
\* dirs = [src, a, b] -> BOOLEAN ("holds the upload");  the model of Copy / Move / Remove without faults
RECURSIVE SeqModel(_, _, _, _)
SeqModel(ops, k, holds, at) ==
    IF k > Len(ops) THEN <<>>
    ELSE LET o == ops[k]
             holds2 == CASE o.op = "copy"   -> [holds EXCEPT ![o.to] = TRUE]
                         [] o.op = "move"   -> [[holds EXCEPT ![at] = FALSE] EXCEPT ![o.to] = TRUE]
                         [] o.op = "remove" -> [holds EXCEPT ![at] = FALSE]
             at2 == IF o.op = "remove" THEN at ELSE o.to
         IN <<[holds |-> holds2, at |-> at2]>> \o SeqModel(ops, k + 1, holds2, at2)
DirHolds(snap, rec) == \A f \in BaseSet(rec) \cup {rec.ctl} : StateOf(snap, f) = KeyOf(rec, f)
DirEmptyOfUpload(snap, rec) == \A f \in BaseSet(rec) \cup {rec.ctl} : StateOf(snap, f) = "absent"
JudgeSeq(rec) ==
    LET ops == rec.in.ops
        m == SeqModel(ops, 1, [src |-> TRUE, a |-> FALSE, b |-> FALSE], "src")
        Snap(s, d) == CASE d = "src" -> s.src [] d = "a" -> s.a [] d = "b" -> s.b
        bad == {k \in 1..Len(ops) :
                  \/ rec.steps[k].err \/ rec.steps[k].panic
                  \/ rec.steps[k].handle # m[k].at
                  \/ \E d \in {"src", "a", "b"} :
                        IF m[k].holds[d] THEN ~DirHolds(Snap(rec.steps[k], d), rec) ELSE ~DirEmptyOfUpload(Snap(rec.steps[k], d), rec)
                  \/ StateOf(rec.steps[k].out, "sentinel") # "full:sentinel"}
        first == IF bad = {} THEN 0 ELSE CHOOSE k \in bad : \A j \in bad : k <= j
    IN IF Len(rec.steps) # Len(ops) THEN V(FALSE, "op-sequence", "missing steps")
       ELSE IF bad = {} THEN V(TRUE, "op-sequence", "")
       ELSE V(FALSE, "op-sequence", "after operation " \o ToString(first) \o " (" \o ops[first].op \o
              ") of a sequence on one handle the directories or the handle are not what Copy/Move/Remove should leave")

\* one path, two texts: each copy holds the control file of ITS parse and the file that text lists, nothing else
JudgeReparse(rec) ==
    LET Set(q) == {q[i] : i \in 1..Len(q)} IN
    Guarded("same-path-parsed-again",
       << <<~rec.panic, "panic">>, <<Len(rec.errs) = 2 /\ rec.errs = <<FALSE, FALSE>>, "plain upload without faults failed">> >>,
       << <<Set(rec.a) = {<<rec.ctl, "full:ctlf1">>, <<"pkg_1.0.f1.tar.gz", "full:f1">>}, "the first copy is not the upload its control file describes">>,
          <<Set(rec.b) = {<<rec.ctl, "full:ctlf2">>, <<"pkg_1.0.f2.tar.xz", "full:f2">>},
            "a control file parsed again after it was rewritten is copied with the files of its EARLIER text">> >>)

JudgeAny(rec) == IF rec.ev = "upreparse" THEN JudgeReparse(rec) ELSE IF rec.ev = "upseq" THEN JudgeSeq(rec)
                 ELSE IF "skipped" \in DOMAIN rec THEN V(TRUE, "aux", "")        \* no second filesystem on this machine
                 ELSE Judge(rec)

Init == l \in 1..Len(Trace) /\ verdict = Pending
Next == verdict.class = "pending" /\ verdict' = JudgeOrCrash(Trace[l], JudgeAny) /\ UNCHANGED l
Spec == Init /\ [][Next]_vars
=============================================================================
