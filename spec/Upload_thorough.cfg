SPECIFICATION Spec
CONSTANTS
  MaxN = 4
INVARIANTS ControlLast ErrorMeansAbsent RemoveLast SuccessPost FailureReported Confined
PROPERTY Terminates
CHECK_DEADLOCK FALSE
