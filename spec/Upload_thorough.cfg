SPECIFICATION Spec
CONSTANTS
  MaxN = 4
INVARIANTS ControlLast ErrorMeansAbsent RemoveLast SuccessPost FailureReported Confined DestFileRefused
PROPERTY Terminates
CHECK_DEADLOCK FALSE
