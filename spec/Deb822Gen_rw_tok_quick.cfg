INIT GenInit
NEXT GenNext
CONSTANTS
  MaxToks = 3
  Toks = {1,2,3,4,5,6,7,8,9,10,11,12,13,14,15,16}
  ByteAlphabet = {65, 58, 32, 10, 35, 46, 13}
  MaxBytes = 0
  Mode = "tokdocs"
  Kind = "rw"
