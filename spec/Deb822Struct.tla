---------------------------- MODULE Deb822Struct ----------------------------
(***************************************************************************)
(* control.Marshal / Unmarshal of Go structs (control/encode.go,           *)
(* control/decode.go) as a field-descriptor algebra.                       *)
(*                                                                         *)
(* descriptor = [name, key, kind, elem, delim, strip, required, multiline] *)
(*   kind : "string" "int" "uint" "bool" "list" "version" "dependency"     *)
(*          "arch" "sha256" "raw" (the embedded control.Paragraph)         *)
(*   key "-" : the field is skipped                                        *)
(* A struct value is a record from field name to: bytes (string and the    *)
(* custom kinds, which are identified with their canonical text), an       *)
(* integer, a boolean, or a sequence of those (lists).                     *)
(***************************************************************************)
EXTENDS Deb822

D(name, key, kind, elem, delim, strip, required, multiline) ==
    [name |-> name, key |-> key, kind |-> kind, elem |-> elem, delim |-> delim, strip |-> strip,
     required |-> required, multiline |-> multiline]
NL == <<LF>>
\* the descriptor table: single source of truth; the harness reflects its probe types and TLC compares
Table(t) ==
    CASE t = "P1" -> << D("S", "S", "string", "", <<SP>>, <<>>, FALSE, FALSE),
                        D("Renamed", "X-Renamed", "string", "", <<SP>>, <<>>, FALSE, FALSE),
                        D("Req", "Req", "string", "", <<SP>>, <<>>, TRUE, FALSE),
                        D("Skip", "-", "string", "", <<SP>>, <<>>, FALSE, FALSE),
                        D("Multi", "Multi", "string", "", <<SP>>, <<>>, FALSE, TRUE) >>
      [] t = "P2" -> << D("I", "I", "int", "", <<SP>>, <<>>, FALSE, FALSE),
                        D("U", "U", "uint", "", <<SP>>, <<>>, FALSE, FALSE),
                        D("B", "B", "bool", "", <<SP>>, <<>>, FALSE, FALSE),
                        D("ReqI", "ReqI", "int", "", <<SP>>, <<>>, TRUE, FALSE),
                        D("ReqB", "Req-B", "bool", "", <<SP>>, <<>>, TRUE, FALSE) >>
      [] t = "P3" -> << D("L", "L", "list", "string", <<COMMA, SP>>, <<>>, FALSE, FALSE),
                        D("LS", "L-S", "list", "string", <<COMMA>>, <<SP, LF>>, FALSE, FALSE),
                        D("Sp", "Sp", "list", "string", <<SP>>, <<>>, FALSE, FALSE),
                        D("ReqL", "ReqL", "list", "string", <<COMMA>>, <<>>, TRUE, FALSE),
                        D("IL", "IL", "list", "int", <<SP>>, <<>>, FALSE, FALSE) >>
      [] t = "P4" -> << D("V", "V", "version", "", <<SP>>, <<>>, FALSE, FALSE),
                        D("D", "Depends", "dependency", "", <<SP>>, <<>>, FALSE, FALSE),
                        D("A", "A", "arch", "", <<SP>>, <<>>, FALSE, FALSE),
                        D("As", "Architectures", "list", "arch", <<SP>>, <<>>, FALSE, FALSE),
                        D("H", "Checksums-Sha256", "list", "sha256", NL, <<LF, CR, TAB, SP>>, FALSE, FALSE),
                        D("RV", "Req-V", "version", "", <<SP>>, <<>>, TRUE, FALSE) >>
      [] t = "P6" -> << D("A", "A", "string", "", <<SP>>, <<>>, FALSE, FALSE),
                        D("M", "-", "other:map[string]string", "", <<SP>>, <<>>, FALSE, FALSE),
                        D("F", "-", "other:float64", "", <<SP>>, <<>>, FALSE, FALSE),
                        D("T", "-", "other:time.Time", "", <<SP>>, <<>>, FALSE, FALSE),
                        D("P", "-", "other:*int", "", <<SP>>, <<>>, FALSE, FALSE),
                        D("I", "-", "other:interface {}", "", <<SP>>, <<>>, FALSE, FALSE),
                        D("Z", "Z", "string", "", <<SP>>, <<>>, FALSE, FALSE) >>
      [] t = "P7" -> << D("CS", "C-S", "list", "string", <<COMMA, SP>>, <<SP>>, FALSE, FALSE),
                        D("ML", "ML", "list", "string", <<SP>>, <<>>, FALSE, TRUE),
                        D("CN", "CN", "list", "string", <<COMMA>>, <<LF, CR, TAB, SP>>, FALSE, FALSE),
                        D("S", "S", "string", "", <<SP>>, <<>>, FALSE, FALSE) >>
      [] t = "P5" -> << D("Paragraph", "", "raw", "", <<>>, <<>>, FALSE, FALSE),
                        D("Name", "Name", "string", "", <<SP>>, <<>>, FALSE, FALSE),
                        D("Count", "Count", "int", "", <<SP>>, <<>>, FALSE, FALSE),
                        D("Tags", "Tags", "list", "string", <<COMMA, SP>>, <<>>, FALSE, FALSE) >>

\* ---- encoding ------------------------------------------------------------------
IntText(n) == IF n < 0 THEN <<HYPHEN>> \o NatToDigits(0 - n) ELSE NatToDigits(n)
ScalarText(kind, x) ==
    CASE kind = "int" -> IntText(x)
      [] kind = "uint" -> NatToDigits(x)
      [] kind = "bool" -> (IF x THEN <<121, 101, 115>> ELSE <<110, 111>>)          \* yes / no
      [] OTHER -> x                                                                \* strings and canonical texts
FieldText(d, x) == IF d.kind = "list" THEN Join([k \in 1..Len(x) |-> ScalarText(d.elem, x[k])], d.delim)
                   ELSE ScalarText(d.kind, x)
\* key bytes of a descriptor (keys are logged as strings by the harness; names here are ASCII)
\* fields written, in struct order: optional fields with empty text are omitted, required ones always written,
\* multiline values start on the next line
Written(desc, val, KeyBytes(_)) ==
    LET keep == SelectSeq(desc, LAMBDA d : d.kind # "raw" /\ d.key # "-" /\ (d.required \/ FieldText(d, val[d.name]) # <<>>))
    IN [k \in 1..Len(keep) |-> <<KeyBytes(keep[k].key),
                                 (IF keep[k].multiline THEN <<LF>> ELSE <<>>) \o FieldText(keep[k], val[keep[k].name])>>]

\* Paragraph.Update: the raw paragraph keeps its order, known fields are updated in place, new ones appended
UpdatePara(raw, new) ==
    LET rawKeys == raw.order
        newKeys == [k \in 1..Len(new) |-> new[k][1]]
        added == SelectSeq(newKeys, LAMBDA k : \A i \in 1..Len(rawKeys) : rawKeys[i] # k)
        NewVal(k) == new[CHOOSE i \in 1..Len(new) : new[i][1] = k][2]
        InNew(k) == \E i \in 1..Len(new) : new[i][1] = k
    IN [order |-> rawKeys \o added,
        value |-> [k \in Range(rawKeys) \cup Range(added) |-> IF InNew(k) THEN NewVal(k) ELSE ValOf(raw, k)]]

\* a logged Go paragraph equals an expected [order, value] paragraph
ParaIs(para, exp) ==
    /\ para.order = exp.order
    /\ Len(para.values) = Len(exp.order)
    /\ \A k \in 1..Len(exp.order) : HasVal(para, exp.order[k]) /\ ValOf(para, exp.order[k]) = exp.value[exp.order[k]]

\* the value the reader builds from a field's logical lines
GoValue(lines) == IF Len(lines) = 1 THEN lines[1]
                  ELSE IF lines[1] = <<>> THEN Concat([k \in 2..Len(lines) |-> lines[k] \o <<LF>>])
                  ELSE Concat([k \in 1..Len(lines) |-> lines[k] \o <<LF>>])

\* ---- round trip ---------------------------------------------------------------------
SameString(a, b) == a = b \/ a = b \o <<LF>> \/ b = a \o <<LF>>
SameField(d, a, b) ==
    IF d.key = "-" THEN TRUE
    ELSE IF d.kind = "string" THEN SameString(a, b)
    ELSE IF d.kind = "list" /\ d.elem = "string" THEN Len(a) = Len(b) /\ \A k \in 1..Len(a) : a[k] = b[k]
    ELSE a = b
SameValue(desc, a, b) == \A k \in 1..Len(desc) : desc[k].kind = "raw" \/ SameField(desc[k], a[desc[k].name], b[desc[k].name])
=============================================================================
