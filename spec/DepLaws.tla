------------------------------- MODULE DepLaws -------------------------------
(* M mode: the dependency Ref layer is self-consistent:                        *)
(*   RefParse(RenderDep(model, style, order)) = accept(DepToAst(model))        *)
(* and the architecture naming is a bijection on the C06 domain.               *)
EXTENDS DepDomain, TLC
VARIABLES x, ok
vars == <<x, ok>>
Init == x \in Renderings /\ ok = "pending"
Law(r) == LET t == RenderDep(r.dep, r.style, r.order)
              p == RefParse(t)
          IN p.class = "accept" /\ p.ast = DepToAst(r.dep)
Next == ok = "pending" /\ ok' = (IF Law(x) THEN "ok" ELSE "bad") /\ UNCHANGED x
Spec == Init /\ [][Next]_vars
Holds == ok # "bad"

\* architecture names: the canonical name of a triple denotes that triple again
Comp == {bAny, <<120>>, <<121>>, <<122>>}
Triples == {Triple(a, o, c) : a \in Comp, o \in Comp, c \in Comp} \cup {Triple(bAll, bAll, bAll), Triple(bGnu, bLinux, <<120>>), Triple(bGnu, bLinux, bAny)}
ASSUME \A t \in Triples : RefArchTriple(ArchName(t)) = t
ASSUME \A t, u \in Triples : Match(t, u).some => (Match(t, u).v = Match(u, t).v /\ Match(u, t).some)
=============================================================================
