SPECIFICATION Spec
CONSTANTS
  MaxToks = 4
  Toks = {1,2,3,4,5,6,7,8,9,10,11,12,13,14,15,16}
INVARIANTS Refines ParaInv Bounded
PROPERTY Terminates
CHECK_DEADLOCK FALSE
