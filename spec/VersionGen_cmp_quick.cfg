INIT GenInit
NEXT GenNext
CONSTANTS
  Alphabet = {48, 45, 126}
  MaxLen = 1
  Mode = "cmp"
CHECK_DEADLOCK FALSE
