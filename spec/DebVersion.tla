----------------------------- MODULE DebVersion -----------------------------
(***************************************************************************)
(* Debian version numbers (Policy 5.6.12, deb-version(7)).                 *)
(*                                                                         *)
(* Ref layer  : PolicyCmp / Compare (order), Key (total-preorder witness), *)
(*              Classify (grammar: well-formed / must-reject / unspecified)*)
(*              written from the Policy text, NOT from the Go code.        *)
(* Impl layer : ImplOrder / the verrevcmp machine lives in VerRevCmpMC;    *)
(*              ImplParse / ImplString mirror version.go.                  *)
(*                                                                         *)
(* A version value is a record [e |-> digits, u |-> bytes, r |-> bytes]:   *)
(* the epoch as a digit string (no integer is ever built: "no limit on     *)
(* magnitude"), upstream part and revision.                                *)
(***************************************************************************)
EXTENDS Bytes

\* ===================== Ref: ordering (C01, C02) =========================

\* Policy: "all the letters sort earlier than all the non-letters and so that a
\* tilde sorts before anything, even the end of a part".  End of a run = 0.
Weight(c) == IF c = TILDE THEN -1 ELSE IF IsAlpha(c) THEN c ELSE c + 256

NonDigitEnd(s, i) == FindFrom(s, i, DigitSet)            \* end (excl.) of the non-digit run at i
DigitEnd(s, i) == LeftIdx(s, i, DigitSet)                \* end (excl.) of the digit run at i

\* lexical comparison of s[i..ie-1] with t[j..je-1] under the modified alphabet
RECURSIVE LexRun(_, _, _, _, _, _)
LexRun(s, i, ie, t, j, je) ==
    IF i >= ie /\ j >= je THEN 0
    ELSE LET a == IF i < ie THEN Weight(s[i]) ELSE 0
             b == IF j < je THEN Weight(t[j]) ELSE 0
         IN IF a < b THEN -1 ELSE IF a > b THEN 1
            ELSE LexRun(s, i + 1, ie, t, j + 1, je)

\* Policy 5.6.12: chop the maximal non-digit prefix of both, compare lexically;
\* chop the maximal digit prefix of both, compare numerically; repeat.
RECURSIVE PolicyCmpFrom(_, _, _, _)
PolicyCmpFrom(s, i, t, j) ==
    IF i > Len(s) /\ j > Len(t) THEN 0
    ELSE LET ie == NonDigitEnd(s, i)
             je == NonDigitEnd(t, j)
             c1 == LexRun(s, i, ie, t, j, je)
         IN IF c1 # 0 THEN c1
            ELSE LET id == DigitEnd(s, ie)
                     jd == DigitEnd(t, je)
                     c2 == DigitsCmp(Slice(s, ie, id - 1), Slice(t, je, jd - 1))
                 IN IF c2 # 0 THEN c2 ELSE PolicyCmpFrom(s, id, t, jd)
PolicyCmp(s, t) == PolicyCmpFrom(s, 1, t, 1)

\* full version comparison: epoch numerically, then upstream, then revision
Compare(v, w) ==
    LET ce == DigitsCmp(v.e, w.e) IN
    IF ce # 0 THEN ce
    ELSE LET cu == PolicyCmp(v.u, w.u) IN
         IF cu # 0 THEN cu ELSE PolicyCmp(v.r, w.r)

\* ---- Key: an order-embedding of part strings into integer sequences -----
\* ~ -> 0, end-of-run -> 1, letters -> c+1, others -> c+257; digit run ->
\* <<stripped length>> \o digits.  Lexicographic order on the keys (with the
\* final end marker) is a total order, so agreement with PolicyCmp on a
\* domain shows PolicyCmp is a total preorder there (C02).
KW(c) == IF c = TILDE THEN 0 ELSE IF IsAlpha(c) THEN c + 1 ELSE c + 257
RECURSIVE KeyFrom(_, _, _)
KeyFrom(s, i, acc) ==
    IF i > Len(s) THEN acc
    ELSE LET ie == NonDigitEnd(s, i)
             id == DigitEnd(s, ie)
             run == [k \in 1..(ie - i) |-> KW(s[i + k - 1])]
             dig == StripZeros(Slice(s, ie, id - 1))
         IN KeyFrom(s, id, acc \o run \o <<1, Len(dig)>> \o dig)
Key(s) == KeyFrom(s, 1, <<>>)

\* Keys are compared as the infinite sequences Key(s) . (1,0)^omega : a string
\* that has ended behaves like an endless supply of empty runs.  Lexicographic
\* order on infinite integer sequences is a total order.
PadAt(k, i) == IF i <= Len(k) THEN k[i] ELSE IF (i - Len(k)) % 2 = 1 THEN 1 ELSE 0
RECURSIVE KeyLexFrom(_, _, _)
KeyLexFrom(a, b, i) ==
    IF i > Len(a) /\ i > Len(b) THEN 0
    ELSE IF PadAt(a, i) < PadAt(b, i) THEN -1
    ELSE IF PadAt(a, i) > PadAt(b, i) THEN 1
    ELSE KeyLexFrom(a, b, i + 1)
KeyLex(a, b) == KeyLexFrom(a, b, 1)

KeyCmp(v, w) ==
    LET ce == DigitsCmp(v.e, w.e) IN
    IF ce # 0 THEN ce
    ELSE LET cu == KeyLex(Key(v.u), Key(w.u)) IN
         IF cu # 0 THEN cu ELSE KeyLex(Key(v.r), Key(w.r))

\* ===================== Ref: grammar (C03) ===============================

IsPartChar(c) == IsAlnum(c) \/ c \in {DOT, PLUS, TILDE}
High(c) == c >= 128

CanonEpoch(d) == LET z == StripZeros(d) IN IF z = <<>> THEN <<48>> ELSE z
MkVersion(e, u, r) == [e |-> CanonEpoch(e), u |-> u, r |-> r]

\* Classify(s) = [class |-> "wellformed", v |-> version]
\*             | [class |-> "reject"] | [class |-> "unspecified"]
\* exactly as the property states it; everything it does not mention is
\* "unspecified" (either outcome allowed).
Classify(s) ==
    LET t == TrimSpace(s)
        WF(v) == [class |-> "wellformed", v |-> v]
        RJ == [class |-> "reject", v |-> MkVersion(<<>>, <<>>, <<>>)]
        UN == [class |-> "unspecified", v |-> MkVersion(<<>>, <<>>, <<>>)]
    IN
    IF AnyOf(s, High) THEN
        \* non-ASCII bytes: outside the Policy alphabet => reject, unless they sit
        \* only at the ends (could be Unicode white space, which the statement
        \* does not speak about)
        (LET core == TrimSet(s, SpaceSet \cup 128..255) IN
         IF AnyOf(core, High) THEN RJ ELSE UN)
    ELSE IF t = <<>> THEN RJ
    ELSE IF AnyOf(t, IsSpace) THEN RJ
    ELSE
    LET colon == IndexOf(t, COLON)
        estr == IF colon = 0 THEN <<>> ELSE Upto(t, colon - 1)
        rest == IF colon = 0 THEN t ELSE From(t, colon + 1)
        hyphen == LastIndexOf(rest, HYPHEN)
        up == IF hyphen = 0 THEN rest ELSE Upto(rest, hyphen - 1)
        rev == IF hyphen = 0 THEN <<>> ELSE From(rest, hyphen + 1)
        upOK == \A k \in 1..Len(up) :
                   IsPartChar(up[k]) \/ (up[k] = HYPHEN /\ hyphen # 0)
                                     \/ (up[k] = COLON /\ colon # 0)
        revOK == AllOf(rev, IsPartChar)
        \* epoch classes
        eDigits == estr # <<>> /\ AllOf(estr, IsDigit)
        eSig == Len(StripZeros(estr))
        eClass == IF colon = 0 THEN "none"
                  ELSE IF eDigits THEN
                         (IF eSig <= 9 THEN "ok" ELSE IF eSig >= 20 THEN "bad" ELSE "unspec")
                  ELSE IF Len(estr) >= 2 /\ estr[1] \in {PLUS, HYPHEN} /\ AllOf(From(estr, 2), IsDigit)
                            /\ (estr[1] = PLUS \/ StripZeros(From(estr, 2)) = <<>>)
                       THEN "unspec"          \* "+1:2", "-0:1": not in the grammar, not in the reject list
                  ELSE "bad"                  \* empty, negative or non-numeric
    IN
    IF eClass = "bad" THEN RJ
    ELSE IF rest = <<>> THEN RJ                                  \* nothing after the colon
    ELSE IF up # <<>> /\ ~IsDigit(up[1]) THEN RJ                 \* non-digit first character
    ELSE IF ~upOK \/ ~revOK THEN RJ                              \* outside the Policy alphabet
    ELSE IF up = <<>> THEN UN                                    \* "-1": empty upstream part
    ELSE IF hyphen # 0 /\ rev = <<>> THEN UN                     \* "1-": empty revision
    ELSE IF eClass = "unspec" THEN UN
    ELSE WF(MkVersion(estr, up, rev))

\* Rendering of a version value (only used to state the round-trip law and to
\* generate inputs): epoch printed iff non-zero or needed for unambiguity.
RenderFull(v) == v.e \o <<COLON>> \o v.u \o (IF v.r = <<>> THEN <<>> ELSE <<HYPHEN>> \o v.r)
RenderShort(v) == v.u \o (IF v.r = <<>> THEN <<>> ELSE <<HYPHEN>> \o v.r)

SameVersion(v, w) == CanonEpoch(v.e) = CanonEpoch(w.e) /\ v.u = w.u /\ v.r = w.r

\* ===================== Impl: version.go as written ======================

\* order() of version.go:114
ImplOrder(c) == IF IsDigit(c) THEN 0
                ELSE IF IsAlpha(c) THEN c
                ELSE IF c = TILDE THEN -1
                ELSE IF c # 0 THEN c + 256 ELSE 0

\* parseInto of version.go:207 on ASCII input (returns [ok, v])
ImplParse(s) ==
    LET t == TrimSpace(s)
        bad == [ok |-> FALSE, v |-> MkVersion(<<>>, <<>>, <<>>)]
    IN
    IF t = <<>> THEN bad
    ELSE IF AnyOf(t, IsSpace) THEN bad
    ELSE
    LET colon == IndexOf(t, COLON)
        estr == IF colon = 0 THEN <<>> ELSE Upto(t, colon - 1)
        \* strconv.ParseInt(base 10, 64 bit): optional sign, digits, < 2^63
        eBody == IF estr # <<>> /\ estr[1] \in {PLUS, HYPHEN} THEN From(estr, 2) ELSE estr
        eNum == eBody # <<>> /\ AllOf(eBody, IsDigit) /\
                DigitsCmp(eBody, <<57,50,50,51,51,55,50,48,51,54,56,53,52,55,55,53,56,48,55>>) <= 0
        eNeg == estr # <<>> /\ estr[1] = HYPHEN /\ StripZeros(eBody) # <<>>
        rest == IF colon = 0 THEN t ELSE From(t, colon + 1)
        hyphen == LastIndexOf(rest, HYPHEN)
        up == IF hyphen = 0 THEN rest ELSE Upto(rest, hyphen - 1)
        rev == IF hyphen = 0 THEN <<>> ELSE From(rest, hyphen + 1)
        upOK == \A k \in 1..Len(up) : IsPartChar(up[k]) \/ up[k] \in {HYPHEN, COLON}
    IN
    IF colon # 0 /\ (~eNum \/ eNeg) THEN bad
    ELSE IF rest = <<>> THEN bad
    ELSE IF up = <<>> THEN bad                  \* (after fix: empty upstream part rejected, as dpkg does)
    ELSE IF ~IsDigit(up[1]) THEN bad
    ELSE IF ~upOK \/ ~AllOf(rev, IsPartChar) THEN bad
    ELSE [ok |-> TRUE, v |-> MkVersion(eBody, up, rev)]

\* String() of version.go as pinned: epoch printed only when > 0, "-revision"
\* only when the revision is non-empty.  Not injective on accepted values:
\* "0:1:2" -> "1:2" (epoch 1), "0--" -> "0-" (upstream "0").
ImplStringPinned(v) ==
    (IF CanonEpoch(v.e) # <<48>> THEN v.e \o <<COLON>> ELSE <<>>) \o v.u \o
    (IF v.r # <<>> THEN <<HYPHEN>> \o v.r ELSE <<>>)
\* String() after the fix: a separator is also kept when dropping it would
\* change how the rendering re-parses (colon / hyphen inside the upstream part)
ImplString(v) ==
    (IF CanonEpoch(v.e) # <<48>> \/ Contains(v.u, COLON) THEN CanonEpoch(v.e) \o <<COLON>> ELSE <<>>)
    \o v.u \o
    (IF v.r # <<>> \/ Contains(v.u, HYPHEN) THEN <<HYPHEN>> \o v.r ELSE <<>>)
=============================================================================
