------------------------------ MODULE UploadApa ------------------------------
(***************************************************************************)
(* The Copy machine of Upload.tla / proofs/UploadProof.tla with type       *)
(* annotations for Apalache (symbolic, SMT-based): the same inductive       *)
(* invariant, strengthened with the success post-condition, checked for    *)
(* every N in 0..MaxFiles at once (ConstInit).  TLAPS proves ControlLast    *)
(* and ErrorMeansAbsent for arbitrary N; TLC explores the full Upload.tla   *)
(* up to 4 files; Apalache adds SuccessPost / FailureFree as consequences   *)
(* of an inductive invariant for up to MaxFiles files, by a third engine.  *)
(*   apalache-mc check --init=Init    --inv=Inv --length=0 UploadApa.tla    *)
(*   apalache-mc check --init=InvInit --inv=Inv --length=1 UploadApa.tla    *)
(*   apalache-mc check --init=InvInit --inv=Post --length=0 UploadApa.tla   *)
(***************************************************************************)
EXTENDS Integers
CONSTANT
    \* @type: Int;
    N
VARIABLES
    \* @type: Int -> Str;
    dst,
    \* @type: Int;
    k,
    \* @type: Str;
    stage,
    \* @type: Str;
    ret,
    \* @type: Bool;
    faulted
MaxFiles == 8
ConstInit == N \in 0..MaxFiles
Files == 0..MaxFiles                     \* a fixed superset of 0..N: functions have a static domain
States == {"absent", "empty", "partial", "full"}
First == IF N >= 1 THEN 1 ELSE 0
NextFile(i) == IF i = N THEN 0 ELSE i + 1

Init == /\ dst = [i \in Files |-> "absent"]
        /\ k = First /\ stage = "create" /\ ret = "none" /\ faulted = FALSE

Create == /\ stage = "create"
          /\ \/ dst' = [dst EXCEPT ![k] = "empty"] /\ stage' = "write" /\ UNCHANGED <<k, ret, faulted>>
             \/ stage' = "done" /\ ret' = "err" /\ faulted' = TRUE /\ UNCHANGED <<dst, k>>
Write == /\ stage = "write"
         /\ \/ dst' = [dst EXCEPT ![k] = "full"] /\ stage' = "close" /\ UNCHANGED <<k, ret, faulted>>
            \/ /\ dst' = [dst EXCEPT ![k] = "partial"] /\ faulted' = TRUE
               /\ IF k = 0 THEN stage' = "cleanup" /\ UNCHANGED ret ELSE stage' = "done" /\ ret' = "err"
               /\ UNCHANGED k
Close == /\ stage = "close"
         /\ \/ /\ IF k = 0 THEN stage' = "done" /\ ret' = "ok" /\ UNCHANGED <<dst, k>>
                           ELSE k' = NextFile(k) /\ stage' = "create" /\ UNCHANGED <<dst, ret>>
               /\ UNCHANGED faulted
            \/ /\ IF k = 0 THEN stage' = "cleanup" /\ UNCHANGED ret ELSE stage' = "done" /\ ret' = "err"
               /\ faulted' = TRUE /\ UNCHANGED <<dst, k>>
Cleanup == /\ stage = "cleanup"
           /\ dst' = [dst EXCEPT ![0] = "absent"] /\ stage' = "done" /\ ret' = "err" /\ UNCHANGED <<k, faulted>>
Next == Create \/ Write \/ Close \/ Cleanup

ControlLast == dst[0] # "absent" => \A i \in Files : (1 <= i /\ i <= N) => dst[i] = "full"
ErrorMeansAbsent == ret = "err" => dst[0] = "absent"
SuccessPost == ret = "ok" => \A i \in Files : i <= N => dst[i] = "full"
FailureReported == ret = "ok" => ~faulted
NothingBeyond == \A i \in Files : i > N => dst[i] = "absent"
Post == ControlLast /\ ErrorMeansAbsent /\ SuccessPost /\ FailureReported /\ NothingBeyond

TypeOK == /\ dst \in [Files -> States]
          /\ k \in 0..MaxFiles /\ k <= N
          /\ stage \in {"create", "write", "close", "cleanup", "done"}
          /\ ret \in {"none", "ok", "err"}
          /\ faulted \in BOOLEAN
Inv == /\ TypeOK
       /\ k # 0 => dst[0] = "absent"
       /\ k # 0 => \A i \in Files : (1 <= i /\ i < k) => dst[i] = "full"
       /\ k = 0 => \A i \in Files : (1 <= i /\ i <= N) => dst[i] = "full"
       /\ \A i \in Files : i > N => dst[i] = "absent"
       /\ (k # 0) => \A i \in Files : (i > k /\ i <= N) => dst[i] = "absent"
       /\ (k = 0 /\ stage = "create") => dst[0] = "absent"
       /\ (stage = "close") => dst[k] = "full"
       /\ (stage = "cleanup") => (k = 0 /\ faulted)
       /\ (ret = "err") => (stage = "done" /\ dst[0] = "absent" /\ faulted)
       /\ (ret = "ok") => (stage = "done" /\ k = 0 /\ dst[0] = "full" /\ ~faulted)
       /\ (stage = "done") => ret # "none"
       /\ (stage # "done" /\ stage # "cleanup") => ~faulted
InvInit == Inv
=============================================================================
