------------------------------- MODULE MoveApa -------------------------------
(***************************************************************************)
(* The Move machine of Upload.tla (one rename(2) per file, listed files    *)
(* first, the control file last; a rename either happens or fails and      *)
(* stops the operation) with type annotations for Apalache.  Besides the   *)
(* properties RemoveProof.tla proves for the source side, this looks at    *)
(* both directories at once:                                               *)
(*   OnePlace     every file of the upload is in exactly one of the two    *)
(*                directories in every state - never lost, never doubled   *)
(*   ControlLast  the control file is in the destination only when every   *)
(*                listed file is                                           *)
(*   ErrorKeepsControl, OkMeansMoved                                       *)
(* checked as consequences of an inductive invariant for every N in 0..8.  *)
(***************************************************************************)
EXTENDS Integers
CONSTANT
    \* @type: Int;
    N
VARIABLES
    \* @type: Int -> Bool;
    atSrc,
    \* @type: Int -> Bool;
    atDst,
    \* @type: Int;
    k,
    \* @type: Str;
    ret
MaxFiles == 8
ConstInit == N \in 0..MaxFiles
Files == 0..MaxFiles
First == IF N >= 1 THEN 1 ELSE 0
NextFile(i) == IF i = N THEN 0 ELSE i + 1

Init == /\ atSrc = [i \in Files |-> i <= N]
        /\ atDst = [i \in Files |-> FALSE]
        /\ k = First /\ ret = "none"
RenameOK == /\ ret = "none"
            /\ atSrc' = [atSrc EXCEPT ![k] = FALSE] /\ atDst' = [atDst EXCEPT ![k] = TRUE]      \* one atomic step
            /\ IF k = 0 THEN ret' = "ok" /\ UNCHANGED k ELSE k' = NextFile(k) /\ UNCHANGED ret
RenameFail == /\ ret = "none" /\ ret' = "err" /\ UNCHANGED <<atSrc, atDst, k>>
Next == RenameOK \/ RenameFail

OnePlace == \A i \in Files : i <= N => (atSrc[i] # atDst[i])
ControlLast == atDst[0] => \A i \in Files : (1 <= i /\ i <= N) => atDst[i]
ErrorKeepsControl == ret = "err" => (atSrc[0] /\ ~atDst[0])
OkMeansMoved == ret = "ok" => \A i \in Files : i <= N => (atDst[i] /\ ~atSrc[i])
NothingBeyond == \A i \in Files : i > N => (~atSrc[i] /\ ~atDst[i])
Post == OnePlace /\ ControlLast /\ ErrorKeepsControl /\ OkMeansMoved /\ NothingBeyond

Inv == /\ atSrc \in [Files -> BOOLEAN] /\ atDst \in [Files -> BOOLEAN]
       /\ k \in 0..MaxFiles /\ k <= N
       /\ ret \in {"none", "ok", "err"}
       /\ \A i \in Files : i > N => (~atSrc[i] /\ ~atDst[i])
       /\ \A i \in Files : i <= N => (atSrc[i] # atDst[i])
       /\ k # 0 => (atSrc[0] /\ \A i \in Files : (1 <= i /\ i < k) => atDst[i])
       /\ k # 0 => \A i \in Files : (k <= i /\ i <= N) => atSrc[i]
       /\ k = 0 => \A i \in Files : (1 <= i /\ i <= N) => atDst[i]
       /\ (k = 0 /\ ret = "none") => atSrc[0]
       /\ ret = "err" => atSrc[0]
       /\ ret = "ok" => (k = 0 /\ atDst[0])
InvInit == Inv
=============================================================================
