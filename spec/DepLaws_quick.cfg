SPECIFICATION Spec
CONSTANTS
  Orders = {"avs", "sva"}
  Styles = {"min", "canon", "wide", "fold"}
INVARIANT Holds
CHECK_DEADLOCK FALSE
