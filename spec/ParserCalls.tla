----------------------------- MODULE ParserCalls -----------------------------
(***************************************************************************)
(* C18: the text parsers are functions of their input.  Goroutines g each  *)
(* perform Begin(g, call, input) ... End(g, outcome); there is NO shared   *)
(* variable between goroutines in the specification, so the only           *)
(* behaviours it has are those in which every call ends with the outcome   *)
(* the function Baseline assigns to (call, input), whatever the            *)
(* interleaving.  An implementation with hidden shared state (a cache, a   *)
(* package-level buffer) shows up as a trace with a different outcome.     *)
(***************************************************************************)
EXTENDS Integers, Sequences, FiniteSets, TLC
CONSTANTS Goroutines, Calls, Inputs, Outcomes, Baseline(_, _), None
VARIABLES pending, done
vars == <<pending, done>>

Init == pending = [g \in Goroutines |-> None] /\ done = 0
Begin(g, c, i) == /\ pending[g] = None
                  /\ pending' = [pending EXCEPT ![g] = <<c, i>>]
                  /\ UNCHANGED done
End(g, o) == /\ pending[g] # None
             /\ o = Baseline(pending[g][1], pending[g][2])
             /\ pending' = [pending EXCEPT ![g] = None]
             /\ done' = done + 1
Next == \E g \in Goroutines : (\E c \in Calls, i \in Inputs : Begin(g, c, i)) \/ (\E o \in Outcomes : End(g, o))
Spec == Init /\ [][Next]_vars

\* number of calls in flight: > 1 means calls overlap
InFlight == Cardinality({g \in Goroutines : pending[g] # None})
=============================================================================
