--------------------------- MODULE DebVersionLaws ---------------------------
(***************************************************************************)
(* M-mode checks of the DebVersion Ref/Impl layers themselves (no Go):     *)
(*  "pairs"  : PolicyCmp agrees with the Key embedding and is antisymmetric*)
(*  "triples": reflexive, transitive, congruent on all triples             *)
(*  "digits" : strip/length/lex = comparison of integer values (<=9 digits)*)
(*  "parse"  : ImplParse refines Classify; render/parse fixpoint           *)
(* Heavy evaluation happens in Next (worker threads), Init only picks.     *)
(***************************************************************************)
EXTENDS DebVersion, TLC
CONSTANTS Alphabet, MaxLen, Mode
VARIABLES x, ok
vars == <<x, ok>>

Dom == SeqsUpTo(Alphabet, MaxLen)

Init == /\ ok = "pending"
        /\ CASE Mode = "pairs"   -> x \in Dom \X Dom
             [] Mode = "triples" -> x \in Dom \X Dom \X Dom
             [] Mode = "digits"  -> x \in Dom \X Dom
             [] Mode = "parse"   -> x \in Dom

Leq(s, t) == PolicyCmp(s, t) <= 0

PairLaw(s, t) ==
    /\ PolicyCmp(s, t) \in {-1, 0, 1}
    /\ PolicyCmp(s, t) = KeyLex(Key(s), Key(t))
    /\ PolicyCmp(t, s) = 0 - PolicyCmp(s, t)

TripleLaw(s, t, u) ==
    /\ PolicyCmp(s, s) = 0
    /\ (Leq(s, t) /\ Leq(t, u)) => Leq(s, u)
    /\ PolicyCmp(s, t) = 0 => PolicyCmp(s, u) = PolicyCmp(t, u)

DigitLaw(s, t) == DigitsCmp(s, t) = Sign(DigitsVal(s) - DigitsVal(t))

\* Impl => Allowed for the parser, and the render/re-parse fixpoint on the model
ParseLaw(s) ==
    LET c == Classify(s)
        p == ImplParse(s)
    IN /\ c.class = "wellformed" => (p.ok /\ SameVersion(p.v, c.v))
       /\ c.class = "reject" => ~p.ok
       /\ p.ok => LET r == ImplString(p.v)
                      q == ImplParse(r)
                      cr == Classify(r)
                  IN /\ q.ok /\ SameVersion(q.v, p.v)
                     /\ cr.class = "wellformed" => SameVersion(cr.v, p.v)
                     /\ cr.class # "reject"

Next == /\ ok = "pending"
        /\ ok' = IF CASE Mode = "pairs"   -> PairLaw(x[1], x[2])
                      [] Mode = "triples" -> TripleLaw(x[1], x[2], x[3])
                      [] Mode = "digits"  -> DigitLaw(x[1], x[2])
                      [] Mode = "parse"   -> ParseLaw(x)
                 THEN "ok" ELSE "bad"
        /\ UNCHANGED x
Spec == Init /\ [][Next]_vars
Holds == ok # "bad"
=============================================================================
