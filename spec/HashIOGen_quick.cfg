INIT GenInit
NEXT GenNext
CONSTANTS
  Chunkings = "few"
  Lens = {0, 64}
  LifeLen = 3
