---------------------------- MODULE ChangelogGen ----------------------------
(* G mode for C17: changelogs rendered from an entry-list model.              *)
EXTENDS Changelog, GenLib
CONSTANTS MaxEntries

D(wd, day, mon, year, hh, mm, ss, zneg, zh, zm) ==
    [wd |-> wd, day |-> day, mon |-> mon, year |-> year, hh |-> hh, mm |-> mm, ss |-> ss, zneg |-> zneg, zh |-> zh, zm |-> zm]
hello == <<104, 101, 108, 108, 111>>   libx == <<108, 105, 98, 45, 120, 50>>
unstable == <<117, 110, 115, 116, 97, 98, 108, 101>>   experimental == <<101, 120, 112, 101, 114, 105, 109, 101, 110, 116, 97, 108>>
urgency == <<117, 114, 103, 101, 110, 99, 121>>  low == <<108, 111, 119>>  medium == <<109, 101, 100, 105, 117, 109>>
binonly == <<98, 105, 110, 97, 114, 121, 45, 111, 110, 108, 121>>  yes == <<121, 101, 115>>
m1 == <<65, 32, 66, 32, 60, 97, 64, 98, 46, 111, 114, 103, 62>>                        \* A B <a@b.org>
m2 == <<195, 156, 110, 105, 32, 67, 46, 32, 79, 39, 68, 32, 60, 117, 64, 120, 62>>       \* Üni C. O'D <u@x>
l1 == <<SP, SP, 42, SP, 73, 110, 105, 116, 105, 97, 108, 46>>                           \* "  * Initial."
l2 == <<SP, SP, SP, SP, 99, 111, 110, 116, 59, 32, 120, 61, 121>>                        \* "    cont; x=y"
l3 == <<SP, SP, 91, 32, 83, 32, 93>>                                                     \* "  [ S ]"
l4 == <<SP, DOT>>
Body1 == <<<<>>, l1, <<>>>>
Body2 == <<<<>>, l1, l2, <<>>, l3, l1, <<>>>>
Body3 == <<l1>>
Body4 == <<<<>>, l4, l2, <<>>, <<>>>>
l5 == <<SP, SP, 42, SP, 116, 114, 97, 105, 108, SP, SP>>                                 \* "  * trail  "  (trailing blanks are text)
l6 == <<SP>>                                                                             \* " "            (a line holding one blank)
l7 == <<SP, SP, 116, 97, 98, TAB>>                                                       \* "  tab\t"
Body5 == <<<<>>, l5, l6, l7, <<>>>>
E(src, ver, dists, opts, body, maint, date) ==
    [source |-> src, version |-> ver, dists |-> dists, opts |-> opts, body |-> body, maint |-> maint, date |-> date]
Entries == {
    E(hello, <<50, 46, 49, 48, 45, 49>>, <<unstable>>, << <<urgency, low>> >>, Body1, m1, D(1, 2, 1, 2006, 15, 4, 5, TRUE, 7, 0)),
    E(libx, <<49, 58, 48, 46, 53, 126, 114, 99, 49>>, <<unstable, experimental>>, << <<urgency, medium>>, <<binonly, yes>> >>, Body2, m2,
      D(4, 29, 2, 2024, 23, 59, 59, FALSE, 5, 30)),
    E(hello, <<50, 46, 57>>, <<experimental>>, << <<urgency, low>> >>, Body3, m1, D(6, 31, 12, 2022, 0, 0, 0, FALSE, 0, 0)),
    E(libx, <<48, 46, 49, 43, 98, 49>>, <<unstable>>, << <<urgency, medium>> >>, Body4, m2, D(7, 1, 3, 2015, 12, 30, 1, TRUE, 11, 0)),
    E(hello, <<51>>, <<unstable>>, << <<urgency, low>> >>, Body5, m1, D(5, 13, 6, 2025, 9, 8, 7, FALSE, 2, 0)),
    \* an option value with blanks and brackets inside, as dpkg writes an urgency comment: "urgency=medium (HIGH for users)"
    E(hello, <<52>>, <<unstable>>, << <<urgency, medium \o <<SP, 40, 72, 73, 71, 72, SP, 102, 111, 114, SP, 117, 115, 101, 114, 115, 41>>>>, <<binonly, yes>> >>, Body1, m1,
      D(1, 2, 1, 2006, 15, 4, 5, FALSE, 1, 0)),
    \* an option value that holds the '=' itself: key "note", value "a=b"
    E(hello, <<53>>, <<unstable>>, << <<urgency, low>>, <<<<110, 111, 116, 101>>, <<97, 61, 98>>>> >>, Body1, m1, D(1, 2, 1, 2006, 15, 4, 5, TRUE, 2, 0)) }
Models == UNION {[1..n -> Entries] : n \in 1..MaxEntries}
\* a header whose epoch is written with a leading zero: "010:2.10-1" is epoch ten
ZeroEpoch == E(hello, <<49, 48, COLON, 50, 46, 49, 48, HYPHEN, 49>>, <<unstable>>, << <<urgency, low>> >>, Body3, m1, D(1, 2, 1, 2006, 15, 4, 5, TRUE, 7, 0))
             @@ [vtext |-> <<48, 49, 48, COLON, 50, 46, 49, 48, HYPHEN, 49>>]
Vec(es, lead, gap, final) ==
    LET r == RenderChangelog(es, lead, gap, final) IN
    [k |-> "cl", entries |-> es, lead |-> lead, gap |-> gap, final |-> final, bytes |-> r.bytes, ends |-> r.ends]
\* every sign x hour x minute combination of the zone (half- and quarter-hour zones, west and east of Greenwich)
\* options separated by a bare comma, or by a comma between blanks
SepEntries == {E(hello, <<54>>, <<unstable>>, << <<urgency, medium>>, <<binonly, yes>>, <<<<99, 108, 111, 115, 101, 115>>, <<49, 50, 51>>>> >>, Body1, m1,
                 D(1, 2, 1, 2006, 15, 4, 5, TRUE, 7, 0)) @@ [osep |-> sp] : sp \in {<<COMMA>>, <<SP, COMMA, SP, SP>>, <<COMMA, TAB>>}}
\* change lines that hold the trailer's " -- " in the middle, or begin like a trailer after deeper indentation
l8 == <<SP, SP, 42, SP, 112, 97, 115, 115, SP, HYPHEN, HYPHEN, 120, SP, HYPHEN, HYPHEN, SP, HYPHEN, HYPHEN, 104, 111, 115, 116>>   \* "  * pass --x -- --host"
l9 == <<SP, SP, HYPHEN, HYPHEN, SP, 110, 111, 116, SP, 97, SP, 116, 114, 97, 105, 108, 101, 114>>                                  \* "  -- not a trailer"
\* a change line that ends in a carriage return (the text is verbatim, whatever it ends in)
l10 == <<SP, SP, 42, SP, 99, 114, CR>>                                                      \* "  * cr\r"
CrEntries == {E(hello, <<56>>, <<unstable>>, << <<urgency, low>> >>, <<<<>>, l10, l1, <<>>>>, m1, D(1, 2, 1, 2006, 15, 4, 5, TRUE, 7, 0))}
DashEntries == {E(hello, <<55>>, <<unstable>>, << <<urgency, low>> >>, <<<<>>, l8, l9, <<>>>>, m1, D(1, 2, 1, 2006, 15, 4, 5, TRUE, 7, 0))}
ZoneEntries == {E(hello, <<49>>, <<unstable>>, << <<urgency, low>> >>, Body3, m1, D(1, 2, 1, 2006, 15, 4, 5, zn, zh, zm)) :
                   zn \in BOOLEAN, zh \in {0, 3, 9, 12}, zm \in {0, 30, 45}}
\* two entries whose version texts share their first 16 bytes: 1:2.36.1-8+deb11u2 over 1:2.36.1-8+deb11u1
lv(d) == <<49, COLON, 50, DOT, 51, 54, DOT, 49, HYPHEN, 56, PLUS, 100, 101, 98, 49, 49, 117, 48 + d>>
LongVerPair == <<E(hello, lv(2), <<unstable>>, << <<urgency, low>> >>, Body3, m1, D(1, 2, 1, 2006, 15, 4, 5, TRUE, 7, 0)),
                 E(hello, lv(1), <<unstable>>, << <<urgency, low>> >>, Body3, m1, D(7, 1, 1, 2006, 15, 4, 5, TRUE, 7, 0))>>
\* trailers in the offsets that daylight-saving zones have in winter and in summer: +0100 in January, +0200 in July (Berlin),
\* -0500 / -0400 (New York), +1100 / +1030 (Lord Howe)
DstEntries == {E(hello, <<57>>, <<unstable>>, << <<urgency, low>> >>, Body3, m1, D(4, 15, mo, 2015, 12, 3, 40, zn, zh, zm)) :
                  mo \in {1, 7}, zn \in BOOLEAN, zh \in {1, 2, 4, 5, 10, 11}, zm \in {0, 30}}
ASSUME Emit(SetToSeq({Vec(es, lead, gap, final) : es \in Models, lead \in {0, 1}, gap \in {1, 2}, final \in BOOLEAN})
            \o SetToSeq({Vec(<<e>>, 0, 1, TRUE) : e \in ZoneEntries \cup SepEntries \cup DashEntries \cup CrEntries \cup DstEntries} \cup {Vec(<<ZeroEpoch>>, 0, 1, TRUE), Vec(LongVerPair, 0, 1, TRUE)}))
=============================================================================
