SPECIFICATION Spec
CONSTANTS
  Orders = {"avs", "sva", "vas", "vsa", "asv", "sav"}
  Styles = {"min", "canon", "wide", "fold"}
INVARIANT Holds
CHECK_DEADLOCK FALSE
