------------------------------- MODULE HashIO -------------------------------
(***************************************************************************)
(* hashio writers/readers and FileHash verifiers with IDEAL digests:       *)
(* Digest(alg, content) is injective in both arguments.  Whether concrete  *)
(* bytes are the true MD5/SHA-1/SHA-256/SHA-512 of a stream is ground      *)
(* truth supplied by the harness (Go crypto); the plumbing - what each     *)
(* hasher absorbed, what passed through, what size is reported, which      *)
(* algorithm an entry is verified under, when Close succeeds - is the      *)
(* specification's.                                                        *)
(***************************************************************************)
EXTENDS Integers, Sequences, FiniteSets
Algs == {"md5", "sha1", "sha256", "sha512"}
Digest(alg, content) == <<alg, content>>

\* state of one hasher: what it absorbed
NewHasher(alg) == [alg |-> alg, absorbed |-> <<>>]
Absorb(h, chunk) == [h EXCEPT !.absorbed = @ \o chunk]
SizeOf(h) == Len(h.absorbed)
SumOf(h) == Digest(h.alg, h.absorbed)

\* NewHasherWriter(s): one Write(chunk) reaches the target and every hasher
WriteAll(hs, target, chunk) == [hs |-> [i \in 1..Len(hs) |-> Absorb(hs[i], chunk)], target |-> target \o chunk]
\* NewHasherReader(s): Read(buf of k) gives the consumer min(k, rest) units, and the hashers exactly those
ReadSome(hs, source, pos, k) ==
    LET m == IF k < Len(source) - pos THEN k ELSE Len(source) - pos
        got == SubSeq(source, pos + 1, pos + m)
    IN [hs |-> [i \in 1..Len(hs) |-> Absorb(hs[i], got)], got |-> got, pos |-> pos + m]

\* a checksum entry and its verifier
Entry(alg, hash) == [alg |-> alg, hash |-> hash]
Accepts(entry, content) == entry.alg \in Algs /\ Digest(entry.alg, content) = entry.hash
=============================================================================
