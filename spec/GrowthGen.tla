------------------------------ MODULE GrowthGen ------------------------------
(* G mode for the growth specification (Growth.tla). *)
EXTENDS Growth, ChangelogHeader, GenLib

\* 1. version accessors: structured versions
Es == {<<48>>, <<49>>, <<49, 50>>}
Us == {<<>>, <<49>>, <<49, 46, 48>>, <<49, HYPHEN, 50>>, <<49, COLON, 50>>}
Rs == {<<>>, <<49>>, <<48, 126, 49>>}
VAcc == {[k |-> "vacc", v |-> [e |-> e, u |-> u, r |-> r]] : e \in Es, u \in Us, r \in Rs}

\* 2. architecture lists: 0..3 names joined by each separator
amd64 == <<97, 109, 100, 54, 52>>  i386 == <<105, 51, 56, 54>>  linuxany == <<108, 105, 110, 117, 120, 45, 97, 110, 121>>
NamesA == {amd64, bAny, bAll, linuxany, <<109, 117, 115, 108, 45, 108, 105, 110, 117, 120, 45, 97, 114, 109, 104, 102>>}
Seps == {<<SP>>, <<SP, SP>>, <<LF, SP>>, <<TAB>>, <<SP, LF>>, <<CR, LF, SP>>}
ListsA == {<<>>} \cup {<<a>> : a \in NamesA} \cup {<<a, b>> : a \in NamesA, b \in NamesA} \cup {<<amd64, i386, linuxany>>}
ArchsV == {[k |-> "archs", text |-> lead \o Join(l, sp) \o trail, sep |-> sp] :
              l \in ListsA, sp \in Seps, lead \in {<<>>, <<SP>>}, trail \in {<<>>, <<SP>>, <<LF>>}}
Comp == {bAny, bAll, <<120>>, <<121>>}
WildV == {[k |-> "wild", t |-> Triple(a, o, c)] : a \in Comp, o \in Comp, c \in Comp}

\* 3. by-hash
Paths == {<<80>>, <<100, SLASH, 80>>, <<SLASH, 80>>, <<SLASH, 97, SLASH, 98, SLASH, 80, DOT, 103, 122>>, <<97, SLASH, 98, SLASH, 80>>}
hexA == <<97, 98, 99, 100, 48, 49>>
ByHashV == {[k |-> "byhash", path |-> p, alg |-> a, hash |-> hexA] : p \in Paths, a \in {"md5", "sha1", "sha256", "sha512"}}

\* 4. .changes -> .dsc : the names listed in Files, in order
tgz == <<112, 107, 103, 95, 49, 46, 48, 46, 116, 97, 114, 46, 103, 122>>         \* pkg_1.0.tar.gz
dscA == <<112, 107, 103, 95, 49, 46, 48, 46, 100, 115, 99>>                       \* pkg_1.0.dsc
dscB == <<111, 116, 104, 101, 114, 95, 50, 46, 100, 115, 99>>                     \* other_2.dsc
debA == <<112, 107, 103, 95, 49, 46, 48, 95, 97, 108, 108, 46, 100, 101, 98>>     \* pkg_1.0_all.deb
notdsc == <<120, 46, 100, 115, 99, 46, 97, 115, 99>>                              \* x.dsc.asc
GetDscV == {[k |-> "getdsc", names |-> ns] : ns \in {<<tgz, dscA>>, <<dscA, tgz>>, <<debA>>, <<>>, <<tgz, debA, notdsc>>, <<dscB, dscA>>, <<notdsc, dscA, dscB>>}}

\* 5. compressors
CompV == {[k |-> "compressor", name |-> n] : n \in {"gz", "xz", "", "bz2", "GZ", "zst"}}
         \cup {[k |-> "decompressor", ext |-> e] : e \in {".gz", ".bz2", ".xz", ".lzma", ".zst", "", ".tar", ".GZ", "gz", ".zip"}}
\* limits in bytes; the harness compresses with `xz -0` (dictionary 256 KiB = 262144)
XzV == {[k |-> "xzdict", limits |-> l, dict |-> 262144] : l \in {<<0>>, <<65536>>, <<262144>>, <<1048576>>, <<65536, 0>>, <<65536, 1048576, 65536>>, <<0, 4096, 0>>}}

\* 6. LoadFile lifecycle: handle 1 and 2 on the same file; closing through the returned closer ("c"), through
\* Deb.Close ("d"), both, twice; a file that is not a package
LOps == {<<"open1", "c1">>, <<"open1", "d1">>, <<"open1", "c1", "d1">>, <<"open1", "d1", "c1">>, <<"open1", "c1", "c1">>,
         <<"open1", "open2", "c1", "c2">>, <<"open1", "open2", "d2", "d1">>, <<"openbad">>, <<"openbad", "open1", "c1">>,
         <<"openmissing">>, <<"open1", "read1", "c1">>, <<"open1", "c1", "open2", "read2", "d2">>}
LoadFileV == {[k |-> "loadfile", ops |-> o] : o \in LOps}

\* 7. file variants
FileV == {[k |-> "filevariants"]}

\* 8. changelog header lines (ChangelogHeader.tla): every string of <= 3 tokens and every single edit (token removed,
\* replaced, inserted) of three complete headers; the harness wraps each in a one-entry changelog
HToks == << <<97>>, <<98, HYPHEN, 49>>, <<49>>, <<49, HYPHEN, 50>>, <<SP>>, <<LPAREN>>, <<RPAREN>>, <<SEMI>>, <<COMMA>>, <<EQ>>, <<TAB>>,
            <<49, COLON, 50, TILDE, 97>>, <<95, 120>>, <<SP, SP>>, <<85>> >>
HLine(ts) == Concat([k \in 1..Len(ts) |-> HToks[ts[k]]])
HBases == { <<1, 5, 6, 3, 7, 5, 1, 8, 5, 1, 10, 3>>,
            <<2, 5, 6, 4, 7, 5, 1, 5, 2, 8, 5, 1, 10, 1, 9, 5, 2, 10, 3>>,
            <<1, 5, 6, 3, 7, 5, 1, 8>>,
            <<13, 5, 6, 12, 7, 14, 15, 8, 5, 15, 10, 5, 1, 5, 1, 9, 2, 10, 3, 5>> }
HEdits(b) == {b} \cup {Upto(b, i - 1) \o From(b, i + 1) : i \in 1..Len(b)}
             \cup {Upto(b, i - 1) \o <<t>> \o From(b, i + 1) : i \in 1..Len(b), t \in 1..Len(HToks)}
             \cup {Upto(b, i) \o <<t>> \o From(b, i + 1) : i \in 0..Len(b), t \in 1..Len(HToks)}
HdrV == {[k |-> "clheader", line |-> HLine(ts)] : ts \in UNION {[1..n -> 1..11] : n \in 0..3} \cup UNION {HEdits(b) : b \in HBases}}

\* 9. a source that fails once (transient read error) after `at` bytes of a plain two-paragraph document
FaultDoc == <<80, 58, 32, 97, 10, 86, 58, 32, 49, 10, 10, 80, 58, 32, 98, 10, 86, 58, 32, 50, 10>>      \* "P: a\nV: 1\n\nP: b\nV: 2\n"
SrcFaultV == {[k |-> "srcfault", doc |-> FaultDoc, at |-> a] : a \in {0, 3, 5, 14, 15, 16, 20, 21}}

\* 10. blanks between a field name and its colon (dpkg skips them; deb822(5) does not write them): documents of two
\* paragraphs, a continuation line and a repeated name in the second, with every blank run in front of every colon
CBDoc(w) == <<80, 97, 99, 107, 97, 103, 101>> \o w \o <<COLON, SP, 97, LF>> \o <<68, 101, 115, 99>> \o w \o <<COLON, SP, 115, LF, SP, 108, LF, LF>>
            \o <<80, 97, 99, 107, 97, 103, 101>> \o w \o <<COLON, SP, 98, LF>> \o <<88>> \o w \o <<COLON, LF>>
ColonBlankV == {[k |-> "colonblank", doc |-> CBDoc(w), plain |-> CBDoc(<<>>)] : w \in {<<SP>>, <<TAB>>, <<SP, SP>>, <<SP, TAB>>}}

\* 11. the reflection API outside its documents' use
ApiV == {[k |-> "api", case |-> c] : c \in ApiCases}

ASSUME Emit(SetToSeq(ApiV) \o SetToSeq(ColonBlankV) \o SetToSeq(SrcFaultV) \o SetToSeq(HdrV) \o SetToSeq(VAcc \cup WildV \cup ByHashV \cup GetDscV \cup CompV \cup XzV \cup LoadFileV \cup FileV) \o SetToSeq(ArchsV))
=============================================================================
