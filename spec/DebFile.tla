------------------------------- MODULE DebFile -------------------------------
(***************************************************************************)
(* deb.LoadFile: a package loaded from a path holds one descriptor on its  *)
(* file until it is closed through the returned closer or through          *)
(* Deb.Close (either, both, repeatedly).  Impl layer: the steps of         *)
(* LoadFile as in deb/deb.go - open, load (may fail), install the closer   *)
(* that also closes the file.                                              *)
(*   Balanced : descriptors held = handles that are open or half-way       *)
(*   Quiet    : when nothing is open or in flight, nothing is held         *)
(***************************************************************************)
EXTENDS Naturals, FiniteSets
CONSTANTS Handles
VARIABLES state, fds
vars == <<state, fds>>
\* none -> opened (fd held) -> loaded | failed ; failed -> none (fd released) ; loaded -> closed (fd released) ; closed -> closed
Init == state = [h \in Handles |-> "none"] /\ fds = 0
OsOpen(h)   == state[h] = "none"   /\ state' = [state EXCEPT ![h] = "opened"] /\ fds' = fds + 1
LoadOK(h)   == state[h] = "opened" /\ state' = [state EXCEPT ![h] = "loaded"] /\ UNCHANGED fds
LoadFail(h) == state[h] = "opened" /\ state' = [state EXCEPT ![h] = "none"] /\ fds' = fds - 1      \* fd.Close() on the error path
Close(h)    == state[h] = "loaded" /\ state' = [state EXCEPT ![h] = "closed"] /\ fds' = fds - 1    \* closer or Deb.Close
CloseAgain(h) == state[h] = "closed" /\ UNCHANGED vars                                          \* a second close releases nothing
Next == \E h \in Handles : OsOpen(h) \/ LoadOK(h) \/ LoadFail(h) \/ Close(h) \/ CloseAgain(h)
Spec == Init /\ [][Next]_vars
Balanced == fds = Cardinality({h \in Handles : state[h] \in {"opened", "loaded"}})
Quiet == (\A h \in Handles : state[h] \in {"none", "closed"}) => fds = 0
=============================================================================
