------------------------------- MODULE Bytes -------------------------------
(***************************************************************************)
(* Byte strings are sequences of integers 0..255.  Every operator here is  *)
(* index based (no Tail recursion: TLC's Tail is linear, so Tail recursion *)
(* is quadratic).  Reused by every other module of the specification.      *)
(***************************************************************************)
EXTENDS Integers, Sequences, FiniteSets

\* ---- character classes -------------------------------------------------
IsDigit(c) == c >= 48 /\ c <= 57
IsLower(c) == c >= 97 /\ c <= 122
IsUpper(c) == c >= 65 /\ c <= 90
IsAlpha(c) == IsLower(c) \/ IsUpper(c)
IsAlnum(c) == IsAlpha(c) \/ IsDigit(c)
\* ASCII white space as Go's unicode.IsSpace sees it below 0x80 (plus 0x85/0xA0
\* in Latin-1, which cannot occur in valid UTF-8 as single bytes).
IsSpace(c) == c \in {9, 10, 11, 12, 13, 32}
IsBlank(c) == c \in {32, 9}            \* space, tab
IsWS4(c)   == c \in {32, 9, 10, 13}    \* space tab LF CR

SP == 32  TAB == 9  LF == 10  CR == 13
COLON == 58  HYPHEN == 45  TILDE == 126  PLUS == 43  DOT == 46
COMMA == 44  PIPE == 124  LPAREN == 40  RPAREN == 41  LBRACK == 91
RBRACK == 93  LT == 60  GT == 62  BANG == 33  DOLLAR == 36  LBRACE == 123
RBRACE == 125  EQ == 61  HASH == 35  SLASH == 47  BACKTICK == 96

\* ---- slicing -------------------------------------------------------------
Slice(s, i, j) == IF j < i THEN <<>> ELSE [k \in 1..(j - i + 1) |-> s[i + k - 1]]
From(s, i) == Slice(s, i, Len(s))
Upto(s, j) == Slice(s, 1, j)

Min2(a, b) == IF a < b THEN a ELSE b
Max2(a, b) == IF a > b THEN a ELSE b

\* first index k >= i with s[k] \in S (S a set of bytes), or Len(s)+1
RECURSIVE FindFrom(_, _, _)
FindFrom(s, i, S) == IF i > Len(s) THEN Len(s) + 1
                     ELSE IF s[i] \in S THEN i ELSE FindFrom(s, i + 1, S)

\* first index k >= i with s[k] = c, or 0
RECURSIVE IndexFrom(_, _, _)
IndexFrom(s, i, c) == IF i > Len(s) THEN 0
                      ELSE IF s[i] = c THEN i ELSE IndexFrom(s, i + 1, c)
IndexOf(s, c) == IndexFrom(s, 1, c)

\* last index k <= i with s[k] = c, or 0
RECURSIVE LastIndexFrom(_, _, _)
LastIndexFrom(s, i, c) == IF i < 1 THEN 0
                          ELSE IF s[i] = c THEN i ELSE LastIndexFrom(s, i - 1, c)
LastIndexOf(s, c) == LastIndexFrom(s, Len(s), c)

Contains(s, c) == \E k \in 1..Len(s) : s[k] = c
AllOf(s, P(_)) == \A k \in 1..Len(s) : P(s[k])
AnyOf(s, P(_)) == \E k \in 1..Len(s) : P(s[k])

HasPrefix(s, p) == Len(p) <= Len(s) /\ \A k \in 1..Len(p) : s[k] = p[k]
HasSuffix(s, p) == Len(p) <= Len(s) /\
                   \A k \in 1..Len(p) : s[Len(s) - Len(p) + k] = p[k]
\* does p occur in s at position i
OccursAt(s, i, p) == i >= 1 /\ i + Len(p) - 1 <= Len(s) /\
                     \A k \in 1..Len(p) : s[i + k - 1] = p[k]
ContainsSeq(s, p) == \E i \in 1..(Len(s) - Len(p) + 1) : OccursAt(s, i, p)

\* ---- trimming ------------------------------------------------------------
\* (character sets are passed as sets of bytes: SANY does not allow
\* recursive higher-order operators)
SpaceSet == {9, 10, 11, 12, 13, 32}
WS4Set   == {32, 9, 10, 13}
DigitSet == 48..57
RECURSIVE LeftIdx(_, _, _)   \* first index >= i whose char is not in S, or Len+1
LeftIdx(s, i, S) == IF i > Len(s) THEN Len(s) + 1
                    ELSE IF s[i] \in S THEN LeftIdx(s, i + 1, S) ELSE i
RECURSIVE RightIdx(_, _, _)  \* last index <= i whose char is not in S, or 0
RightIdx(s, i, S) == IF i < 1 THEN 0
                     ELSE IF s[i] \in S THEN RightIdx(s, i - 1, S) ELSE i

TrimLeftSet(s, S)  == From(s, LeftIdx(s, 1, S))
TrimRightSet(s, S) == Upto(s, RightIdx(s, Len(s), S))
TrimSet(s, S)      == Slice(s, LeftIdx(s, 1, S), RightIdx(s, Len(s), S))
TrimSpace(s)       == TrimSet(s, SpaceSet)
TrimRightSpace(s)  == TrimRightSet(s, SpaceSet)

\* ---- splitting and joining ---------------------------------------------
\* Split s on the single byte c: always returns at least one piece.
RECURSIVE SplitFrom(_, _, _, _)
SplitFrom(s, i, c, acc) ==
    LET k == IndexFrom(s, i, c) IN
    IF k = 0 THEN Append(acc, From(s, i))
    ELSE SplitFrom(s, k + 1, c, Append(acc, Slice(s, i, k - 1)))
Split(s, c) == SplitFrom(s, 1, c, <<>>)

RECURSIVE JoinFrom(_, _, _, _)
JoinFrom(parts, k, sep, acc) ==
    IF k > Len(parts) THEN acc
    ELSE JoinFrom(parts, k + 1, sep,
                  IF k = 1 THEN parts[k] ELSE acc \o sep \o parts[k])
Join(parts, sep) == JoinFrom(parts, 1, sep, <<>>)

RECURSIVE Flatten(_, _, _)
Flatten(parts, k, acc) == IF k > Len(parts) THEN acc
                          ELSE Flatten(parts, k + 1, acc \o parts[k])
Concat(parts) == Flatten(parts, 1, <<>>)

\* Lines of a document: split on LF; a final piece is kept only if non-empty
\* (a document ending in LF has no extra empty last line).  A trailing CR is
\* NOT removed here; callers decide (CRLF awareness).
Lines(doc) == LET p == Split(doc, LF) IN
              IF p[Len(p)] = <<>> THEN Upto(p, Len(p) - 1) ELSE p
StripCR(line) == IF Len(line) > 0 /\ line[Len(line)] = CR
                 THEN Upto(line, Len(line) - 1) ELSE line

Range(f) == {f[x] : x \in DOMAIN f}
NoDup(seq) == \A i, j \in 1..Len(seq) : seq[i] = seq[j] => i = j

\* ---- arithmetic on digit strings (never builds an integer) --------------
StripZeros(d) == From(d, LeftIdx(d, 1, {48}))

\* lexicographic comparison of two equal-length digit strings
RECURSIVE LexEq(_, _, _)
LexEq(a, b, i) == IF i > Len(a) THEN 0
                  ELSE IF a[i] < b[i] THEN -1
                  ELSE IF a[i] > b[i] THEN 1 ELSE LexEq(a, b, i + 1)

\* numeric comparison of two digit strings of any length (empty = 0)
DigitsCmp(a, b) ==
    LET x == StripZeros(a)  y == StripZeros(b) IN
    IF Len(x) < Len(y) THEN -1 ELSE IF Len(x) > Len(y) THEN 1 ELSE LexEq(x, y, 1)

\* value of a short digit string (only for <= 9 digits: TLC ints are 32 bit)
RECURSIVE DigitsValFrom(_, _, _)
DigitsValFrom(d, i, acc) == IF i > Len(d) THEN acc
                            ELSE DigitsValFrom(d, i + 1, acc * 10 + (d[i] - 48))
DigitsVal(d) == DigitsValFrom(d, 1, 0)

\* decimal rendering of a natural number
RECURSIVE NatToDigits(_)
NatToDigits(n) == IF n < 10 THEN <<48 + n>> ELSE NatToDigits(n \div 10) \o <<48 + (n % 10)>>

\* lexicographic comparison of integer sequences (shorter prefix is smaller)
RECURSIVE LexIntCmpFrom(_, _, _)
LexIntCmpFrom(a, b, i) ==
    IF i > Len(a) /\ i > Len(b) THEN 0
    ELSE IF i > Len(a) THEN -1
    ELSE IF i > Len(b) THEN 1
    ELSE IF a[i] < b[i] THEN -1
    ELSE IF a[i] > b[i] THEN 1
    ELSE LexIntCmpFrom(a, b, i + 1)
LexIntCmp(a, b) == LexIntCmpFrom(a, b, 1)

Sign(n) == IF n < 0 THEN -1 ELSE IF n > 0 THEN 1 ELSE 0

\* all sequences over alphabet A of length 0..n
SeqsUpTo(A, n) == UNION {[1..k -> A] : k \in 0..n}
=============================================================================
