----------------------------- MODULE BuildOrderGen -----------------------------
(* G mode for C19: all small build-dependency graphs, rendered as .dsc files.  *)
EXTENDS BuildOrder, GenLib
CONSTANTS N, Labels, Fill
SrcName(i) == <<115, 48 + i>>                      \* s<i>
Bin(i, k) == IF k = 2 THEN <<115, 48 + i, HYPHEN, 195, 169>> ELSE <<115, 48 + i, HYPHEN, 96 + k>>       \* s<i>-a, s<i>-é (a name is its bytes, ASCII or not)
Ext == <<100, 101, 98, 104, 101, 108, 112, 101, 114>>   \* debhelper (not built by any source here)
Pairs == {<<i, j>> \in (1..N) \X (1..N) : i # j}
\* label of the ordered pair (i, j): how does source j refer to a binary of source i?
\*   "none"         no relation
\*   "dep"          j build-depends on i's SECOND binary            -> edge
\*   "dep-arch"     the same, restricted to the target architecture  -> edge
\*   "unselected"   "debhelper | <i's binary>"  first alternative wins -> no edge
\*   "other-arch"   restricted to another architecture               -> no edge
\*   "after-subst"  "${x} | <i's binary>"  substvar skipped            -> edge
\*   "fallback"     "<foreign> [other arch] | <i's binary>"            -> edge
RelFor(label, i) ==
    CASE label = "dep"         -> << <<[name |-> Bin(i, 2), restr |-> "none"]>> >>
      [] label = "dep-arch"    -> << <<[name |-> Bin(i, 1), restr |-> "only-target"]>> >>
      [] label = "unselected"  -> << <<[name |-> Ext, restr |-> "none"], [name |-> Bin(i, 2), restr |-> "none"]>> >>
      [] label = "other-arch"  -> << <<[name |-> Bin(i, 2), restr |-> "only-other"]>> >>
      [] label = "after-subst" -> << <<[name |-> <<120>>, restr |-> "substvar"], [name |-> Bin(i, 2), restr |-> "not-other"]>> >>
      [] label = "fallback"    -> << <<[name |-> Ext, restr |-> "not-target"], [name |-> Bin(i, 1), restr |-> "none"]>> >>
      [] label = "excluded"    -> << <<[name |-> Bin(i, 2), restr |-> "not-target2"], [name |-> Ext, restr |-> "none"]>> >>   \* "[!i386 !amd64]": not for the target -> no edge
      [] label = "kbsd-fallback" -> << <<[name |-> Ext, restr |-> "only-kbsd-any"], [name |-> Bin(i, 2), restr |-> "none"]>> >>         \* first alternative is for another OS -> edge
      [] label = "kbsd-only"     -> << <<[name |-> Bin(i, 2), restr |-> "only-kbsd-any"]>> >>                                           \* -> no edge
      [] label = "not-kbsd"      -> << <<[name |-> Bin(i, 2), restr |-> "not-kbsd-any"]>> >>                                            \* -> edge
      [] label = "gnu-any-amd64" -> << <<[name |-> Bin(i, 2), restr |-> "only-gnu-any-amd64"], [name |-> Ext, restr |-> "none"]>> >>            \* -> edge
      [] label = "linux-any"     -> << <<[name |-> Bin(i, 2), restr |-> "only-linux-any"]>> >>                                          \* -> edge
      [] label \in {"q-native", "q-any", "q-target", "versioned"} -> << <<[name |-> Bin(i, 2), restr |-> label]>> >>      \* -> edge
      [] label = "none"        -> <<>>
Labelings == [Pairs -> Labels]
FieldOf(i, j) == 1 + ((i + j) % 3)
Source(lab, j) ==
    [name |-> SrcName(j), binaries |-> <<Bin(j, 1), Bin(j, 2)>>,
     fields |-> [f \in 1..3 |->
                   (IF f = 1 THEN [k \in 1..Fill |-> <<[name |-> Ext \o <<48 + k>>, restr |-> "none"]>>] ELSE <<>>) \o
                   Concat([i \in 1..N |-> IF i # j /\ FieldOf(i, j) = f THEN RelFor(lab[<<i, j>>], i) ELSE <<>>])]]
Graph(lab) == [j \in 1..N |-> Source(lab, j)]
Vec(lab, folded) == LET g == Graph(lab) IN
    [k |-> "order", sources |-> g, folded |-> folded, dscs |-> [j \in 1..N |-> RenderDsc(g[j], folded)]]
\* self-dependency and single-source vectors
SelfVec == LET s == [name |-> SrcName(1), binaries |-> <<Bin(1, 1), Bin(1, 2)>>,
                     fields |-> << << <<[name |-> Bin(1, 2), restr |-> "none"]>> >>, <<>>, <<>> >>] IN
           [k |-> "order", sources |-> <<s>>, folded |-> FALSE, dscs |-> <<RenderDsc(s, FALSE)>>]
\* a source that refers to its OWN binary, in each of the three fields, with each label (edge-producing or not),
\* alone and next to an unrelated second source
SelfSrc(label, f) == [name |-> SrcName(1), binaries |-> <<Bin(1, 1), Bin(1, 2)>>,
                      fields |-> [g \in 1..3 |-> IF g = f THEN RelFor(label, 1) ELSE <<>>]]
Plain2 == [name |-> SrcName(2), binaries |-> <<Bin(2, 1), Bin(2, 2)>>, fields |-> <<<<>>, <<>>, <<>>>>]
SelfVecs == {LET g == IF two THEN (IF first THEN <<SelfSrc(lb, f), Plain2>> ELSE <<Plain2, SelfSrc(lb, f)>>) ELSE <<SelfSrc(lb, f)>> IN
             [k |-> "order", sources |-> g, folded |-> FALSE, dscs |-> [j \in 1..Len(g) |-> RenderDsc(g[j], FALSE)]] :
                lb \in {"dep", "dep-arch", "unselected", "other-arch", "after-subst", "fallback", "excluded"}, f \in 1..3, two \in BOOLEAN, first \in BOOLEAN}
\* qualified and versioned names: one edge between two sources (the rest unrelated), in both directions - the dependent
\* source is listed first in one of them
QualLabs == {[p \in Pairs |-> IF p = e THEN lb ELSE "none"] : e \in {<<1, 2>>, <<2, 1>>},
                lb \in {"q-native", "q-any", "q-target", "versioned", "kbsd-fallback", "kbsd-only", "not-kbsd", "linux-any", "gnu-any-amd64"}}
\* ... and a cycle closed through such a name
QualCycles == {[p \in Pairs |-> IF p = <<1, 2>> THEN lb ELSE IF p = <<2, 1>> THEN "dep" ELSE "none"] :
                  lb \in {"q-native", "q-any", "q-target", "versioned", "kbsd-fallback", "kbsd-only", "not-kbsd", "linux-any"}}
\* the same graphs for a target with another ABI (musl-linux-amd64): OS wildcards still apply to it
MuslLabs == {[p \in Pairs |-> IF p = e THEN lb ELSE "none"] : e \in {<<1, 2>>, <<2, 1>>}, lb \in {"linux-any", "kbsd-only", "not-kbsd", "kbsd-fallback", "dep"}}
\* every .dsc decoded into ONE reused variable (a Decoder loop) before ordering: three-source chains in every input order
ChainLabs == {[p \in Pairs |-> IF p \in {<<1, 2>>} THEN "dep" ELSE IF N >= 3 /\ p = <<2, 3>> THEN "dep" ELSE "none"]}
\* source names with dashes whose concatenations coincide (lib + net-tools, lib-net + tools): net-tools needs lib, tools needs
\* lib-net, in three input orders; and the cycle lib <-> net-tools
nLib == <<108, 105, 98>>  nNet == <<110, 101, 116>>  nTools == <<116, 111, 111, 108, 115>>
DName(a, b) == a \o <<HYPHEN>> \o b
DSrc(nm, dep) == [name |-> nm, binaries |-> <<nm \o <<HYPHEN, 120>>, nm \o <<HYPHEN, 121>>>>,
                  fields |-> << (IF dep = <<>> THEN <<>> ELSE << <<[name |-> dep \o <<HYPHEN, 121>>, restr |-> "none"]>> >>), <<>>, <<>> >>]
DashGraphs == {<<DSrc(nTools, DName(nLib, nNet)), DSrc(DName(nNet, nTools), nLib), DSrc(nLib, <<>>), DSrc(DName(nLib, nNet), <<>>)>>,
               <<DSrc(DName(nNet, nTools), nLib), DSrc(nTools, DName(nLib, nNet)), DSrc(DName(nLib, nNet), <<>>), DSrc(nLib, <<>>)>>,
               <<DSrc(nLib, <<>>), DSrc(DName(nLib, nNet), <<>>), DSrc(nTools, DName(nLib, nNet)), DSrc(DName(nNet, nTools), nLib)>>,
               \* ... and with lib build-depending on net-tools: a cycle
               <<DSrc(nTools, DName(nLib, nNet)), DSrc(DName(nNet, nTools), nLib), DSrc(nLib, DName(nNet, nTools)), DSrc(DName(nLib, nNet), <<>>)>>}
DashVecs == {[k |-> "order", sources |-> g, folded |-> FALSE, dscs |-> [j \in 1..Len(g) |-> RenderDsc(g[j], FALSE)]] : g \in DashGraphs}
ASSUME Emit(SetToSeq({Vec(lab, fo) : lab \in Labelings, fo \in BOOLEAN} \cup {SelfVec} \cup SelfVecs \cup DashVecs
                     \cup {Vec(lab, FALSE) : lab \in QualLabs \cup QualCycles})
            \o SetToSeq({[Vec(lab, FALSE) EXCEPT !.k = "order"] @@ [target |-> "musl-linux-amd64"] : lab \in MuslLabs})
            \o SetToSeq({Vec(lab, fo) @@ [reuse |-> TRUE] : lab \in Labelings \cup ChainLabs, fo \in {FALSE}})
            \* the same parsed sources are ordered for i386 first and for the target afterwards
            \o SetToSeq({Vec(lab, FALSE) @@ [prewarm |-> "i386"] : lab \in QualLabs \cup QualCycles}))
=============================================================================
