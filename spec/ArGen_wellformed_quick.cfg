INIT GenInit
NEXT GenNext
CONSTANTS
  MaxMembers = 2
  Sizes = {0, 1, 2}
  Mode = "wellformed"
