SPECIFICATION Spec
CONSTANTS
  MaxLines = 4
  Mode = "write"
INVARIANT Holds
CHECK_DEADLOCK FALSE
