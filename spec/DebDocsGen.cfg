INIT GenInit
NEXT GenNext
