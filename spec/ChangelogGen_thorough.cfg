INIT GenInit
NEXT GenNext
CONSTANTS
  MaxEntries = 3
