INIT GenInit
NEXT GenNext
CONSTANTS
  N = 2
  Labels = {"none", "dep", "dep-arch", "unselected", "other-arch", "after-subst", "fallback", "excluded"}
  Fill = 1
