-------------------------------- MODULE Segs --------------------------------
(***************************************************************************)
(* Long byte strings without writing them out.                             *)
(*                                                                         *)
(* A string is a sequence of SEGMENTS <<unit, count>>: `unit` (a byte      *)
(* string) repeated `count` times; a multi-byte unit has count 1.  The     *)
(* generators build documents of several thousand bytes this way (buffer   *)
(* sizes of the implementation - 4096-byte bufio buffers, 32 KiB inflate   *)
(* windows - are far beyond what a vector can carry literally), the        *)
(* harness expands them mechanically, and long observed strings come back  *)
(* in canonical RUN-LENGTH form <<byte, count>> (adjacent bytes differ).   *)
(* RLE(segs) is the run-length form of a segment string, so expected and   *)
(* observed values are compared exactly, byte for byte, in O(#runs).       *)
(***************************************************************************)
EXTENDS Bytes

Lit(u) == <<u, 1>>
Rep(b, n) == <<<<b>>, n>>
SegLen1(seg) == Len(seg[1]) * seg[2]
RECURSIVE SegLenFrom(_, _)
SegLenFrom(segs, k) == IF k > Len(segs) THEN 0 ELSE SegLen1(segs[k]) + SegLenFrom(segs, k + 1)
SegLen(segs) == SegLenFrom(segs, 1)
WellFormedSegs(segs) == \A k \in 1..Len(segs) : segs[k][2] >= 0 /\ (Len(segs[k][1]) = 1 \/ segs[k][2] = 1)

SegRuns(seg) == IF Len(seg[1]) = 1 THEN << <<seg[1][1], seg[2]>> >> ELSE [k \in 1..Len(seg[1]) |-> <<seg[1][k], 1>>]
RawRuns(segs) == Concat([k \in 1..Len(segs) |-> SegRuns(segs[k])])
RECURSIVE MergeRuns(_, _, _)
MergeRuns(rs, k, acc) ==
    IF k > Len(rs) THEN acc
    ELSE IF rs[k][2] = 0 THEN MergeRuns(rs, k + 1, acc)
    ELSE IF acc # <<>> /\ acc[Len(acc)][1] = rs[k][1]
         THEN MergeRuns(rs, k + 1, [acc EXCEPT ![Len(acc)] = <<rs[k][1], acc[Len(acc)][2] + rs[k][2]>>])
         ELSE MergeRuns(rs, k + 1, Append(acc, rs[k]))
RLE(segs) == MergeRuns(RawRuns(segs), 1, <<>>)
\* run-length form of an ordinary (short) byte string
RLEOfBytes(b) == MergeRuns([k \in 1..Len(b) |-> <<b[k], 1>>], 1, <<>>)
\* small strings can be expanded (tests of this module only)
RECURSIVE ExpandFrom(_, _)
ExpandFrom(segs, k) == IF k > Len(segs) THEN <<>>
                       ELSE Concat([i \in 1..segs[k][2] |-> segs[k][1]]) \o ExpandFrom(segs, k + 1)
Expand(segs) == ExpandFrom(segs, 1)

\* joining segment strings
SegJoin(parts, sepSegs) == Concat([k \in 1..Len(parts) |-> (IF k > 1 THEN sepSegs ELSE <<>>) \o parts[k]])

\* self-test of the algebra on small strings (checked every time the module is used by a generator)
ASSUME LET s == <<Lit(<<75, 58, 32>>), Rep(97, 3), Rep(97, 2), Lit(<<98>>), Rep(99, 0), Rep(10, 1)>> IN
       /\ Expand(s) = <<75, 58, 32, 97, 97, 97, 97, 97, 98, 10>>
       /\ RLE(s) = RLEOfBytes(Expand(s))
       /\ SegLen(s) = 10
=============================================================================
