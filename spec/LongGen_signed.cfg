CONSTANTS
  Mode = "signed"
  Lengths = {100, 4094, 4095, 4096, 4097, 4098, 4099, 4100, 4101, 8191, 8192, 8193, 8194, 12289, 20001}
INIT GenInit
NEXT GenNext
