SPECIFICATION Spec
CONSTANTS
  MaxUnits = 4
INVARIANTS PassThrough HashersSeeStream VerifierIff
CHECK_DEADLOCK FALSE
