-------------------------------- MODULE ArGen --------------------------------
(* G mode for C13/C15: archives rendered by the specification, and their      *)
(* structured corruptions (header columns, truncation).                      *)
EXTENDS Ar, GenLib
CONSTANTS MaxMembers, Sizes, Mode

N15 == <<102, 105, 102, 116, 101, 101, 110, 45, 98, 121, 116, 101, 115, 45, 97>>      \* fifteen-bytes-a
N16 == <<115, 105, 120, 116, 101, 101, 110, 45, 98, 121, 116, 101, 115, 45, 97, 98>>  \* sixteen-bytes-ab
DB  == <<100, 101, 98, 105, 97, 110, 45, 98, 105, 110, 97, 114, 121>>                  \* debian-binary
Names == {<<97>>, N15, N16, <<97, SP, 98>>, DB, <<117, 115, 114, SLASH, 98, 105, 110>>, <<SLASH, 48>>}      \* ..., "usr/bin", "/0"
Data(n) == [k \in 1..n |-> IF k % 5 = 0 THEN 10 ELSE 64 + k]
Kind(nm, n, b) == [name |-> nm, mtime |-> <<49, 52, 51, 51, 49, 53, 51, 49, 50, 48>>, uid |-> <<48>>, gid |-> <<49, 48, 48, 48>>,
                   mode |-> <<49, 48, 48, 54, 52, 52>>, data |-> Data(n), blank |-> b]
\* the same member with every numeric column filled to its width (timestamps after 2038, 6-digit ids)
BigKind(nm, n) == [Kind(nm, n, FALSE) EXCEPT !.mtime = <<57, 57, 57, 57, 57, 57, 57, 57, 57, 57, 57, 57>>,
                                             !.uid = <<57, 57, 57, 57, 57, 57>>, !.gid = <<50, 49, 52, 55, 52, 56>>,
                                             !.mode = <<51, 55, 55, 55, 55, 55, 55, 53>>]                    \* mode 37777775: all 8 columns
\* one numeric column blank, the ones after it filled (a blank column is read as 0; it says nothing about the others)
PartKinds == {[Kind(<<97>>, n, FALSE) EXCEPT !.mtime = <<>>, !.uid = <<49, 48, 48, 48>>, !.gid = <<49, 48, 48>>] : n \in {0, 1}}
             \cup {[Kind(<<97>>, n, FALSE) EXCEPT !.uid = <<>>, !.gid = <<49, 48, 48>>] : n \in {0, 1}}
             \cup {[Kind(<<97>>, n, FALSE) EXCEPT !.gid = <<>>] : n \in {0, 1}}
             \cup {[Kind(<<97>>, n, FALSE) EXCEPT !.mtime = <<>>, !.gid = <<>>, !.uid = <<55>>] : n \in {0, 1}}
\* numeric columns written zero-filled (decimal numbers all the same: 0012 is twelve, 0089 is eighty-nine)
ZeroKinds == {[name |-> <<97>>, mtime |-> <<48, 48, 49, 51, 54, 49, 49, 53, 55, 52, 54, 54>>, uid |-> <<48, 48, 48, 53, 48, 49>>, gid |-> g,
               mode |-> <<49, 48, 48, 54, 52, 52>>, data |-> Data(n), blank |-> FALSE, zfill |-> z] :
                 g \in {<<48, 48, 48, 48, 50, 48>>, <<48, 48, 48, 48, 56, 57>>}, n \in {0, 1, 12, 18}, z \in BOOLEAN}
Kinds == ZeroKinds \cup {Kind(nm, n, b) : nm \in Names, n \in Sizes, b \in BOOLEAN} \cup {BigKind(nm, n) : nm \in {<<97>>, DB}, n \in {0, 1}} \cup PartKinds
\* (TLC evaluates constant definitions when it starts, used or not: each mode's sets are empty in the other mode)
Models == IF Mode = "wellformed" THEN UNION {[1..k -> Kinds] : k \in 0..MaxMembers} ELSE {}
FitsGnu(ms) == \A k \in 1..Len(ms) : Len(ms[k].name) <= 15

\* via: the io.ReaderAt handed to LoadAr - the archive's own bytes, or a section of a larger buffer in which other bytes
\* (junk, or what looks like one more member) follow the archive: the archive ends where its reader ends
Vias == {"bytes", "section-junk", "section-member"}
WellFormed == UNION {{[k |-> "ar", members |-> ms, gnu |-> g, bytes |-> RenderAr(ms, g), via |-> v] :
                          g \in {x \in BOOLEAN : x => FitsGnu(ms)}, v \in (IF Len(ms) <= 1 THEN Vias ELSE {"bytes"})} : ms \in Models}
              \cup {[k |-> "ar", members |-> ms, gnu |-> FALSE, bytes |-> RenderAr(ms, FALSE), via |-> v] :
                          ms \in {<<Kind(DB, 1, FALSE), Kind(<<97>>, 2, FALSE)>>, <<Kind(<<97>>, 2, FALSE), Kind(DB, 1, FALSE)>>}, v \in Vias}
              \* the reader handed to LoadAr has been read from before (to its end, half way)
              \cup {[k |-> "ar", members |-> ms, gnu |-> FALSE, bytes |-> RenderAr(ms, FALSE), via |-> v] :
                          ms \in {<<Kind(<<97>>, 3, FALSE), Kind(<<98>>, 2, FALSE), Kind(DB, 1, FALSE)>>, <<Kind(<<97>>, 0, FALSE)>>, <<>>},
                          v \in {"consumed", "half-consumed"}}
              \* BSD's extended-name marker "#1/<n>" as a name like any other: the member's reader starts at the member's first byte
              \cup {[k |-> "ar", members |-> ms, gnu |-> FALSE, bytes |-> RenderAr(ms, FALSE), via |-> "bytes"] :
                          ms \in {<<Kind(<<35, 49, SLASH, 50>>, 3, FALSE), Kind(<<98>>, 1, FALSE)>>, <<Kind(<<35, 49, SLASH, 51>>, 3, FALSE)>>,
                                  <<Kind(<<97>>, 1, FALSE), Kind(<<35, 49, SLASH, 49>>, 2, FALSE), Kind(<<98>>, 1, FALSE)>>}}
              \* two members whose 60-byte headers are byte-identical (name, times, ids, mode, size) and whose data differ
              \cup {[k |-> "ar", members |-> ms, gnu |-> FALSE, bytes |-> RenderAr(ms, FALSE), via |-> "bytes"] :
                          ms \in {<<Kind(<<97>>, 3, FALSE), Kind(<<98>>, 2, FALSE), [Kind(<<97>>, 3, FALSE) EXCEPT !.data = <<120, 121, 122>>]>>,
                                  <<Kind(<<97>>, 4, FALSE), [Kind(<<97>>, 4, FALSE) EXCEPT !.data = <<119, 120, 121, 122>>]>>}}
              \* ten-digit timestamps at and beyond 2^32 (4294967296, 5656124762, 9999999999): decimal numbers of any width
              \cup {[k |-> "ar", members |-> ms, gnu |-> FALSE, bytes |-> RenderAr(ms, FALSE), via |-> "bytes"] :
                          ms \in {<<[Kind(<<97>>, 2, FALSE) EXCEPT !.mtime = t], Kind(<<98>>, 1, FALSE)>> :
                                     t \in {<<52, 50, 57, 52, 57, 54, 55, 50, 57, 54>>, <<53, 54, 53, 54, 49, 50, 52, 55, 54, 50>>, <<57, 57, 57, 57, 57, 57, 57, 57, 57, 57>>}}}
              \* a member whose name begins with the byte that ends a header (LF), or is nothing but that byte, between others
              \cup {[k |-> "ar", members |-> ms, gnu |-> FALSE, bytes |-> RenderAr(ms, FALSE), via |-> "bytes"] :
                          ms \in {<<Kind(<<97>>, 2, FALSE), Kind(nm, n, FALSE), Kind(<<98>>, 1, FALSE)>> : nm \in {<<LF, 120>>, <<LF>>, <<120, LF>>}, n \in {0, 3}}}

\* ---- corruptions ----------------------------------------------------------
SmallKinds == {Kind(nm, n, FALSE) : nm \in {<<97>>, DB}, n \in Sizes}
Bases == IF Mode = "corrupt" THEN UNION {[1..k -> SmallKinds] : k \in 0..MaxMembers} ELSE {}
Hostile == {<<45, 49>>, <<45, 54, 48>>, <<45, 54, 49>>, <<45, 54, 50>>, <<57, 57, 57, 57, 57, 57, 57, 57, 57, 57>>, <<>>,
            <<49, 50, 120>>, <<43, 53>>, <<54, 48>>, <<45, 48>>,    \* -1 -60 -61 -62 9999999999 blank 12x +5 60 -0
            \* sizes that are small numbers modulo 2^32: 4294967296 (0), 4294967297 (1), 4294967301 (5), 8589934594 (2)
            <<52, 50, 57, 52, 57, 54, 55, 50, 57, 54>>, <<52, 50, 57, 52, 57, 54, 55, 50, 57, 55>>, <<52, 50, 57, 52, 57, 54, 55, 51, 48, 49>>,
            <<56, 53, 56, 57, 57, 51, 52, 53, 57, 52>>}
Cols == {ColName, ColMtime, ColUid, ColGid, ColMode, ColSize}
MagicTexts == {<<BACKTICK, 120>>, <<120, LF>>, <<120, 120>>, <<LF, BACKTICK>>}
CorruptVecs ==
    {[k |-> "arraw", bytes |-> SetField(RenderAr(ms, FALSE), HeaderOffset(ms, i), c, h)] :
        ms \in {m \in Bases : Len(m) = MaxMembers}, i \in 1..MaxMembers, c \in Cols \cup {ColMagic},
        h \in Hostile \cup MagicTexts}
    \cup {[k |-> "arraw", bytes |-> SetField(RenderAr(ms, FALSE), 8, c, h)] :
        ms \in {m \in Bases : Len(m) = 1}, c \in Cols \cup {ColMagic}, h \in Hostile \cup MagicTexts}
TruncVecs == {[k |-> "arraw", bytes |-> b] :
                 b \in {Upto(RenderAr(ms, FALSE), Min2(n, Len(RenderAr(ms, FALSE)))) : ms \in Bases, n \in 0..(8 + MaxMembers * 66)}}
GlobalMagicVecs == {[k |-> "arraw", bytes |-> [RenderAr(ms, FALSE) EXCEPT ![i] = 120]] :
                       ms \in {m \in Bases : Len(m) = 1}, i \in 1..8}

\* names that other ar dialects give a meaning to (the GNU long-name table "//", references "/<offset>" into it, the
\* symbol table "/", BSD "#1/<len>"): every ordered pair and triple of them as members - nothing must be looked up
\* outside a member because of what a NAME says
SpecialNames == {<<SLASH, SLASH>>, <<SLASH>>, <<SLASH, 48>>, <<SLASH, 45, 49>>, <<SLASH, 43, 49>>, <<SLASH, 57, 57, 57, 57, 57, 57, 57, 57, 57>>,
                 <<SLASH, 120>>, <<35, 49, SLASH, 52>>, <<35, 49, SLASH, 45, 49>>, <<97>>, <<LF, 120>>, <<LF>>}
SpecialKinds == {Kind(nm, n, FALSE) : nm \in SpecialNames, n \in {0, 3}}
SpecialVecs == {[k |-> "arraw", bytes |-> RenderAr(ms, FALSE)] :
                   ms \in {<<a, b>> : a \in {Kind(<<SLASH, SLASH>>, 3, FALSE), Kind(<<SLASH>>, 3, FALSE), Kind(<<97>>, 3, FALSE)}, b \in SpecialKinds}
                          \cup {<<Kind(<<SLASH, SLASH>>, 3, FALSE), a, b>> : a \in SpecialKinds, b \in {Kind(nm, 0, FALSE) : nm \in SpecialNames}}}
\* members of 4 GiB and more (2^32, 2^32 + 5, 2^33 + 2, 9999999999 bytes), served by a sparse reader
SparseVecs == {[k |-> "arsparse", size |-> sz] : sz \in {<<52, 50, 57, 52, 57, 54, 55, 50, 57, 54>>, <<52, 50, 57, 52, 57, 54, 55, 51, 48, 49>>,
                                                         <<56, 53, 56, 57, 57, 51, 52, 53, 57, 52>>, <<57, 57, 57, 57, 57, 57, 57, 57, 57, 57>>}}
ASSUME Emit(CASE Mode = "wellformed" -> SetToSeq(WellFormed) \o SetToSeq(SparseVecs)
              [] Mode = "corrupt" -> SetToSeq(CorruptVecs \cup TruncVecs \cup GlobalMagicVecs \cup SpecialVecs))
=============================================================================
