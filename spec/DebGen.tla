------------------------------- MODULE DebGen -------------------------------
(* G mode for C14/C16: package shapes (the harness turns them into real .deb  *)
(* files: tar, compression, ar framing, OpenPGP signatures).                  *)
EXTENDS DebPkg, GenLib
CONSTANTS Mode, Comps, Reps

Str(s) == s   \* byte strings below are written as tuples of character codes
Empty == [role |-> "", name |-> "", text |-> <<>>, comp |-> "", extname |-> "", fields |-> <<>>,
          files |-> <<>>, content |-> <<>>, key |-> "", over |-> <<>>, more |-> <<>>]
ExtOf(comp) == IF comp = "" THEN "tar" ELSE "tar." \o comp
Bin(t) == [Empty EXCEPT !.role = "binary", !.name = "debian-binary", !.text = t]
Ctl(comp, files, fields) == [Empty EXCEPT !.role = "control", !.name = "control." \o ExtOf(comp), !.comp = comp,
                                          !.extname = ExtOf(comp), !.files = files, !.fields = fields]
Dat(comp, files) == [Empty EXCEPT !.role = "data", !.name = "data." \o ExtOf(comp), !.comp = comp,
                                  !.extname = ExtOf(comp), !.files = files]
Extra(name, content) == [Empty EXCEPT !.role = "extra", !.name = name, !.content = content]
Sig(role, key, over) == [Empty EXCEPT !.role = "sig", !.name = "_gpg" \o role, !.key = key, !.over = over]

F(name, kind, content) == [name |-> name, kind |-> kind, content |-> content]
\* "Package", "Version", ... as bytes
bPackage == <<80, 97, 99, 107, 97, 103, 101>>
bVersion == <<86, 101, 114, 115, 105, 111, 110>>
bArch == <<65, 114, 99, 104, 105, 116, 101, 99, 116, 117, 114, 101>>
bMaint == <<77, 97, 105, 110, 116, 97, 105, 110, 101, 114>>
bISize == <<73, 110, 115, 116, 97, 108, 108, 101, 100, 45, 83, 105, 122, 101>>
bDepends == <<68, 101, 112, 101, 110, 100, 115>>
bDesc == <<68, 101, 115, 99, 114, 105, 112, 116, 105, 111, 110>>
bXUnk == <<88, 45, 85, 110, 107, 110, 111, 119, 110>>
bSource == <<83, 111, 117, 114, 99, 101>>
Fields(pkg, withSource) ==
    << <<bPackage, pkg>>, <<bVersion, <<49, 58, 50, 46, 48, 45, 51>>>>,                      \* 1:2.0-3
       <<bArch, <<97, 109, 100, 54, 52>>>>,                                                 \* amd64
       <<bMaint, <<65, 32, 66, 32, 60, 97, 64, 98, 46, 111, 114, 103, 62>>>>,               \* A B <a@b.org>
       <<bISize, <<52, 50>>>>,                                                              \* 42
       <<bDepends, <<108, 105, 98, 99, 54, 32, 40, 62, 61, 32, 50, 46, 52, 41, 44, 32, 102, 111, 111, 32, 124, 32, 98, 97, 114>>>>,
       <<bDesc, <<115, 104, 111, 114, 116, 10, 32, 108, 111, 110, 103, 32, 108, 105, 110, 101, 10, 32, 46, 10, 32, 109, 111, 114, 101>>>>,
       <<bXUnk, <<107, 101, 112, 116>>>> >> \o
    (IF withSource THEN << <<bSource, <<115, 114, 99>>>> >> ELSE <<>>)
PkgA == <<112, 107, 103, 97>>    \* pkga
PkgDecoy == <<100, 101, 99, 111, 121>>

Md5 == F("./md5sums", "file", <<97, 98, 99, 32, 32, 120, 10>>)
Post == F("./postinst", "file", <<35, 33, 47, 98, 105, 110, 47, 115, 104, 10>>)
CtlF(name) == F(name, "control", <<>>)
Dir == F("./", "dir", <<>>)
\* a file whose LAST path component is "control" (a trigger script's directory, say) is not the control file
decoyText == <<80, 97, 99, 107, 97, 103, 101, 58, 32, 100, 101, 99, 111, 121, 10, 86, 101, 114, 115, 105, 111, 110, 58, 32, 57, 10,
               65, 114, 99, 104, 105, 116, 101, 99, 116, 117, 114, 101, 58, 32, 97, 108, 108, 10>>      \* "Package: decoy\nVersion: 9\nArchitecture: all\n"
CtlLayouts == { <<Dir, F("./triggers.d/control", "file", decoyText), CtlF("./control"), Md5>>, <<F("./x/control", "file", decoyText), CtlF("control")>>,
                <<Dir, CtlF("./control"), Md5>>, <<Dir, Md5, CtlF("./control"), Post>>, <<Md5, Post, CtlF("./control")>>,
                <<CtlF("control")>>, <<Md5, CtlF("./x/../control")>> }
DataFile(n) == F("./usr/f" \o ToString(n), "file", [k \in 1..(n * 3) |-> 96 + n])
DataLayouts == { <<>>, <<DataFile(1)>>, <<DataFile(2), DataFile(1)>>, <<DataFile(1), DataFile(2), DataFile(3)>> }
StdCtl(comp) == Ctl(comp, <<Dir, Md5, CtlF("./control"), Post>>, Fields(PkgA, FALSE))
StdDat(comp) == Dat(comp, <<DataFile(2), DataFile(1)>>)

Vec(ms) == [k |-> "deb", members |-> ms, reps |-> Reps]

\* ---- C14 ------------------------------------------------------------------
Combos == {Vec(<<Bin(V20), StdCtl(c), StdDat(d)>>) : c \in Comps, d \in Comps}
Layouts == {Vec(<<Bin(V20), Ctl("gz", cl, Fields(PkgA, ws)), Dat("", dl)>> \o ex) :
              cl \in CtlLayouts, dl \in DataLayouts, ws \in BOOLEAN,
              ex \in {<<>>, <<Extra("_gpgbuilder", <<120>>)>>, <<Extra("_foo", <<>>), Extra("_bar", <<1, 2, 3>>)>>}}
V20More == V20 \o <<101, 120, 116, 114, 97, 32, 108, 105, 110, 101, 10>>        \* "2.0\nextra line\n"
BinaryTexts == {<<50, 48, 46, 48, 10>>, <<50, 49, 46, 52, 10>>, <<48, 50, 46, 48, 10>>, <<10>>, <<10, 50, 46, 48, 10>>, <<50, 10>>, <<50, 46, 10>>, <<50, 46>>,   \* 20.0 21.4 02.0 "\n" "\n2.0\n" "2\n" "2.\n" "2."
               V20, V20More, <<50, 46, 49, 10>>, <<51, 46, 48, 10>>, <<49, 46, 48, 10>>, <<50, 46, 48>>, <<>>, <<50, 46, 48, 10, 120, 10>>}
Versions == {Vec(<<Bin(t), StdCtl("gz"), StdDat("gz")>>) : t \in BinaryTexts}
Missing == {Vec(<<StdCtl("gz"), StdDat("gz")>>), Vec(<<Bin(V20), StdDat("gz")>>), Vec(<<Bin(V20), StdCtl("gz")>>),
            Vec(<<Bin(V20)>>), Vec(<<>>), Vec(<<Bin(V20), Ctl("gz", <<Md5, Post>>, Fields(PkgA, FALSE)), StdDat("")>>)}
Orders == {Vec(<<StdCtl("gz"), Bin(V20), StdDat("gz")>>), Vec(<<StdDat("gz"), StdCtl("gz"), Bin(V20)>>),
           Vec(<<Bin(V20), Extra("_x", <<1>>), StdCtl(""), StdDat("gz")>>)}
Decoy(c) == Ctl(c, <<CtlF("./control")>>, Fields(PkgDecoy, FALSE))
\* a decoy only has to START with "control." / "data." to be picked up: "control.x.tar" is read as a plain tar
DecoyNamed(nm) == [Decoy("") EXCEPT !.name = nm, !.extname = "x.tar"]
DataDecoyNamed(nm) == [Dat("", <<DataFile(3)>>) EXCEPT !.name = nm, !.extname = "x.tar"]
Ambiguous == {Vec(<<Bin(V20), StdCtl("gz"), StdDat("gz"), Decoy("")>>), Vec(<<Bin(V20), Decoy(""), StdCtl("gz"), StdDat("gz")>>),
              Vec(<<Bin(V20), StdCtl("gz"), StdDat("gz"), Dat("", <<DataFile(3)>>)>>),
              Vec(<<Bin(V20), StdCtl("gz"), StdDat("gz"), Bin(<<51, 46, 48, 10>>)>>),
              Vec(<<Bin(V20), StdCtl("gz"), StdDat("gz"), DecoyNamed("control.x.tar")>>),
              Vec(<<Bin(V20), StdCtl("gz"), StdDat("gz"), DataDecoyNamed("data.x.tar")>>),
              Vec(<<Bin(V20), StdCtl("gz"), StdDat("gz"), [Extra("control.zzz", <<1, 2>>) EXCEPT !.role = "control"]>>)}
\* a large and highly redundant payload (2 MiB of one byte) between ordinary files, under every encoding: the
\* packed member is a few hundred bytes, the stream it denotes is not
Fill(n, b, e) == F("./usr/big" \o ToString(n), "fill", <<b, e>>)
Large == {Vec(<<Bin(V20), StdCtl("gz"), Dat(c, <<DataFile(1), Fill(1, 0, 21), DataFile(2)>>)>>) : c \in Comps}
         \cup {Vec(<<Bin(V20), Ctl(c, <<Fill(1, 120, 21), CtlF("./control"), Md5>>, Fields(PkgA, FALSE)), StdDat("gz")>>) : c \in Comps}
\* ./control placed so that its body straddles a 32 KiB boundary of the uncompressed control tar (the window size of
\* the inflater): "./" (1 block), md5sums header + k data blocks, control header, body at block k+3; k = 57..63.
\* The control paragraph is longer than one tar block.
FillK(name, b, k) == F(name, "fillk", <<b, k>>)
LongDesc == <<115, 104, 111, 114, 116>> \o Concat([i \in 1..12 |-> <<10, 32>> \o [j \in 1..60 |-> 97 + ((i + j) % 26)]])       \* "short" + 12 lines of 60 letters
FieldsLong(pkg) == [i \in 1..Len(Fields(pkg, FALSE)) |-> IF Fields(pkg, FALSE)[i][1] = bDesc THEN <<bDesc, LongDesc>> ELSE Fields(pkg, FALSE)[i]]
Straddle == {Vec(<<Bin(V20), Ctl(c, <<Dir, FillK("./md5sums", 97, k), CtlF("./control")>>, FieldsLong(PkgA)), StdDat("gz")>>) : c \in {"gz", "", "xz"}, k \in 57..63}
\* members whose names only begin like "control." / "data.": after the real ones and between debian-binary and them, with
\* names that differ in the dot; loaded 24 times each (a loader that looks members up in a map sees them in varying order)
NearNames == {<<"control_.tar.gz", "data_.tar.gz">>, <<"control-.tar.gz", "data-.tar.gz">>, <<"controlx.tar.gz", "datax.tar.gz">>}
NearCtl(nm) == [Ctl("gz", <<CtlF("./control")>>, Fields(PkgDecoy, FALSE)) EXCEPT !.role = "extra-ctl", !.name = nm]
NearDat(nm) == [Dat("gz", <<DataFile(3)>>) EXCEPT !.role = "extra-dat", !.name = nm]
Near == {[Vec(ms) EXCEPT !.reps = 24] : ms \in UNION {{<<Bin(V20), StdCtl("gz"), StdDat("gz"), NearCtl(nn[1])>>, <<Bin(V20), StdCtl("gz"), StdDat("gz"), NearDat(nn[2])>>,
                                                      <<Bin(V20), NearCtl(nn[1]), NearDat(nn[2]), StdCtl("gz"), StdDat("gz")>>} : nn \in NearNames}}
\* the control file ends without a newline, is followed by blank lines, or begins with one: the same paragraph
Endings == {Vec(<<Bin(V20), [StdCtl(c) EXCEPT !.text = st], StdDat("gz")>>) : c \in {"gz", ""}, st \in {<<110>>, <<98>>, <<108>>}}
\* control.tar.gz / data.tar.gz written as a gzip file of TWO members (a valid .gz: the members' contents are concatenated)
Gz2 == {Vec(<<Bin(V20), StdCtl("gz"), [StdDat("gz") EXCEPT !.comp = "gz2"]>>), Vec(<<Bin(V20), [StdCtl("gz") EXCEPT !.comp = "gz2"], StdDat("gz")>>),
        Vec(<<Bin(V20), [StdCtl("gz") EXCEPT !.comp = "gz2"], [StdDat("gz") EXCEPT !.comp = "gz2"]>>)}
C14Vecs == Gz2 \cup Endings \cup Near \cup Large \cup Straddle \cup Combos \cup Layouts \cup Versions \cup Missing \cup Orders \cup Ambiguous

\* ---- C16 ------------------------------------------------------------------
Roles == {"origin", "maint", "archive"}
Keyrings == {<<"k1">>, <<"k2">>, <<"k1", "k2">>, <<>>}
SVec(ms, role, ring, tamper, signed) ==
    [k |-> "deb", members |-> ms, reps |-> Reps, check |-> [role |-> role, keyring |-> ring],
     tamper |-> tamper, signed |-> signed]
NoTamper == [kind |-> "none", member |-> 0, num |-> 0, den |-> 1, mask |-> 0]
Flip(i, n) == [kind |-> "flip", member |-> i, num |-> n, den |-> 7, mask |-> 4]
Base(c) == <<Bin(V20), StdCtl(c), StdDat(c)>>
Signed(c, role, key) == Base(c) \o <<Sig(role, key, <<1, 2, 3>>)>>
\* positive paths and keyring / role variations
SigBasic == {SVec(Signed(c, r, "k1"), ask, ring, NoTamper, <<1, 2, 3>>) :
                c \in {"gz", ""}, r \in Roles, ask \in Roles, ring \in Keyrings}
\* a byte flipped in each member at seven relative positions
SigFlips == {SVec(Signed(c, "origin", "k1"), "origin", <<"k1">>, Flip(i, n), <<1, 2, 3>>) :
                c \in {"gz", ""}, i \in 1..4, n \in 0..6}
\* debian-binary with further lines (deb(5) allows them): they are part of the signed member
SignedMore(c, role, key) == <<Bin(V20More), StdCtl(c), StdDat(c), Sig(role, key, <<1, 2, 3>>)>>
SigMore == {SVec(SignedMore("gz", "origin", "k1"), "origin", ring, NoTamper, <<1, 2, 3>>) : ring \in Keyrings}
           \cup {SVec(SignedMore("gz", "origin", "k1"), "origin", <<"k1">>, [kind |-> "flip", member |-> 1, num |-> n, den |-> 15, mask |-> 4], <<1, 2, 3>>) : n \in 0..14}
\* decoy control/data members, before or after, covered or not by the signature
SigDecoys == {SVec(ms, "origin", <<"k1">>, NoTamper, <<1, 2, 3>>) : ms \in
                { Signed("gz", "origin", "k1") \o <<Decoy("")>>,
                  Signed("gz", "origin", "k1") \o <<Decoy("gz")>>,
                  Signed("gz", "origin", "k1") \o <<Dat("", <<DataFile(3)>>)>>,
                  Signed("gz", "origin", "k1") \o <<DecoyNamed("control.x.tar")>>,
                  Signed("gz", "origin", "k1") \o <<DataDecoyNamed("data.x.tar")>>,
                  Signed("", "origin", "k1") \o <<DecoyNamed("control.tarx")>>,
                  <<Bin(V20), Decoy(""), StdCtl("gz"), StdDat("gz"), Sig("origin", "k1", <<1, 3, 4>>)>>,
                  <<Bin(V20), Decoy(""), StdCtl("gz"), StdDat("gz"), Sig("origin", "k1", <<1, 2, 4>>)>>,
                  <<Bin(V20), StdCtl("gz"), Dat("", <<DataFile(3)>>), StdDat("gz"), Sig("origin", "k1", <<1, 2, 4>>)>>,
                  <<Bin(V20), StdCtl("gz"), Dat("", <<DataFile(3)>>), StdDat("gz"), Sig("origin", "k1", <<1, 2, 3>>)>> }}
\* signatures over the wrong thing: wrong order, partial, foreign package
SigWrong == {SVec(Base("gz") \o <<Sig("origin", "k1", ov)>>, "origin", <<"k1">>, NoTamper, ov) :
                ov \in {<<1, 3, 2>>, <<2, 3>>, <<1, 2>>, <<3, 2, 1>>, <<1, 2, 3, 3>>}}
\* signature members holding two packets: a signature (by a keyring key) that does not match, followed by one over
\* the EMPTY input, over other members, or by the right one; and the right one first
Pk(k, ov) == [key |-> k, over |-> ov]
SigM(role, key, over, more) == [Empty EXCEPT !.role = "sig", !.name = "_gpg" \o role, !.key = key, !.over = over, !.more = more]
SigMulti == {SVec(Base("gz") \o <<SigM("origin", p1.key, p1.over, <<p2>>)>>, "origin", ring, NoTamper, <<1, 2, 3>>) :
                p1 \in {Pk("k1", <<3, 2, 1>>), Pk("k1", <<1, 2>>), Pk("k2", <<1, 2, 3>>), Pk("k1", <<1, 2, 3>>), Pk("k1", <<>>)},
                p2 \in {Pk("k1", <<>>), Pk("k1", <<1, 2, 3>>), Pk("k1", <<2, 3>>), Pk("k2", <<>>)},
                ring \in {<<"k1">>, <<"k1", "k2">>}}
\* the signed original kept as a member named "control" / "data" (no dot: the loader does not take it for the control or
\* data member) while control.tar.gz / data.tar.gz hold something else; the signature covers the kept original
Forged(c) == Ctl(c, <<CtlF("./control")>>, Fields(PkgDecoy, FALSE))
SigBare == {SVec(<<Bin(V20), Forged("gz"), StdDat("gz"), Sig("origin", "k1", <<1, 5, 3>>), [StdCtl("gz") EXCEPT !.name = "control", !.extname = ""]>>,
                 "origin", <<"k1">>, NoTamper, <<1, 5, 3>>),
            SVec(<<Bin(V20), StdCtl("gz"), Dat("gz", <<DataFile(3)>>), Sig("origin", "k1", <<1, 2, 5>>), [StdDat("gz") EXCEPT !.name = "data", !.extname = ""]>>,
                 "origin", <<"k1">>, NoTamper, <<1, 2, 5>>),
            SVec(<<Bin(V20), Forged("gz"), StdDat("gz"), Sig("origin", "k1", <<1, 5, 3>>), [StdCtl("gz") EXCEPT !.name = "control.", !.extname = ""]>>,
                 "origin", <<"k1">>, NoTamper, <<1, 5, 3>>)}
\* "_gpg" + a 12-character role = a member name of exactly 16 bytes: the role asked for must be that very name
LongRole == "origin-2026a"
SigLongRole == {SVec(Signed("gz", LongRole, "k1"), ask, <<"k1">>, NoTamper, <<1, 2, 3>>) : ask \in {LongRole, "origin-2026", "origin-2026ab", "origin"}}
\* tarballs that look like a control / data member under names the loader must not take for one ("control_.tar.gz",
\* "data_.tar.gz", "controlx.tar"): the package stays well-formed, loads its own members and verifies
ExtraCtl(nm) == [Ctl("gz", <<CtlF("./control")>>, Fields(PkgDecoy, FALSE)) EXCEPT !.role = "extra-ctl", !.name = nm]
ExtraDat(nm) == [Dat("gz", <<DataFile(3)>>) EXCEPT !.role = "extra-dat", !.name = nm]
\* (40 loads each: a loader that looks members up in a map sees the near-miss member first only now and then, and a
\* violation must show again when the vector is replayed alone)
SigNear == {[SVec(Signed("gz", "origin", "k1") \o <<x>>, "origin", <<"k1">>, NoTamper, <<1, 2, 3>>) EXCEPT !.reps = 40] :
               x \in {ExtraCtl("control_.tar.gz"), ExtraCtl("controlx.tar.gz"), ExtraDat("data_.tar.gz"), ExtraDat("datax.tar.gz"), ExtraCtl("contro.tar.gz")}}
C16Vecs == SigNear \cup SigLongRole \cup SigBasic \cup SigFlips \cup SigMore \cup SigMulti \cup SigDecoys \cup SigWrong \cup SigBare

\* ---- several loaded packages alive in one process -----------------------------------------------------
\* three signed packages with different names and payloads; handle h holds package PkgOfHandle[h].
\* phase 1: handle 1 loaded, optionally read / checked, closed 0, 1 or 2 times
\* phase 2: handles 2 and 3 open at the same time, their Data read and their signatures checked in every order,
\*          then closed (handle 2 once or twice)
\* phase 3: handles 4 and 5 (packages 1 and 2 again) open at the same time, read in the other order
PkgName(n) == <<112, 107, 103>> \o <<96 + n>>
LifePkg(n) == <<Bin(V20), Ctl("gz", <<Dir, Md5, CtlF("./control"), Post>>, Fields(PkgName(n), FALSE)),
                Dat("gz", <<DataFile(n), F("./usr/only-in-" \o ToString(n), "file", <<110, 48 + n, 10>>)>>), Sig("origin", "k1", <<1, 2, 3>>)>>
LOp(o, h, p, ring) == [op |-> o, h |-> h, p |-> p, ring |-> ring]
Ld(h, p) == LOp("load", h, p, <<>>)  Cl(h) == LOp("close", h, 0, <<>>)  Dt(h) == LOp("data", h, 0, <<>>)  Ck(h) == LOp("check", h, 0, <<"k1">>)
Rep(x, n) == [i \in 1..n |-> x]
Perms4(S) == {p \in [1..4 -> S] : \A i, j \in 1..4 : p[i] = p[j] => i = j}
LifeOps == {<<Ld(1, 1)>> \o (IF rd THEN <<Dt(1)>> ELSE <<>>) \o (IF ck THEN <<Ck(1)>> ELSE <<>>) \o Rep(Cl(1), c1)
            \o <<Ld(2, 2), Ld(3, 3)>> \o p \o Rep(Cl(2), c2) \o <<Cl(3)>>
            \o <<Ld(4, 1), Ld(5, 2), Dt(5), Dt(4), Ck(4), Cl(4), Cl(5)>> :
               rd \in BOOLEAN, ck \in BOOLEAN, c1 \in 0..2, c2 \in 1..2, p \in Perms4({Dt(2), Dt(3), Ck(2), Ck(3)})}
\* the xz dictionary limit is process-wide state (deb.SetXZMaxDict): an xz package (dictionary 256 KiB, `xz -0`) loads
\* exactly when the limit in force is 0 (the default) or at least that; a gzip package always loads
XzPkg == <<Bin(V20), Ctl("xz", <<Dir, CtlF("./control")>>, Fields(PkgName(1), FALSE)), Dat("xz", <<DataFile(1)>>), Sig("origin", "k1", <<1, 2, 3>>)>>
Dc(n) == LOp("dict", 0, n, <<>>)
DictLife == {[k |-> "deb_ops", pkgs |-> <<XzPkg, LifePkg(2)>>, ops |-> o] : o \in {
                <<Ld(1, 1), Dt(1), Dc(65536), Ld(2, 1), Ld(3, 2), Dc(0), Ld(4, 1), Dt(4), Dt(3)>>,
                <<Dc(65536), Dc(0), Ld(1, 1), Dt(1)>>,
                <<Dc(1048576), Ld(1, 1), Dc(4096), Ld(2, 1), Dc(262144), Ld(3, 1), Dt(3), Dt(1), Dc(0), Ld(4, 1)>>,
                <<Dc(4096), Ld(1, 2), Dt(1), Dc(0), Dc(0), Ld(2, 1), Ck(2)>> }}
\* packages loaded from a PATH: the verdict of a handle is about what was loaded, whatever lies at the path later
Unsigned(n) == <<Bin(V20), Ctl("gz", <<Dir, CtlF("./control")>>, Fields(PkgName(n), FALSE)), Dat("gz", <<DataFile(n)>>)>>
WrongSig(n) == Unsigned(n) \o <<Sig("origin", "k1", <<1, 3, 2>>)>>
Lf(h, p) == LOp("loadfile", h, p, <<>>)  Cc(h) == LOp("closer", h, 0, <<>>)  Rp(p) == LOp("replace", 0, p, <<>>)
Ll(h, p) == LOp("loadlink", h, p, <<>>)
PathLife == {[k |-> "deb_ops", pkgs |-> <<ev, LifePkg(2)>>, ops |-> o] : ev \in {Unsigned(1), WrongSig(1)}, o \in {
                <<Ll(1, 2), Ck(1), Dt(1), Cc(1), Ll(2, 1), Dt(2), Cc(2)>>,
                <<Lf(1, 1), Ck(1), Cc(1), Rp(2), Ck(1)>>,
                <<Lf(1, 1), Cl(1), Rp(2), Ck(1), Cc(1)>>,
                <<Lf(1, 1), Rp(2), Ck(1), Dt(1), Cc(1)>>,
                <<Lf(1, 2), Ck(1), Cc(1), Rp(1), Lf(2, 1), Ck(2), Cc(2)>>,
                <<Lf(1, 2), Rp(1), Ck(1), Dt(1), Cc(1), Cc(1)>> }}
Life == {[k |-> "deb_ops", pkgs |-> <<LifePkg(1), LifePkg(2), LifePkg(3)>>, ops |-> o] : o \in LifeOps} \cup DictLife \cup PathLife
ASSUME Emit(CASE Mode = "c14" -> SetToSeq(C14Vecs) \o SetToSeq(Life)
              [] Mode = "c16" -> SetToSeq(C16Vecs) \o SetToSeq(Life))
=============================================================================
