package main

import (
	"bufio"
	"bytes"
	"crypto/sha256"
	"encoding/hex"
	"errors"
	"fmt"
	"io"
	"math/rand"
	"sort"
	"time"

	"pault.ag/go/debian/changelog"
)

func init() {
	props["C17"] = &prop{gen: genC17, exec: execChangelog}
}

func entryJ(e changelog.ChangelogEntry) J {
	keys := []string{}
	for k := range e.Arguments {
		keys = append(keys, k)
	}
	sort.Strings(keys)
	args := []interface{}{}
	for _, k := range keys {
		args = append(args, []interface{}{B(k), B(e.Arguments[k])})
	}
	_, zone := e.When.Zone()
	ver, _ := e.Version.MarshalControl()
	return J{"source": B(e.Source), "version": B(ver), "target": B(e.Target), "args": args,
		"changelog": B(e.Changelog), "changedby": B(e.ChangedBy),
		"when": J{"year": e.When.Year(), "mon": int(e.When.Month()), "day": e.When.Day(), "hh": e.When.Hour(),
			"mm": e.When.Minute(), "ss": e.When.Second(), "zone": zone}}
}

func entryID(e changelog.ChangelogEntry) string {
	sum := sha256.Sum256([]byte(fmt.Sprint(entryJ(e), e.When.Unix())))
	return hex.EncodeToString(sum[:6])
}

type clOutcome struct {
	ok      bool
	entries changelog.ChangelogEntries
	panicky bool
}

func parseCL(b []byte) (o clOutcome) {
	defer func() {
		if r := recover(); r != nil {
			o = clOutcome{panicky: true}
		}
	}()
	es, err := changelog.Parse(bytes.NewReader(b))
	return clOutcome{ok: err == nil, entries: es}
}

func parseCLFrom(r io.Reader) (o clOutcome) {
	defer func() {
		if r := recover(); r != nil {
			o = clOutcome{panicky: true}
		}
	}()
	es, err := changelog.Parse(r)
	return clOutcome{ok: err == nil, entries: es}
}

// failingSource delivers data and then fails with an I/O error for ever (never io.EOF)
type failingSource struct {
	data []byte
	off  int
}

func (f *failingSource) Read(p []byte) (int, error) {
	if f.off < len(f.data) {
		n := copy(p, f.data[f.off:])
		f.off += n
		return n, nil
	}
	return 0, errors.New("input/output error")
}

func idsOf(es changelog.ChangelogEntries) []interface{} {
	out := []interface{}{}
	for _, e := range es {
		out = append(out, entryID(e))
	}
	return out
}

func execChangelog(vec J, out *Writer) {
	switch vec["k"].(string) {
	case "cl":
		b := []byte(S(vec["bytes"]))
		full := parseCL(b)
		detail := []interface{}{}
		for _, e := range full.entries {
			detail = append(detail, entryJ(e))
		}
		cuts := []interface{}{}
		for c := 0; c <= len(b); c++ {
			o := parseCL(b[:c])
			cuts = append(cuts, J{"ok": o.ok, "n": len(o.entries), "ids": idsOf(o.entries), "panic": o.panicky})
		}
		// the same text parsed while the process lives in other time zones (daylight-saving ones among them): an entry's
		// instant and offset are what its trailer says, wherever and whenever it is parsed
		tz := []interface{}{}
		saved := time.Local
		for _, z := range []string{"Europe/Berlin", "America/New_York", "Australia/Lord_Howe", "UTC"} {
			if loc, err := time.LoadLocation(z); err == nil {
				time.Local = loc
				o := parseCL(b)
				tz = append(tz, J{"zone": z, "ok": o.ok, "ids": idsOf(o.entries)})
			}
		}
		time.Local = saved
		// the source FAILS (an I/O error, not end of input) after c bytes, for every c
		faults := []interface{}{}
		for c := 0; c <= len(b); c++ {
			o := parseCLFrom(&failingSource{data: b[:c]})
			faults = append(faults, J{"ok": o.ok, "n": len(o.entries), "panic": o.panicky})
		}
		// ParseOne called repeatedly on one reader
		steps := []interface{}{}
		rd := bufio.NewReader(bytes.NewReader(b))
		for i := 0; i < len(b)+3; i++ {
			e, err := changelog.ParseOne(rd)
			if err == io.EOF {
				steps = append(steps, J{"ret": "eof", "id": ""})
				break
			}
			if err != nil {
				steps = append(steps, J{"ret": "err", "id": ""})
				break
			}
			steps = append(steps, J{"ret": "entry", "id": entryID(*e)})
		}
		lean := J{"k": "cl", "entries": vec["entries"], "lead": vec["lead"], "gap": vec["gap"], "final": vec["final"], "bytes": vec["bytes"], "ends": vec["ends"]}
		out.Put(J{"ev": "cl", "in": lean, "full": J{"ok": full.ok, "panic": full.panicky, "entries": detail, "ids": idsOf(full.entries)},
			"cuts": cuts, "faults": faults, "tz": tz, "steps": steps})
	case "clraw":
		// corrupted changelog text: only "all entries or an error"
		b := []byte(S(vec["bytes"]))
		o := parseCL(b)
		o2 := parseCL(b)
		out.Put(J{"ev": "clraw", "in": vec, "ok": o.ok, "n": len(o.entries), "panic": o.panicky, "same": fmt.Sprint(idsOf(o.entries), o.ok) == fmt.Sprint(idsOf(o2.entries), o2.ok)})
	default:
		die("changelog: unknown vector kind %v", vec["k"])
	}
}

func genC17(seed int64, tier string, out *Writer) {
	r := rand.New(rand.NewSource(seed))
	base := []struct {
		text string
		n    int
	}{}
	path := envBase()
	if path != "" {
		ReadNDJSON(path, func(v J) {
			if v["k"] == "cl" {
				base = append(base, struct {
					text string
					n    int
				}{S(v["bytes"]), len(L(v["entries"]))})
			}
		})
	}
	if len(base) == 0 {
		return
	}
	n := 3000
	if tier == "thorough" {
		n = 60000
	}
	alpha := " \n();,=-<>:+0aZ\t"
	for i := 0; i < n; i++ {
		bt := base[r.Intn(len(base))]
		t := bt.text
		if len(t) == 0 {
			continue
		}
		pos := r.Intn(len(t))
		switch r.Intn(3) {
		case 0:
			t = t[:pos] + t[pos+1:]
		case 1:
			t = t[:pos] + string(alpha[r.Intn(len(alpha))]) + t[pos:]
		default:
			t = t[:pos] + string(alpha[r.Intn(len(alpha))]) + t[pos+1:]
		}
		out.Put(J{"k": "clraw", "bytes": B(t), "n": bt.n})
	}
}
