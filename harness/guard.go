package main

import (
	"fmt"
	"os"
	"runtime/debug"
	"strconv"
	"strings"
	"time"
)

// The exec loop runs every vector under a guard, so that a library call that panics or does not return becomes
// an OBSERVATION (a "crash" trace line that TLC judges) instead of a dead harness.
//   - a panic whose innermost non-runtime, non-third-party frame is in pault.ag/go/debian  -> crash line, kind "panic"
//   - a panic raised by the harness itself                                               -> the harness dies (exit 2 upstream)
//   - no return within the per-vector deadline                                           -> crash line, kind "hang";
//     the goroutine is abandoned; after maxHangs hangs the run is cut short ("truncated" is printed and the
//     pipeline treats a truncated run without a confirmed violation as broken, never as a pass).

var hangs = 0

const maxHangs = 3

func vectorDeadline() time.Duration {
	if v := os.Getenv("VERIF_VECTOR_TIMEOUT"); v != "" {
		if n, err := strconv.Atoi(v); err == nil && n > 0 {
			return time.Duration(n) * time.Second
		}
	}
	return 120 * time.Second
}

// panicInLibrary: walking outward from the panic, the first frame that belongs either to the harness (main.) or to
// the library decides.
func panicInLibrary(stack string) bool {
	lines := strings.Split(stack, "\n")
	seenPanic := false
	for _, l := range lines {
		if strings.HasPrefix(l, "\t") || l == "" {
			continue
		}
		if strings.HasPrefix(l, "panic(") {
			seenPanic = true
			continue
		}
		if !seenPanic {
			continue
		}
		if strings.HasPrefix(l, "pault.ag/go/debian/") {
			return true
		}
		if strings.HasPrefix(l, "main.") {
			return false
		}
	}
	return false
}

func guardedExec(exec func(J, *Writer), vec J, w *Writer) {
	type result struct {
		lines [][]byte
		crash J
		fatal string
	}
	ch := make(chan result, 1)
	go func() {
		sub := &Writer{n: w.n} // in-memory; keeps counting trace lines from where the file stands
		defer func() {
			if r := recover(); r != nil {
				st := string(debug.Stack())
				if panicInLibrary(st) {
					ch <- result{crash: J{"ev": "crash", "in": vec, "kind": "panic", "msg": B(fmt.Sprint(r))}}
				} else {
					ch <- result{fatal: fmt.Sprintf("harness panic: %v\n%s", r, st)}
				}
			}
		}()
		exec(vec, sub)
		ch <- result{lines: sub.lines}
	}()
	select {
	case r := <-ch:
		if r.fatal != "" {
			w.Close()
			die("%s", r.fatal)
		}
		if r.crash != nil {
			w.Put(r.crash)
			return
		}
		for _, l := range r.lines {
			w.putRaw(l)
		}
	case <-time.After(vectorDeadline()):
		hangs++
		w.Put(J{"ev": "crash", "in": vec, "kind": "hang", "msg": B("no return within the per-vector deadline")})
	}
}
