package main

import (
	"fmt"
	"math/rand"
	"strings"

	"pault.ag/go/debian/control"
	"pault.ag/go/debian/dependency"
)

func init() {
	props["C19"] = &prop{gen: genC19, exec: execOrder}
}

func execOrder(vec J, out *Writer) {
	if vec["k"].(string) != "order" {
		die("buildorder: unknown vector kind %v", vec["k"])
	}
	dscs := []control.DSC{}
	parsed := true
	reuse, _ := vec["reuse"].(bool)
	var scratch control.DSC // reuse: every .dsc is decoded into this ONE variable and copied out (a Decoder loop)
	for i, t := range L(vec["dscs"]) {
		if reuse {
			// (a field that a document does not carry keeps its old value - that is the decoder's contract, so the
			// optional dependency fields are cleared by hand; the LIST fields every document carries, Binary above all,
			// are what the decoder itself has to start afresh)
			scratch.BuildDepends, scratch.BuildDependsArch, scratch.BuildDependsIndep = dependency.Dependency{}, dependency.Dependency{}, dependency.Dependency{}
			if err := control.Unmarshal(&scratch, bufioReader(S(t))); err != nil {
				parsed = false
				break
			}
			dscs = append(dscs, scratch)
			continue
		}
		d, err := control.ParseDsc(bufioReader(S(t)), fmt.Sprintf("/tmp/s%d.dsc", i))
		if err != nil {
			parsed = false
			break
		}
		dscs = append(dscs, *d)
	}
	target := "amd64"
	if tg, ok := vec["target"].(string); ok && tg != "" {
		target = tg
	}
	arch, _ := dependency.ParseArch(target)
	runs := []interface{}{}
	panicked := false
	if pw, ok := vec["prewarm"].(string); ok && pw != "" && parsed {
		// the same parsed sources were ordered for ANOTHER architecture before: a question asked earlier changes nothing
		func() {
			defer func() { recover() }()
			if other, err := dependency.ParseArch(pw); err == nil {
				control.OrderDSCForBuild(append([]control.DSC{}, dscs...), *other)
			}
		}()
	}
	if parsed {
		for r := 0; r < 5; r++ {
			func() {
				defer func() {
					if e := recover(); e != nil {
						panicked = true
						runs = append(runs, J{"ok": false, "order": []interface{}{}})
					}
				}()
				// every run gets a fresh copy of the input, in the same order
				in := append([]control.DSC{}, dscs...)
				res, err := control.OrderDSCForBuild(in, *arch)
				order := []interface{}{}
				for _, d := range res {
					order = append(order, B(d.Source))
				}
				if err != nil {
					order = []interface{}{}
				}
				runs = append(runs, J{"ok": err == nil, "order": order})
			}()
		}
	} else {
		runs = append(runs, J{"ok": false, "order": []interface{}{}})
	}
	out.Put(J{"ev": "order", "in": vec, "parsed": parsed, "runs": runs, "panic": panicked})
}

// genC19: random graphs over 1..12 sources with 1..4 binaries each, rendered here the same way
// the specification renders the small ones (TLC checks the rendering of every vector).
func genC19(seed int64, tier string, out *Writer) {
	r := rand.New(rand.NewSource(seed))
	n := 60
	if tier == "thorough" {
		n = 1500
	}
	restrs := []string{"none", "none", "none", "only-target", "only-other", "not-target", "not-other", "not-target2", "substvar"}
	for g := 0; g < n; g++ {
		ns := 1 + r.Intn(12)
		type src struct {
			name     string
			binaries []string
			fields   [3][][]J
		}
		srcs := make([]src, ns)
		for i := range srcs {
			srcs[i].name = fmt.Sprintf("src%c", 'a'+i)
			for k := 1 + r.Intn(4); k > 0; k-- {
				srcs[i].binaries = append(srcs[i].binaries, fmt.Sprintf("%s-bin%d", srcs[i].name, k))
			}
		}
		acyclic := r.Intn(3) != 0
		for i := range srcs {
			for f := 0; f < 3; f++ {
				for k := r.Intn(6); k > 0; k-- {
					rel := []J{}
					for a := 1 + r.Intn(3); a > 0; a-- {
						t := r.Intn(ns)
						if acyclic && t >= i {
							if i == 0 {
								rel = append(rel, J{"name": B("debhelper"), "restr": restrs[r.Intn(len(restrs)-1)]})
								continue
							}
							t = r.Intn(i)
						}
						rs := restrs[r.Intn(len(restrs))]
						nm := srcs[t].binaries[r.Intn(len(srcs[t].binaries))]
						if rs == "substvar" {
							nm = "misc:Depends"
						}
						rel = append(rel, J{"name": B(nm), "restr": rs})
					}
					srcs[i].fields[f] = append(srcs[i].fields[f], rel)
				}
			}
		}
		folded := r.Intn(2) == 0
		model := []interface{}{}
		texts := []interface{}{}
		for _, s := range srcs {
			bins := []interface{}{}
			for _, b := range s.binaries {
				bins = append(bins, B(b))
			}
			fields := []interface{}{}
			for f := 0; f < 3; f++ {
				rels := []interface{}{}
				for _, rel := range s.fields[f] {
					alts := []interface{}{}
					for _, a := range rel {
						alts = append(alts, a)
					}
					rels = append(rels, alts)
				}
				fields = append(fields, rels)
			}
			model = append(model, J{"name": B(s.name), "binaries": bins, "fields": fields})
			texts = append(texts, B(renderDscGo(s.name, s.binaries, s.fields, folded)))
		}
		out.Put(J{"k": "order", "sources": model, "folded": folded, "dscs": texts})
	}
}

func renderAltGo(a J) string {
	n := S(a["name"])
	switch a["restr"].(string) {
	case "substvar":
		return "${" + n + "}"
	case "none":
		return n
	case "only-target":
		return n + " [amd64]"
	case "only-other":
		return n + " [i386]"
	case "not-target":
		return n + " [!amd64]"
	case "not-other":
		return n + " [!i386 !arm64]"
	case "not-target2":
		return n + " [!i386 !amd64]"
	}
	return n
}

func renderDscGo(name string, binaries []string, fields [3][][]J, folded bool) string {
	sep := ", "
	if folded {
		sep = ",\n "
	}
	var sb strings.Builder
	sb.WriteString("Format: 3.0 (quilt)\nSource: " + name + "\nBinary: " + strings.Join(binaries, sep) + "\nArchitecture: any\nVersion: 1.0-1\nMaintainer: M <m@x>\n")
	labels := []string{"Build-Depends", "Build-Depends-Arch", "Build-Depends-Indep"}
	for f := 0; f < 3; f++ {
		if len(fields[f]) == 0 {
			continue
		}
		rels := []string{}
		for _, rel := range fields[f] {
			alts := []string{}
			for _, a := range rel {
				alts = append(alts, renderAltGo(a))
			}
			rels = append(rels, strings.Join(alts, " | "))
		}
		sb.WriteString(labels[f] + ": " + strings.Join(rels, sep) + "\n")
	}
	sb.WriteString("Files:\n d41d8cd98f00b204e9800998ecf8427e 0 " + name + "_1.0.tar.gz\n")
	return sb.String()
}
