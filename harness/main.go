// Command harness drives the real go-debian packages and records what they
// do.  It never judges: every observation is written to an ndjson trace that
// TLC validates against the TLA+ specification.
//
//	harness gen  <prop> <seed> <tier> <vectors.ndjson>   random/fault vectors
//	harness exec <prop> <vectors.ndjson> <trace.ndjson>  run vectors on the real code
package main

import (
	"fmt"
	"os"
	"strconv"
	"strings"
)

type prop struct {
	gen  func(seed int64, tier string, out *Writer)
	exec func(vec J, out *Writer)
}

var props = map[string]*prop{}

func main() {
	if len(os.Args) < 2 {
		die("usage: harness gen|exec ...")
	}
	switch os.Args[1] {
	case "gen":
		if len(os.Args) != 6 {
			die("usage: harness gen <prop> <seed> <tier> <out>")
		}
		p := props[os.Args[2]]
		if p == nil || p.gen == nil {
			die("no generator for %s", os.Args[2])
		}
		seed, err := strconv.ParseInt(os.Args[3], 10, 64)
		if err != nil {
			die("bad seed")
		}
		w := NewWriter(os.Args[5])
		p.gen(seed, os.Args[4], w)
		w.Close()
		fmt.Printf("generated %d vectors\n", w.n)
	case "exec":
		if len(os.Args) != 5 {
			die("usage: harness exec <prop> <in> <out>")
		}
		p := props[os.Args[2]]
		if p == nil || p.exec == nil {
			die("no executor for %s", os.Args[2])
		}
		w := NewWriter(os.Args[4])
		n := 0
		skipped := 0
		ReadNDJSON(os.Args[3], func(vec J) {
			n++
			if hangs >= maxHangs {
				skipped++
				return
			}
			ex := p.exec
			if k, ok := vec["k"].(string); ok && strings.HasSuffix(k, "_long") {
				ex = execLong // long-line vectors (spec/LongGen.tla) are shared by several properties
			}
			guardedExec(ex, vec, w)
		})
		w.Close()
		fmt.Printf("executed %d vectors, wrote %d trace lines\n", n-skipped, w.n)
		if skipped > 0 {
			fmt.Printf("TRUNCATED: %d vectors not executed after %d calls did not return\n", skipped, hangs)
		}
		if hangs > 0 {
			os.Exit(0) // abandoned goroutines may still be spinning
		}
	default:
		if sub, ok := subcommands[os.Args[1]]; ok {
			sub(os.Args[2:])
			return
		}
		die("unknown command %s", os.Args[1])
	}
}

var subcommands = map[string]func([]string){}
