package main

import (
	"bufio"
	"bytes"
	"io"
	"strings"

	"golang.org/x/crypto/openpgp"

	"pault.ag/go/debian/changelog"
	"pault.ag/go/debian/control"
)

// Long inputs: vectors carry byte strings as segments [unit, count] (spec/Segs.tla); the harness expands them
// mechanically, and logs long observed strings in canonical run-length form [[byte, count], ...].

func expandSegs(v interface{}) []byte {
	var buf bytes.Buffer
	for _, sj := range L(v) {
		s := L(sj)
		unit := []byte(S(s[0]))
		for n := I(s[1]); n > 0; n-- {
			buf.Write(unit)
		}
	}
	return buf.Bytes()
}

func rle(b []byte) []interface{} {
	out := []interface{}{}
	for i := 0; i < len(b); {
		j := i
		for j < len(b) && b[j] == b[i] {
			j++
		}
		out = append(out, []interface{}{int(b[i]), j - i})
		i = j
	}
	return out
}

func paraRLE(p control.Paragraph) J {
	order := []interface{}{}
	vals := []interface{}{}
	for _, k := range p.Order {
		order = append(order, B(k))
		v, ok := p.Values[k]
		vals = append(vals, J{"name": B(k), "present": ok, "value": rle([]byte(v))})
	}
	return J{"order": order, "values": vals, "nvalues": len(p.Values)}
}

func parasRLE(ps []control.Paragraph) []interface{} {
	out := []interface{}{}
	for _, p := range ps {
		out = append(out, paraRLE(p))
	}
	return out
}

func execLong(vec J, out *Writer) {
	switch vec["k"].(string) {
	case "read_long":
		doc := expandSegs(vec["doc"])
		rec := J{"ev": "read_long", "in": vec, "len": len(doc), "signer": "none"}
		var ring *openpgp.EntityList
		if sk, ok := vec["sign"]; ok {
			// the document clearsigned by that key, read with a keyring that holds it
			doc = clearSign(key(sk.(string)), doc)
			el := keyring([]interface{}{sk})
			ring = &el
			if r, err := control.NewParagraphReader(bytes.NewReader(doc), ring); err == nil {
				rec["signer"] = keyName(r.Signer())
			}
		}
		// path 1: Next until EOF
		func() {
			r, err := control.NewParagraphReader(bytes.NewReader(doc), ring)
			if err != nil {
				rec["next"] = J{"ok": false, "paras": []interface{}{}}
				return
			}
			ps := []control.Paragraph{}
			for i := 0; i < 1000; i++ {
				p, err := r.Next()
				if err == io.EOF {
					rec["next"] = J{"ok": true, "paras": parasRLE(ps)}
					return
				}
				if err != nil || p == nil {
					break
				}
				ps = append(ps, *p)
			}
			rec["next"] = J{"ok": false, "paras": parasRLE(ps)}
		}()
		// path 2: All
		func() {
			r, err := control.NewParagraphReader(bytes.NewReader(doc), ring)
			if err != nil {
				rec["all"] = J{"ok": false, "paras": []interface{}{}}
				return
			}
			ps, err := r.All()
			rec["all"] = J{"ok": err == nil, "paras": parasRLE(ps)}
		}()
		// path 3: Unmarshal into a slice of structs embedding Paragraph, through a caller-supplied bufio.Reader
		func() {
			var into []rawPara
			var err error
			if ring == nil {
				err = control.Unmarshal(&into, bufio.NewReaderSize(bytes.NewReader(doc), 16))
			} else {
				var dec *control.Decoder
				if dec, err = control.NewDecoder(bufio.NewReaderSize(bytes.NewReader(doc), 16), ring); err == nil {
					err = dec.Decode(&into)
				}
			}
			ps := []control.Paragraph{}
			for _, x := range into {
				ps = append(ps, x.Paragraph)
			}
			rec["slice"] = J{"ok": err == nil, "paras": parasRLE(ps)}
		}()
		out.Put(rec)
	case "write_long":
		p := control.Paragraph{Order: []string{}, Values: map[string]string{}}
		for _, fj := range L(vec["expect"]) {
			f := M(fj)
			p.Set(S(f["name"]), string(expandSegs(f["value"])))
		}
		var buf bytes.Buffer
		err := p.WriteTo(&buf)
		rec := J{"ev": "write_long", "in": vec, "w_ok": err == nil, "written": rle(buf.Bytes())}
		r, rerr := control.NewParagraphReader(bytes.NewReader(buf.Bytes()), nil)
		if rerr == nil {
			ps, aerr := r.All()
			rec["back"] = J{"ok": aerr == nil, "paras": parasRLE(ps)}
		} else {
			rec["back"] = J{"ok": false, "paras": []interface{}{}}
		}
		out.Put(rec)
	case "rt_long":
		t := vec["type"].(string)
		field := vec["field"].(string)
		elems := []string{}
		for _, e := range L(vec["elems"]) {
			elems = append(elems, string(expandSegs(e)))
		}
		rec := J{"ev": "rt_long", "in": vec, "marshal_ok": false, "unmarshal_ok": false, "decoded": []interface{}{}, "line_max": 0}
		var text bytes.Buffer
		decode := func(into interface{}) error { return control.Unmarshal(into, bytes.NewReader(text.Bytes())) }
		switch t + "." + field {
		case "P1.S":
			p := &P1{S: elems[0]}
			if control.Marshal(&text, p) == nil {
				rec["marshal_ok"] = true
				q := &P1{}
				rec["unmarshal_ok"] = decode(q) == nil
				rec["decoded"] = []interface{}{rle([]byte(q.S))}
			}
		case "P3.Sp":
			p := &P3{Sp: elems}
			if control.Marshal(&text, p) == nil {
				rec["marshal_ok"] = true
				q := &P3{}
				rec["unmarshal_ok"] = decode(q) == nil
				d := []interface{}{}
				for _, e := range q.Sp {
					d = append(d, rle([]byte(e)))
				}
				rec["decoded"] = d
			}
		case "P3.L":
			p := &P3{L: elems}
			if control.Marshal(&text, p) == nil {
				rec["marshal_ok"] = true
				q := &P3{}
				rec["unmarshal_ok"] = decode(q) == nil
				d := []interface{}{}
				for _, e := range q.L {
					d = append(d, rle([]byte(e)))
				}
				rec["decoded"] = d
			}
		default:
			die("rt_long: unknown probe %s.%s", t, field)
		}
		for _, l := range strings.Split(text.String(), "\n") {
			if len(l)+1 > rec["line_max"].(int) {
				rec["line_max"] = len(l) + 1
			}
		}
		out.Put(rec)
	case "doc_long":
		doc := expandSegs(vec["doc"])
		rec := J{"ev": "doc_long", "in": vec, "ok": false, "n": 0, "depends": []interface{}{}, "len": len(doc)}
		idx, err := control.ParseBinaryIndex(bufio.NewReader(bytes.NewReader(doc)))
		if err == nil {
			rec["ok"] = true
			rec["n"] = len(idx)
			if len(idx) > 0 {
				rels := []interface{}{}
				for _, r := range idx[0].GetDepends().Relations {
					alts := []interface{}{}
					for _, p := range r.Possibilities {
						v := J{"name": rle([]byte(p.Name)), "has_version": p.Version != nil, "op": "", "number": B("")}
						if p.Version != nil {
							v["op"] = p.Version.Operator
							v["number"] = B(p.Version.Number)
						}
						alts = append(alts, v)
					}
					rels = append(rels, alts)
				}
				rec["depends"] = rels
				rec["package"] = B(idx[0].Package)
				rec["nfields"] = len(idx[0].Paragraph.Order)
			}
		}
		if _, ok := rec["package"]; !ok {
			rec["package"] = B("")
			rec["nfields"] = 0
		}
		out.Put(rec)
	case "cl_long":
		doc := expandSegs(vec["doc"])
		rec := J{"ev": "cl_long", "in": vec, "ok": false, "entries": []interface{}{}, "len": len(doc)}
		es, err := changelog.Parse(bytes.NewReader(doc))
		if err == nil {
			rec["ok"] = true
			l := []interface{}{}
			for _, e := range es {
				l = append(l, J{"source": B(e.Source), "version": B(e.Version.String()), "changelog": rle([]byte(e.Changelog)), "changedby": B(e.ChangedBy)})
			}
			rec["entries"] = l
		}
		out.Put(rec)
	default:
		die("long: unknown vector kind %v", vec["k"])
	}
}
