module verif/harness

go 1.19

require pault.ag/go/debian v0.0.0

require (
	golang.org/x/crypto v0.9.0 // indirect
	pault.ag/go/topsort v0.1.1 // indirect
)

replace pault.ag/go/debian => /repo
