package main

import (
	"bytes"
	"errors"
	"io"
	"math/rand"
	"sort"
	"strings"

	"pault.ag/go/debian/control"
)

func init() {
	props["C07"] = &prop{gen: genC07, exec: execControlRW}
	props["C08"] = &prop{gen: genC08, exec: execControlRW}
}

// ---- projection -----------------------------------------------------------

func paraToJ(p control.Paragraph) J {
	order := make([]interface{}, 0, len(p.Order))
	for _, k := range p.Order {
		order = append(order, B(k))
	}
	keys := make([]string, 0, len(p.Values))
	for k := range p.Values {
		keys = append(keys, k)
	}
	sort.Strings(keys)
	vals := make([]interface{}, 0, len(keys))
	for _, k := range keys {
		vals = append(vals, []interface{}{B(k), B(p.Values[k])})
	}
	return J{"order": order, "values": vals}
}

func parasToJ(ps []control.Paragraph) []interface{} {
	out := make([]interface{}, 0, len(ps))
	for _, p := range ps {
		out = append(out, paraToJ(p))
	}
	return out
}

func paraFromJ(j J) control.Paragraph {
	p := control.Paragraph{Order: []string{}, Values: map[string]string{}}
	for _, k := range L(j["order"]) {
		p.Order = append(p.Order, S(k))
	}
	for _, kv := range L(j["values"]) {
		pair := L(kv)
		p.Values[S(pair[0])] = S(pair[1])
	}
	return p
}

type rawPara struct {
	control.Paragraph
}

// ---- the four read paths ----------------------------------------------------

func readNextLoop(doc string) J {
	r, err := control.NewParagraphReader(strings.NewReader(doc), nil)
	if err != nil {
		return J{"paras": []interface{}{}, "end": "err", "steps": 0, "nil_on_end": true}
	}
	paras := []control.Paragraph{}
	budget := len(doc) + 8
	for i := 0; ; i++ {
		if i > budget {
			return J{"paras": parasToJ(paras), "end": "nonterminating", "steps": i}
		}
		p, err := r.Next()
		if err == io.EOF {
			return J{"paras": parasToJ(paras), "end": "eof", "steps": i + 1, "nil_on_end": p == nil}
		}
		if err != nil {
			return J{"paras": parasToJ(paras), "end": "err", "steps": i + 1, "nil_on_end": p == nil}
		}
		if p == nil {
			return J{"paras": parasToJ(paras), "end": "nil-without-error", "steps": i + 1}
		}
		paras = append(paras, *p)
	}
}

func readAll(doc string) ([]control.Paragraph, error) {
	r, err := control.NewParagraphReader(strings.NewReader(doc), nil)
	if err != nil {
		return nil, err
	}
	return r.All()
}

func obsParas(ps []control.Paragraph, err error) J {
	if err != nil {
		return J{"ok": false, "paras": []interface{}{}}
	}
	return J{"ok": true, "paras": parasToJ(ps)}
}

// typedPara: the raw paragraph plus typed (optional) fields for the names the token documents use
type typedPara struct {
	control.Paragraph
	A string
	B string
	C string
}

func readSlice(doc string) J {
	var into []typedPara
	err := control.Unmarshal(&into, strings.NewReader(doc))
	ps := []control.Paragraph{}
	typed := []interface{}{}
	for _, x := range into {
		ps = append(ps, x.Paragraph)
		typed = append(typed, []interface{}{B(x.A), B(x.B), B(x.C)})
	}
	o := obsParas(ps, err)
	if err != nil {
		typed = []interface{}{}
	}
	o["typed"] = typed
	return o
}

func readDecodeLoop(doc string) J {
	d, err := control.NewDecoder(strings.NewReader(doc), nil)
	if err != nil {
		return J{"paras": []interface{}{}, "end": "err"}
	}
	paras := []control.Paragraph{}
	for i := 0; i <= len(doc)+8; i++ {
		var x rawPara
		err := d.Decode(&x)
		if err == io.EOF {
			return J{"paras": parasToJ(paras), "end": "eof"}
		}
		if err != nil {
			return J{"paras": parasToJ(paras), "end": "err"}
		}
		paras = append(paras, x.Paragraph)
	}
	return J{"paras": parasToJ(paras), "end": "nonterminating"}
}

// ---- writing --------------------------------------------------------------

func writeOne(p control.Paragraph) (string, error) {
	var buf bytes.Buffer
	err := p.WriteTo(&buf)
	return buf.String(), err
}

func encodeAll(ps []control.Paragraph) (string, error) {
	var buf bytes.Buffer
	enc, err := control.NewEncoder(&buf)
	if err != nil {
		return "", err
	}
	for _, p := range ps {
		if err := enc.Encode(rawPara{p}); err != nil {
			return buf.String(), err
		}
	}
	return buf.String(), nil
}

// cycles: W1 = encode(ps), R1 = read(W1), W2 = encode(R1), ...
func cycles(ps []control.Paragraph, n int) []interface{} {
	out := []interface{}{}
	cur := ps
	for i := 0; i < n; i++ {
		w, werr := encodeAll(cur)
		step := J{"w": B(w), "w_ok": werr == nil}
		r, rerr := readAll(w)
		step["r"] = obsParas(r, rerr)
		out = append(out, step)
		if werr != nil || rerr != nil {
			break
		}
		cur = r
	}
	return out
}

func execControlRW(vec J, out *Writer) {
	switch vec["k"].(string) {
	case "read":
		doc := S(vec["doc"])
		all, aerr := readAll(doc)
		out.Put(J{"ev": "read", "in": vec, "next": readNextLoop(doc), "all": obsParas(all, aerr),
			"slice": readSlice(doc), "decode": readDecodeLoop(doc)})
	case "write":
		ps := []control.Paragraph{}
		for _, pj := range L(vec["paras"]) {
			ps = append(ps, paraFromJ(M(pj)))
		}
		singles := []interface{}{}
		for _, p := range ps {
			w, werr := writeOne(p)
			r, rerr := readAll(w)
			singles = append(singles, J{"w": B(w), "w_ok": werr == nil, "r": obsParas(r, rerr)})
		}
		out.Put(J{"ev": "write", "in": vec, "singles": singles, "cycles": cycles(ps, 3)})
	case "enc_structs":
		// structs (one required field, one optional) through the Encoder, one after another
		var buf bytes.Buffer
		rec := J{"ev": "enc_structs", "in": vec, "ok": false, "panic": false, "w": B("")}
		func() {
			defer func() {
				if r := recover(); r != nil {
					rec["panic"] = true
				}
			}()
			enc, err := control.NewEncoder(&buf)
			if err != nil {
				return
			}
			dup, _ := vec["dup"].(bool)
			vals := L(vec["values"])
			if n := I0(vec["slice_first"]); n > 0 && n <= len(vals) && !dup {
				// the first n structs go through ONE Encode call as a slice (by value or behind a pointer), the others follow
				// one by one: the same paragraphs, the same separators
				first := []encProbe{}
				for _, vj := range vals[:n] {
					v := M(vj)
					first = append(first, encProbe{Name: S(v["Name"]), Comment: S(v["Comment"]), Notes: S(v["Notes"])})
				}
				var err error
				if ptr, _ := vec["slice_ptr"].(bool); ptr {
					err = enc.Encode(&first)
				} else {
					err = enc.Encode(first)
				}
				if err != nil {
					return
				}
				vals = vals[n:]
			}
			for _, vj := range vals {
				v := M(vj)
				var err error
				if dup {
					// two members of the struct carry the same field name: the paragraph still has that field once
					err = enc.Encode(encDup{A: S(v["Name"]), B: S(v["Name"]), S: S(v["Comment"])})
				} else {
					err = enc.Encode(encProbe{Name: S(v["Name"]), Comment: S(v["Comment"]), Notes: S(v["Notes"])})
				}
				if err != nil {
					return
				}
			}
			rec["ok"] = true
		}()
		rec["w"] = BB(buf.Bytes())
		out.Put(rec)
	case "write_fault":
		// a sink that refuses exactly its k-th Write (nothing of it is stored, an error is returned), then works again:
		// what the Encoder / WriteTo REPORT as written must be in the sink
		ps := []control.Paragraph{}
		for _, pj := range L(vec["paras"]) {
			ps = append(ps, paraFromJ(M(pj)))
		}
		sink := &faultySink{failAt: I(vec["fail_at"])}
		errs := []interface{}{}
		func() {
			defer func() {
				if r := recover(); r != nil {
					errs = append(errs, "panic")
				}
			}()
			if vec["via"].(string) == "encoder" {
				enc, err := control.NewEncoder(sink)
				if err != nil {
					return
				}
				for i := range ps {
					errs = append(errs, enc.Encode(rawPara{ps[i]}) != nil)
				}
			} else {
				for i := range ps {
					if i > 0 {
						sink.buf.WriteString("\n") // the caller's own separator, not through the faulty path
					}
					errs = append(errs, ps[i].WriteTo(sink) != nil)
				}
			}
		}()
		// afterwards, the FIRST paragraph written once more to a healthy buffer: a failed write leaves nothing behind that
		// a later write would emit
		var after bytes.Buffer
		afterOK := false
		func() {
			defer func() { recover() }()
			afterOK = len(ps) > 0 && ps[0].WriteTo(&after) == nil
		}()
		out.Put(J{"ev": "write_fault", "in": vec, "errs": errs, "sink": BB(sink.buf.Bytes()), "writes": sink.calls, "fired": sink.calls >= sink.failAt,
			"after_ok": afterOK, "after": BB(after.Bytes())})
	case "rw":
		doc := S(vec["doc"])
		r0, err := readAll(doc)
		rec := J{"ev": "rw", "in": vec, "r0": obsParas(r0, err), "cycles": []interface{}{}}
		if err == nil {
			rec["cycles"] = cycles(r0, 3)
		}
		out.Put(rec)
	default:
		die("control_rw: unknown vector kind %v", vec["k"])
	}
}

// ---- generators (documents from a deb822 model, larger than the TLC bound) ---

var fieldNames = []string{"Package", "Source", "Version", "Description", "X-Foo", "Depends", "A", "Build-Depends", "Files", "a1+b"}

func randWord(r *rand.Rand) string {
	words := []string{"foo", "bar (>= 1.0)", "x", "libc6", "a  b", "1:2.3-4", "äö", "trailing:colon", "#nothash", "-dash", ".", "..", "=", "w\tt"}
	return words[r.Intn(len(words))]
}

func randDoc(r *rand.Rand, wellformed bool) string {
	eol := "\n"
	if r.Intn(3) == 0 {
		eol = "\r\n"
	}
	var sb strings.Builder
	for k := r.Intn(3); k > 0; k-- {
		sb.WriteString(eol)
	}
	nparas := r.Intn(4)
	for p := 0; p < nparas; p++ {
		perm := r.Perm(len(fieldNames))
		nf := 1 + r.Intn(4)
		for f := 0; f < nf; f++ {
			name := fieldNames[perm[f]]
			if !wellformed && r.Intn(8) == 0 {
				name = fieldNames[perm[0]]
			}
			sb.WriteString(name + ":")
			if r.Intn(4) != 0 {
				sb.WriteString(strings.Repeat(" ", r.Intn(3)) + randWord(r) + strings.Repeat(" ", r.Intn(2)))
			}
			sb.WriteString(eol)
			for c := r.Intn(4); c > 0; c-- {
				switch r.Intn(6) {
				case 0:
					sb.WriteString(" ." + eol)
				case 1:
					sb.WriteString("\t" + randWord(r) + eol)
				case 2:
					sb.WriteString("#" + randWord(r) + eol)
				case 3:
					sb.WriteString("   " + randWord(r) + " " + randWord(r) + "  " + eol)
				default:
					sb.WriteString(" " + randWord(r) + eol)
				}
			}
			if !wellformed {
				switch r.Intn(12) {
				case 0:
					sb.WriteString(" " + eol)
				case 1:
					sb.WriteString("nocolon" + eol)
				case 2:
					sb.WriteString(" \t " + eol)
				}
			}
		}
		if p < nparas-1 || r.Intn(2) == 0 {
			for k := 1 + r.Intn(3); k > 0; k-- {
				sb.WriteString(eol)
			}
		}
		if !wellformed && r.Intn(6) == 0 {
			sb.WriteString(" orphan" + eol)
		}
	}
	s := sb.String()
	if r.Intn(4) == 0 && strings.HasSuffix(s, eol) {
		s = strings.TrimSuffix(s, eol)
	}
	if len(s) > 250 {
		s = s[:250]
	}
	return s
}

func randBytes(r *rand.Rand, n int, alpha string) string {
	b := make([]byte, n)
	for i := range b {
		if r.Intn(10) == 0 {
			b[i] = byte(r.Intn(256))
		} else {
			b[i] = alpha[r.Intn(len(alpha))]
		}
	}
	return string(b)
}

func genC07(seed int64, tier string, out *Writer) {
	r := rand.New(rand.NewSource(seed))
	n := 1500
	if tier == "thorough" {
		n = 30000
	}
	for i := 0; i < n; i++ {
		out.Put(J{"k": "read", "doc": B(randDoc(r, true))})
		out.Put(J{"k": "read", "doc": B(randDoc(r, false))})
		out.Put(J{"k": "read", "doc": B(randBytes(r, r.Intn(48), "AB: \n\n\t#.\r-x"))})
	}
}

func genC08(seed int64, tier string, out *Writer) {
	r := rand.New(rand.NewSource(seed))
	n := 1000
	if tier == "thorough" {
		n = 20000
	}
	lines := []string{"", "a", "  indented", "text with words", ".", "x.", "tab\tinside", "", ""}
	for i := 0; i < n; i++ {
		out.Put(J{"k": "rw", "doc": B(randDoc(r, true))})
		out.Put(J{"k": "rw", "doc": B(randDoc(r, false))})
		// paragraphs with values drawn from line sequences
		np := 1 + r.Intn(3)
		ps := []interface{}{}
		for p := 0; p < np; p++ {
			perm := r.Perm(len(fieldNames))
			nf := 1 + r.Intn(3)
			para := control.Paragraph{Order: []string{}, Values: map[string]string{}}
			for f := 0; f < nf; f++ {
				nl := 1 + r.Intn(5)
				ls := []string{}
				for k := 0; k < nl; k++ {
					ls = append(ls, lines[r.Intn(len(lines))])
				}
				if r.Intn(3) != 0 && ls[0] == "" && nl > 1 {
					ls[0] = "first"
				}
				v := strings.Join(ls, "\n")
				if r.Intn(2) == 0 {
					v += "\n"
				}
				para.Set(fieldNames[perm[f]], v)
			}
			ps = append(ps, paraToJ(para))
		}
		out.Put(J{"k": "write", "paras": ps})
	}
}

// faultySink stores what is written to it, except for its failAt-th Write call, which stores nothing and fails.
type faultySink struct {
	buf    bytes.Buffer
	calls  int
	failAt int
}

func (f *faultySink) Write(p []byte) (int, error) {
	f.calls++
	if f.calls == f.failAt {
		return 0, errors.New("injected write failure")
	}
	return f.buf.Write(p)
}

// encProbe: a required field (written even when empty) and an optional one (omitted when empty)
type encProbe struct {
	Name    string `required:"true"`
	Comment string
	Notes   string `multiline:"true"`
}

type encDup struct {
	A string `control:"Name" required:"true"`
	B string `control:"Name" required:"true"`
	S string `control:"Comment"`
}
