package main

import (
	"bytes"
	"fmt"
	"reflect"
	"strconv"
	"strings"
	"time"

	"pault.ag/go/debian/control"
	"pault.ag/go/debian/dependency"
	"pault.ag/go/debian/version"
)

func init() {
	props["C09"] = &prop{gen: func(int64, string, *Writer) {}, exec: execStruct}
}

// ---- probe struct types: every supported kind x tag combination -----------------

type P1 struct {
	S       string
	Renamed string `control:"X-Renamed"`
	Req     string `required:"true"`
	Skip    string `control:"-"`
	Multi   string `multiline:"true"`
}

type P2 struct {
	I    int
	U    uint
	B    bool
	ReqI int  `required:"true"`
	ReqB bool `control:"Req-B" required:"true"`
}

// P6: fields that are skipped (control:"-") may be of kinds the encoder cannot render at all
type P6 struct {
	A string
	M map[string]string `control:"-"`
	F float64           `control:"-"`
	T time.Time         `control:"-"`
	P *int              `control:"-"`
	I interface{}       `control:"-"`
	Z string
}

// P7: list tags in other combinations than the library's own documents use (a one-blank strip set with a comma
// delimiter, a multi-line blank-separated list without strip, the archive files' "\n\r\t " set), and a string whose
// values begin with white space
type P7 struct {
	CS []string `control:"C-S" delim:", " strip:" "`
	ML []string `multiline:"true"`
	CN []string `delim:"," strip:"\n\r\t "`
	S  string
}

type P3 struct {
	L    []string `delim:", "`
	LS   []string `control:"L-S" delim:"," strip:" \n"`
	Sp   []string
	ReqL []string `delim:"," required:"true"`
	IL   []int    `delim:" "`
}

type P4 struct {
	V  version.Version
	D  dependency.Dependency `control:"Depends"`
	A  dependency.Arch
	As []dependency.Arch        `control:"Architectures"`
	H  []control.SHA256FileHash `control:"Checksums-Sha256" delim:"\n" strip:"\n\r\t "`
	RV version.Version          `control:"Req-V" required:"true"`
}

type P5 struct {
	control.Paragraph
	Name  string
	Count int
	Tags  []string `delim:", "`
}

func newProbe(t string) interface{} {
	switch t {
	case "P1":
		return &P1{}
	case "P2":
		return &P2{}
	case "P3":
		return &P3{}
	case "P4":
		return &P4{}
	case "P5":
		return &P5{}
	case "P6":
		return &P6{}
	case "P7":
		return &P7{}
	}
	die("unknown probe type %s", t)
	return nil
}

// descriptors reflected from the probe types (TLC checks them against the table in the specification)
func describe(t string) []interface{} {
	rt := reflect.TypeOf(newProbe(t)).Elem()
	out := []interface{}{}
	for i := 0; i < rt.NumField(); i++ {
		f := rt.Field(i)
		if f.Anonymous {
			out = append(out, J{"name": f.Name, "key": "", "kind": "raw", "elem": "", "delim": B(""), "strip": B(""), "required": false, "multiline": false})
			continue
		}
		key := f.Name
		if k := f.Tag.Get("control"); k != "" {
			key = k
		}
		kind, elem := kindOf(f.Type), ""
		if f.Type.Kind() == reflect.Slice {
			kind, elem = "list", kindOf(f.Type.Elem())
		}
		delim := " "
		if d := f.Tag.Get("delim"); d != "" {
			delim = d
		}
		out = append(out, J{"name": f.Name, "key": key, "kind": kind, "elem": elem, "delim": B(delim), "strip": B(f.Tag.Get("strip")),
			"required": f.Tag.Get("required") == "true", "multiline": f.Tag.Get("multiline") == "true"})
	}
	return out
}

func kindOf(t reflect.Type) string {
	switch t.Kind() {
	case reflect.String:
		return "string"
	case reflect.Int:
		return "int"
	case reflect.Uint:
		return "uint"
	case reflect.Bool:
		return "bool"
	case reflect.Struct:
		switch t.Name() {
		case "Version":
			return "version"
		case "Dependency":
			return "dependency"
		case "Arch":
			return "arch"
		case "SHA256FileHash":
			return "sha256"
		}
	}
	return "other:" + t.String()
}

// setField / getField move values between the JSON form (texts for custom kinds) and the Go struct
func setScalar(fv reflect.Value, kind string, x interface{}) {
	switch kind {
	case "string":
		fv.SetString(S(x))
	case "int":
		fv.SetInt(int64(I(x)))
	case "uint":
		fv.SetUint(uint64(I(x)))
	case "bool":
		fv.SetBool(x.(bool))
	case "version":
		if S(x) != "" {
			v, err := version.Parse(S(x))
			if err != nil {
				die("probe value: bad version %q", S(x))
			}
			fv.Set(reflect.ValueOf(v))
		}
	case "dependency":
		d, err := dependency.Parse(S(x))
		if err != nil {
			die("probe value: bad dependency %q", S(x))
		}
		fv.Set(reflect.ValueOf(*d))
	case "arch":
		if S(x) != "" {
			a, err := dependency.ParseArch(S(x))
			if err != nil {
				die("probe value: bad arch")
			}
			fv.Set(reflect.ValueOf(*a))
		}
	case "sha256":
		h := control.SHA256FileHash{}
		if err := h.UnmarshalControl(S(x)); err != nil {
			die("probe value: bad hash line %q", S(x))
		}
		fv.Set(reflect.ValueOf(h))
	default:
		die("setScalar: kind %s", kind)
	}
}

func getScalar(fv reflect.Value, kind string) interface{} {
	switch kind {
	case "string":
		return B(fv.String())
	case "int":
		return int(fv.Int())
	case "uint":
		return int(fv.Uint())
	case "bool":
		return fv.Bool()
	case "version":
		v := fv.Interface().(version.Version)
		if v.Empty() {
			return B("")
		}
		return B(v.String())
	case "dependency":
		d := fv.Interface().(dependency.Dependency)
		return B(d.String())
	case "arch":
		a := fv.Interface().(dependency.Arch)
		if a == (dependency.Arch{}) {
			return B("")
		}
		return B(a.String())
	case "sha256":
		h := fv.Interface().(control.SHA256FileHash)
		s, _ := h.MarshalControl()
		return B(s)
	}
	die("getScalar: kind %s", kind)
	return nil
}

func fill(probe interface{}, t string, val J) {
	rv := reflect.ValueOf(probe).Elem()
	for _, dj := range describe(t) {
		d := dj.(J)
		if d["kind"] == "raw" {
			continue
		}
		x, ok := val[d["name"].(string)]
		if !ok || strings.HasPrefix(d["kind"].(string), "other:") {
			continue
		}
		fv := rv.FieldByName(d["name"].(string))
		if d["kind"] == "list" {
			sl := reflect.MakeSlice(fv.Type(), 0, 0)
			for _, e := range L(x) {
				ev := reflect.New(fv.Type().Elem()).Elem()
				setScalar(ev, d["elem"].(string), e)
				sl = reflect.Append(sl, ev)
			}
			fv.Set(sl)
		} else {
			setScalar(fv, d["kind"].(string), x)
		}
	}
}

func dump(probe interface{}, t string) J {
	rv := reflect.ValueOf(probe).Elem()
	out := J{}
	for _, dj := range describe(t) {
		d := dj.(J)
		if d["kind"] == "raw" {
			continue
		}
		if strings.HasPrefix(d["kind"].(string), "other:") {
			out[d["name"].(string)] = B("") // kinds outside the encoder's repertoire: only ever skipped
			continue
		}
		fv := rv.FieldByName(d["name"].(string))
		if d["kind"] == "list" {
			l := []interface{}{}
			for i := 0; i < fv.Len(); i++ {
				l = append(l, getScalar(fv.Index(i), d["elem"].(string)))
			}
			out[d["name"].(string)] = l
		} else {
			out[d["name"].(string)] = getScalar(fv, d["kind"].(string))
		}
	}
	return out
}

func execStruct(vec J, out *Writer) {
	switch vec["k"].(string) {
	case "desc":
		t := vec["type"].(string)
		out.Put(J{"ev": "desc", "in": vec, "fields": describe(t)})
	case "rt":
		// value -> Marshal -> bytes -> Unmarshal -> value
		t := vec["type"].(string)
		p := newProbe(t)
		fill(p, t, M(vec["value"]))
		if p6, ok := p.(*P6); ok {
			p6.M, p6.F, p6.T, p6.I = map[string]string{"k": "v"}, 1.5, time.Unix(1, 0), 3.25
			if p6.A != "" {
				n := 7
				p6.P = &n
			} // else: a nil pointer
		}
		rec := J{"ev": "rt", "in": vec, "panic": false, "marshal_ok": false, "unmarshal_ok": false,
			"bytes": B(""), "para": paraToJ(control.Paragraph{}), "decoded": J{}}
		func() {
			defer func() {
				if r := recover(); r != nil {
					rec["panic"] = true
					rec["panic_msg"] = B(fmt.Sprint(r))
				}
			}()
			para, perr := control.ConvertToParagraph(p)
			if perr == nil && para != nil {
				rec["para"] = paraToJ(*para)
			}
			var buf bytes.Buffer
			err := control.Marshal(&buf, p)
			rec["marshal_ok"] = err == nil && perr == nil
			rec["bytes"] = BB(buf.Bytes())
			if err != nil {
				return
			}
			q := newProbe(t)
			uerr := control.Unmarshal(q, bytes.NewReader(buf.Bytes()))
			rec["unmarshal_ok"] = uerr == nil
			if uerr != nil {
				rec["unmarshal_err"] = B(uerr.Error())
			}
			rec["decoded"] = dump(q, t)
			// the same text decoded once more into the struct that already holds the value (a Decoder loop
			// decoding every paragraph into one variable does this): the value must not accumulate
			u2 := control.Unmarshal(q, bytes.NewReader(buf.Bytes()))
			rec["redecode_ok"] = u2 == nil
			rec["redecoded"] = dump(q, t)
		}()
		if _, ok := rec["redecoded"]; !ok {
			rec["redecode_ok"] = false
			rec["redecoded"] = J{}
		}
		out.Put(rec)
	case "rt_slice":
		// several values through the Encoder into ONE document, decoded into a slice of the struct type: every
		// element starts from the zero value, whatever the paragraphs before it carried
		t := vec["type"].(string)
		rec := J{"ev": "rt_slice", "in": vec, "panic": false, "ok": false, "decoded": []interface{}{}}
		func() {
			defer func() {
				if r := recover(); r != nil {
					rec["panic"] = true
				}
			}()
			var buf bytes.Buffer
			enc, err := control.NewEncoder(&buf)
			if err != nil {
				return
			}
			for _, vj := range L(vec["values"]) {
				p := newProbe(t)
				fill(p, t, M(vj))
				if enc.Encode(p) != nil {
					return
				}
			}
			elem := reflect.TypeOf(newProbe(t)).Elem()
			into := reflect.New(reflect.SliceOf(elem))
			if control.Unmarshal(into.Interface(), bytes.NewReader(buf.Bytes())) != nil {
				return
			}
			rec["ok"] = true
			out := []interface{}{}
			for i := 0; i < into.Elem().Len(); i++ {
				out = append(out, dump(into.Elem().Index(i).Addr().Interface(), t))
			}
			rec["decoded"] = out
		}()
		out.Put(rec)
	case "rt2":
		// one receiver, two documents: marshal(first) then marshal(second) decoded into the SAME struct (the usual
		// `for { dec.Decode(&x) }` loop).  Every field the second text carries must hold the second value.
		t := vec["type"].(string)
		rec := J{"ev": "rt2", "in": vec, "panic": false, "ok": false, "decoded": J{}}
		func() {
			defer func() {
				if r := recover(); r != nil {
					rec["panic"] = true
				}
			}()
			var texts [2]bytes.Buffer
			for i, key := range []string{"first", "second"} {
				p := newProbe(t)
				fill(p, t, M(vec[key]))
				if err := control.Marshal(&texts[i], p); err != nil {
					return
				}
			}
			q := newProbe(t)
			if err := control.Unmarshal(q, bytes.NewReader(texts[0].Bytes())); err != nil {
				return
			}
			if err := control.Unmarshal(q, bytes.NewReader(texts[1].Bytes())); err != nil {
				return
			}
			rec["ok"] = true
			rec["decoded"] = dump(q, t)
		}()
		out.Put(rec)
	case "passthru":
		// document with unknown fields -> P5 -> change the known fields -> Marshal
		doc := S(vec["doc"])
		rec := J{"ev": "passthru", "in": vec, "panic": false, "unmarshal_ok": false, "marshal_ok": false, "bytes": B(""),
			"para": paraToJ(control.Paragraph{}), "para_kept": paraToJ(control.Paragraph{}), "first": J{}}
		func() {
			defer func() {
				if r := recover(); r != nil {
					rec["panic"] = true
				}
			}()
			p := &P5{}
			if err := control.Unmarshal(p, strings.NewReader(doc)); err != nil {
				return
			}
			rec["unmarshal_ok"] = true
			rec["first"] = dump(p, "P5")
			fill(p, "P5", M(vec["set"]))
			para, perr := control.ConvertToParagraph(p)
			if perr == nil && para != nil {
				rec["para"] = paraToJ(*para)
				// the same struct converted again with OTHER known fields set: the paragraph obtained first is a value of
				// its own and lists what it listed
				q := *p
				q.Name, q.Tags = "", []string{"q"}
				control.ConvertToParagraph(&q)
				q.Name, q.Tags = "other", nil
				control.ConvertToParagraph(&q)
				rec["para_kept"] = paraToJ(*para)
			}
			var buf bytes.Buffer
			err := control.Marshal(&buf, p)
			rec["marshal_ok"] = err == nil
			rec["bytes"] = BB(buf.Bytes())
		}()
		out.Put(rec)
	case "missing":
		// a required field absent on input must be an error
		t := vec["type"].(string)
		q := newProbe(t)
		err := control.Unmarshal(q, strings.NewReader(S(vec["doc"])))
		out.Put(J{"ev": "missing", "in": vec, "ok": err == nil})
	default:
		die("structs: unknown vector kind %v", vec["k"])
	}
	_ = strconv.Itoa
}
