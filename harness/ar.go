package main

import (
	"bytes"
	"crypto/sha256"
	"fmt"
	"io"
	"math/rand"
	"strconv"
	"strings"

	"pault.ag/go/debian/deb"
)

func init() {
	props["C13"] = &prop{gen: genC13, exec: execAr}
	props["C15"] = &prop{gen: genC15, exec: execAr}
}

// numJ logs an int64 as sign + digit string (TLC integers are 32 bit).
func numJ(n int64) J {
	if n < 0 {
		return J{"neg": true, "d": B(strings.TrimPrefix(strconv.FormatInt(n, 10), "-"))}
	}
	return J{"neg": false, "d": B(strconv.FormatInt(n, 10))}
}

type arStep struct {
	rec  J
	data []byte
	ent  *deb.ArEntry
}

// iterate runs LoadAr + Next to the end under a step budget and a panic guard.
func iterateAr(b []byte, withData bool) (steps []interface{}, entries []*deb.ArEntry, panicked string) {
	return iterateArVia(b, withData, "bytes")
}

// arInput: the archive as the io.ReaderAt handed to LoadAr.  "section-*": a SectionReader over a larger buffer
// in which the archive is preceded and followed by other bytes (an ar nested in a file; a member of another ar).
func arInput(b []byte, via string) io.ReaderAt {
	switch via {
	case "section-junk", "section-member":
		prefix := bytes.Repeat([]byte("J"), 37)
		suffix := []byte("trailing bytes that are not an ar member header, sixty or more of them......")
		if via == "section-member" {
			suffix = []byte(fmt.Sprintf("%-16s%-12d%-6d%-6d%-8s%-10d`\nDATA", "after", 1, 0, 0, "100644", 4))
			if len(b)%2 == 1 {
				suffix = append([]byte("\n"), suffix...)
			}
		}
		big := append(append(append([]byte{}, prefix...), b...), suffix...)
		return io.NewSectionReader(bytes.NewReader(big), int64(len(prefix)), int64(len(b)))
	}
	if via == "consumed" || via == "half-consumed" {
		// a reader that has been Read from already (hashed, sniffed): ReadAt does not care where Read left off
		r := bytes.NewReader(b)
		n := int64(len(b))
		if via == "half-consumed" {
			n = n / 2
		}
		io.CopyN(io.Discard, r, n)
		return r
	}
	return bytes.NewReader(b)
}

func iterateArVia(b []byte, withData bool, via string) (steps []interface{}, entries []*deb.ArEntry, panicked string) {
	steps = []interface{}{}
	defer func() {
		if r := recover(); r != nil {
			panicked = fmt.Sprint(r)
		}
	}()
	ar, err := deb.LoadAr(arInput(b, via))
	if err != nil {
		steps = append(steps, J{"ret": "err", "at": "open"})
		return
	}
	budget := len(b)/60 + 3
	for i := 0; ; i++ {
		if i >= budget {
			steps = append(steps, J{"ret": "budget-exceeded"})
			return
		}
		ent, err := ar.Next()
		if err == io.EOF {
			steps = append(steps, J{"ret": "eof"})
			return
		}
		if err != nil {
			steps = append(steps, J{"ret": "err", "at": "next"})
			return
		}
		_, off, _ := ent.Data.Outer()
		st := J{"ret": "member", "hdr_off": int(off - 60), "name": B(ent.Name), "mtime": numJ(ent.Timestamp),
			"uid": numJ(ent.OwnerID), "gid": numJ(ent.GroupID), "mode": B(ent.FileMode), "size": numJ(ent.Size)}
		data, rerr := io.ReadAll(io.LimitReader(ent.Data, int64(len(b))+1))
		st["delivered"] = len(data)
		st["read_err"] = rerr != nil
		if withData {
			st["data"] = BB(data)
			_, serr := ent.Data.Seek(0, io.SeekStart)
			again, _ := io.ReadAll(io.LimitReader(ent.Data, int64(len(b))+1))
			st["again"] = BB(again)
			st["seek_err"] = serr != nil
		}
		steps = append(steps, st)
		entries = append(entries, ent)
	}
}

func execAr(vec J, out *Writer) {
	switch vec["k"].(string) {
	case "ar":
		// well-formed archive rendered by the TLA+ specification
		b := []byte(S(vec["bytes"]))
		via, _ := vec["via"].(string)
		steps, entries, p := iterateArVia(b, true, via)
		// readers of earlier members stay valid after the iterator has advanced
		late := []interface{}{}
		func() {
			defer func() {
				if r := recover(); r != nil {
					p = fmt.Sprint(r)
				}
			}()
			for _, e := range entries {
				e.Data.Seek(0, io.SeekStart)
				d, _ := io.ReadAll(e.Data)
				late = append(late, BB(d))
			}
		}()
		lateMeta := []interface{}{}
		for _, e := range entries {
			lateMeta = append(lateMeta, J{"name": B(e.Name), "mode": B(e.FileMode), "size": numJ(e.Size), "mtime": numJ(e.Timestamp)})
		}
		out.Put(J{"ev": "ar", "in": vec, "steps": steps, "late": late, "late_meta": lateMeta, "panic": p != ""})
	case "arraw":
		b := []byte(S(vec["bytes"]))
		s1, _, p1 := iterateAr(b, false)
		s2, _, p2 := iterateAr(b, false)
		out.Put(J{"ev": "arraw", "in": vec, "steps": s1, "steps2": s2, "panic": p1 != "" || p2 != ""})
	case "arbig":
		// large members with pseudo-random binary data, rendered by the harness; contents are
		// compared by digest (a fact TLA+ cannot compute), everything else is judged by TLC
		var buf bytes.Buffer
		buf.WriteString("!<arch>\n")
		type mem struct {
			data []byte
		}
		mems := []mem{}
		r := rand.New(rand.NewSource(int64(I(vec["seed"]))))
		for _, mj := range L(vec["members"]) {
			m := M(mj)
			data := make([]byte, I(m["size"]))
			r.Read(data)
			name := S(m["name"])
			if vec["gnu"].(bool) {
				name += "/"
			}
			fmt.Fprintf(&buf, "%-16s%-12s%-6s%-6s%-8s%-10d`\n", name, S(m["mtime"]), S(m["uid"]), S(m["gid"]), S(m["mode"]), len(data))
			buf.Write(data)
			if len(data)%2 == 1 {
				buf.WriteByte('\n')
			}
			mems = append(mems, mem{data})
		}
		steps, entries, p := iterateAr(buf.Bytes(), false)
		for i, e := range entries {
			st := steps[i].(J)
			e.Data.Seek(0, io.SeekStart)
			h := sha256.New()
			n, _ := io.Copy(h, e.Data)
			ok := false
			if i < len(mems) {
				want := sha256.Sum256(mems[i].data)
				ok = bytes.Equal(h.Sum(nil), want[:]) && int(n) == len(mems[i].data)
			}
			st["data_ok"] = ok
		}
		out.Put(J{"ev": "arbig", "in": vec, "steps": steps, "total": buf.Len(), "panic": p != ""})
	case "arsparse":
		// a member of 4 GiB and more, served by a sparse io.ReaderAt (all its bytes are 'Z'; nothing that large is allocated),
		// followed by a 3-byte member
		sizeText := S(vec["size"])
		size, err := strconv.ParseInt(sizeText, 10, 64)
		if err != nil {
			die("arsparse: %v", err)
		}
		hdr := func(name, sz string) string {
			return fmt.Sprintf("%-16s%-12s%-6s%-6s%-8s%-10s`\n", name, "1433153120", "0", "0", "100644", sz)
		}
		tail := ""
		if size%2 == 1 {
			tail = "\n"
		}
		tail += hdr("tail", "3") + "xyz\n"
		ra := &sparseAt{head: []byte("!<arch>\n" + hdr("big", sizeText)), hole: size, tail: []byte(tail)}
		rec := J{"ev": "arsparse", "in": vec, "panic": false, "end": "none", "members": []interface{}{}}
		func() {
			defer func() {
				if r := recover(); r != nil {
					rec["panic"] = true
				}
			}()
			ar, err := deb.LoadAr(ra)
			if err != nil {
				rec["end"] = "err"
				return
			}
			members := []interface{}{}
			for i := 0; i < 5; i++ {
				e, err := ar.Next()
				if err == io.EOF {
					rec["end"] = "eof"
					break
				}
				if err != nil {
					rec["end"] = "err"
					break
				}
				first, last := make([]byte, 4), make([]byte, 4)
				n1, _ := e.Data.ReadAt(first, 0)
				n2 := 0
				if e.Size >= 4 {
					n2, _ = e.Data.ReadAt(last, e.Size-4)
				}
				members = append(members, J{"name": B(e.Name), "size": B(strconv.FormatInt(e.Size, 10)), "first": BB(first[:n1]), "last": BB(last[:n2])})
			}
			rec["members"] = members
		}()
		out.Put(rec)
	default:
		execDeb(vec, out)
	}
}

func genC13(seed int64, tier string, out *Writer) {
	r := rand.New(rand.NewSource(seed))
	n := 150
	if tier == "thorough" {
		n = 3000
	}
	names := []string{"debian-binary", "control.tar.gz", "data.tar.xz", "a", "sixteen-bytes-ab", "fifteen-bytes-a", "with space", "_gpgorigin", "x.y"}
	for i := 0; i < n; i++ {
		gnu := r.Intn(2) == 0
		ms := []interface{}{}
		for k := r.Intn(5); k > 0; k-- {
			name := names[r.Intn(len(names))]
			if gnu && len(name) > 15 {
				name = name[:15]
			}
			size := []int{0, 1, 2, 59, 60, 61, 255, 4096, 65535, 65536, 1 + r.Intn(70000)}[r.Intn(11)]
			ms = append(ms, J{"name": B(name), "size": size, "mtime": B(strconv.Itoa(r.Intn(2000000000))),
				"uid": B(strconv.Itoa(r.Intn(100000))), "gid": B(strconv.Itoa(r.Intn(100000))), "mode": B("100644")})
		}
		out.Put(J{"k": "arbig", "members": ms, "gnu": gnu, "seed": r.Intn(1 << 30)})
	}
}

func genC15(seed int64, tier string, out *Writer) {
	r := rand.New(rand.NewSource(seed))
	n := 3000
	if tier == "thorough" {
		n = 60000
	}
	// random structured damage on top of what TLC enumerates: several columns at once,
	// random bytes, random splices of header-sized blocks
	base := func() []byte {
		var buf bytes.Buffer
		buf.WriteString("!<arch>\n")
		for k := r.Intn(4); k > 0; k-- {
			size := r.Intn(7)
			fmt.Fprintf(&buf, "%-16s%-12d%-6d%-6d%-8s%-10d`\n", []string{"debian-binary", "a", "control.tar"}[r.Intn(3)], r.Intn(99999), 0, 0, "100644", size)
			for j := 0; j < size; j++ {
				buf.WriteByte(byte('A' + j))
			}
			if size%2 == 1 {
				buf.WriteByte('\n')
			}
		}
		return buf.Bytes()
	}
	texts := []string{"-1", "-60", "-61", "-62", "-120", "9999999999", "", "x", "+1", "0x10", "1e3", " 7", "-0", "60", "61", "-9223372036854775808", "99999999999999999999"}
	for i := 0; i < n; i++ {
		b := base()
		for k := 1 + r.Intn(3); k > 0 && len(b) > 8; k-- {
			switch r.Intn(5) {
			case 0: // overwrite a numeric column somewhere
				off := 8 + r.Intn(len(b)-8)
				t := texts[r.Intn(len(texts))]
				for j := 0; j < len(t) && off+j < len(b); j++ {
					b[off+j] = t[j]
				}
			case 1:
				b[r.Intn(len(b))] = byte(r.Intn(256))
			case 2:
				b = b[:r.Intn(len(b)+1)]
			case 3: // duplicate a block
				if len(b) > 70 {
					o := 8 + r.Intn(len(b)-68)
					b = append(b[:o+60:o+60], b[o:]...)
				}
			case 4: // set the size column of the first header
				if len(b) >= 68 {
					copy(b[8+48:8+58], fmt.Sprintf("%-10s", texts[r.Intn(len(texts))]))
				}
			}
		}
		out.Put(J{"k": "arraw", "bytes": BB(b)})
	}
	genDebRaw(r, tier, out)
}

// sparseAt: head bytes, then `hole` bytes that are all 'Z', then tail bytes
type sparseAt struct {
	head, tail []byte
	hole       int64
}

func (s *sparseAt) ReadAt(p []byte, off int64) (int, error) {
	total := int64(len(s.head)) + s.hole + int64(len(s.tail))
	n := 0
	for n < len(p) {
		o := off + int64(n)
		switch {
		case o < 0 || o >= total:
			return n, io.EOF
		case o < int64(len(s.head)):
			n += copy(p[n:], s.head[o:])
		case o < int64(len(s.head))+s.hole:
			k := int64(len(s.head)) + s.hole - o
			if k > int64(len(p)-n) {
				k = int64(len(p) - n)
			}
			for i := int64(0); i < k; i++ {
				p[n+int(i)] = 'Z'
			}
			n += int(k)
		default:
			n += copy(p[n:], s.tail[o-int64(len(s.head))-s.hole:])
		}
	}
	return n, nil
}
