package main

import (
	"bytes"
	"os"
	"path/filepath"
	"strconv"
	"strings"

	"pault.ag/go/debian/control"
	"pault.ag/go/debian/dependency"
	"pault.ag/go/debian/version"
)

func init() {
	props["C10"] = &prop{gen: func(int64, string, *Writer) {}, exec: execDocs}
}

// ---- flattening of the typed structs: Go field -> flat key of the specification's field table ----

func strs(l []string) []interface{} {
	out := []interface{}{}
	for _, s := range l {
		out = append(out, B(s))
	}
	return out
}

func archNames(l []dependency.Arch) []interface{} {
	out := []interface{}{}
	for _, a := range l {
		out = append(out, B(a.String()))
	}
	return out
}

func verText(v version.Version) []int {
	if v.Empty() {
		return B("")
	}
	return B(v.String())
}

func depText(d dependency.Dependency) []int { return B(d.String()) }

func hashJ(h control.FileHash) []interface{} {
	return []interface{}{h.Algorithm, B(h.Hash), B(strconv.FormatInt(h.Size, 10)), B(h.Filename)}
}

func flatDSC(d *control.DSC) (J, J) {
	s1, s256, files := []interface{}{}, []interface{}{}, []interface{}{}
	for _, h := range d.ChecksumsSha1 {
		s1 = append(s1, hashJ(h.FileHash))
	}
	for _, h := range d.ChecksumsSha256 {
		s256 = append(s256, hashJ(h.FileHash))
	}
	for _, h := range d.Files {
		files = append(files, hashJ(h.FileHash))
	}
	abs := []interface{}{}
	for _, h := range d.AbsFiles() {
		abs = append(abs, B(h.Filename))
	}
	ds, derr := d.DebianSource()
	return J{"Format": B(d.Format), "Source": B(d.Source), "Binaries": strs(d.Binaries), "Architectures": archNames(d.Architectures),
			"Version": verText(d.Version), "Origin": B(d.Origin), "Maintainer": B(d.Maintainer), "Uploaders": strs(d.Uploaders),
			"Homepage": B(d.Homepage), "StandardsVersion": B(d.StandardsVersion), "BuildDepends": depText(d.BuildDepends),
			"BuildDependsArch": depText(d.BuildDependsArch), "BuildDependsIndep": depText(d.BuildDependsIndep),
			"ChecksumsSha1": s1, "ChecksumsSha256": s256, "Files": files},
		J{"Maintainers": strs(d.Maintainers()), "HasArchAll": d.HasArchAll(), "AbsFiles": abs,
			"DebianSource": J{"ok": derr == nil, "v": B(ds)}}
}

func flatChanges(c *control.Changes) (J, J) {
	s1, s256, files := []interface{}{}, []interface{}{}, []interface{}{}
	for _, h := range c.ChecksumsSha1 {
		s1 = append(s1, hashJ(h.FileHash))
	}
	for _, h := range c.ChecksumsSha256 {
		s256 = append(s256, hashJ(h.FileHash))
	}
	for _, h := range c.Files {
		files = append(files, append(hashJ(h.FileHash), B(h.Component), B(h.Priority)))
	}
	abs := []interface{}{}
	for _, h := range c.AbsFiles() {
		abs = append(abs, B(h.Filename))
	}
	return J{"Format": B(c.Format), "Source": B(c.Source), "Binaries": strs(c.Binaries), "Architectures": archNames(c.Architectures),
		"Version": verText(c.Version), "Origin": B(c.Origin), "Distribution": B(c.Distribution), "Urgency": B(c.Urgency),
		"Maintainer": B(c.Maintainer), "ChangedBy": B(c.ChangedBy), "Closes": strs(c.Closes), "Changes": B(c.Changes),
		"ChecksumsSha1": s1, "ChecksumsSha256": s256, "Files": files}, J{"AbsFiles": abs}
}

func flatSrcPara(s *control.SourceParagraph) (J, J) {
	return J{"Source": B(s.Source), "Maintainer": B(s.Maintainer), "Uploaders": strs(s.Uploaders), "Priority": B(s.Priority),
		"Section": B(s.Section), "Description": B(s.Description), "BuildDepends": depText(s.BuildDepends),
		"BuildDependsIndep": depText(s.BuildDependsIndep), "BuildConflicts": depText(s.BuildConflicts),
		"BuildConflictsIndep": depText(s.BuildConflictsIndep)}, J{"Maintainers": strs(s.Maintainers())}
}

func flatBinPara(b *control.BinaryParagraph) (J, J) {
	return J{"Package": B(b.Package), "Architectures": archNames(b.Architectures), "Priority": B(b.Priority), "Section": B(b.Section),
		"Essential": b.Essential, "Description": B(b.Description), "Depends": depText(b.Depends), "Recommends": depText(b.Recommends),
		"Suggests": depText(b.Suggests), "Enhances": depText(b.Enhances), "PreDepends": depText(b.PreDepends), "Breaks": depText(b.Breaks),
		"Conflicts": depText(b.Conflicts), "Replaces": depText(b.Replaces), "BuiltUsing": depText(b.BuiltUsing)}, J{}
}

func flatPackages(p *control.BinaryIndex) (J, J) {
	arch := B("")
	if p.Architecture != (dependency.Arch{}) {
		arch = B(p.Architecture.String())
	}
	return J{"Package": B(p.Package), "Source": B(p.Source), "Version": verText(p.Version), "InstalledSize": p.InstalledSize,
		"Maintainer": B(p.Maintainer), "Architecture": arch, "MultiArch": B(p.MultiArch), "Description": B(p.Description),
		"Homepage": B(p.Homepage), "DescriptionMD5": B(p.DescriptionMD5), "Tags": strs(p.Tags), "Section": B(p.Section),
		"Priority": B(p.Priority), "Filename": B(p.Filename), "Size": p.Size, "MD5sum": B(p.MD5sum), "SHA1": B(p.SHA1), "SHA256": B(p.SHA256),
		"DebugBuildIds": strs(p.DebugBuildIds),
		"acc:Depends":   depText(p.GetDepends()), "acc:PreDepends": depText(p.GetPreDepends()), "acc:Conflicts": depText(p.GetConflicts()),
		"acc:Breaks": depText(p.GetBreaks()), "acc:Replaces": depText(p.GetReplaces()), "acc:Suggests": depText(p.GetSuggests()),
		"acc:BuiltUsing": depText(p.GetBuiltUsing())}, J{"SourcePackage": B(p.SourcePackage())}
}

func flatSources(s *control.SourceIndex) (J, J) {
	s1, s256, files := []interface{}{}, []interface{}{}, []interface{}{}
	for _, h := range s.ChecksumsSha1 {
		s1 = append(s1, hashJ(h.FileHash))
	}
	for _, h := range s.ChecksumsSha256 {
		s256 = append(s256, hashJ(h.FileHash))
	}
	for _, h := range s.Files {
		files = append(files, hashJ(h.FileHash))
	}
	return J{"Package": B(s.Package), "Binaries": strs(s.Binaries), "Version": verText(s.Version), "Maintainer": B(s.Maintainer),
		"Uploaders": B(s.Uploaders), "Architecture": archNames(s.Architecture), "StandardsVersion": B(s.StandardsVersion), "Format": B(s.Format),
		"Files": files, "VcsBrowser": B(s.VcsBrowser), "VcsGit": B(s.VcsGit), "VcsSvn": B(s.VcsSvn), "VcsBzr": B(s.VcsBzr),
		"ChecksumsSha1": s1, "ChecksumsSha256": s256, "Homepage": B(s.Homepage), "Directory": B(s.Directory), "Priority": B(s.Priority),
		"Section": B(s.Section), "acc:BuildDepends": depText(s.GetBuildDepends()), "acc:BuildDependsArch": depText(s.GetBuildDependsArch()),
		"acc:BuildDependsIndep": depText(s.GetBuildDependsIndep())}, J{}
}

// bestDoc: a caller's own struct that embeds control.BestChecksums
type bestDoc struct {
	Package string
	control.BestChecksums
}

func flatBest(d *bestDoc) (J, J) {
	s256, s512, best := []interface{}{}, []interface{}{}, []interface{}{}
	for _, h := range d.ChecksumsSha256 {
		s256 = append(s256, hashJ(h.FileHash))
	}
	for _, h := range d.ChecksumsSha512 {
		s512 = append(s512, hashJ(h.FileHash))
	}
	for _, h := range d.Checksums() {
		best = append(best, hashJ(h))
	}
	return J{"Package": B(d.Package), "ChecksumsSha256": s256, "ChecksumsSha512": s512}, J{"Checksums": best}
}

// flattenTwice parses once and projects the SAME parsed value twice: accessors must not disturb the fields
// or each other (a second AbsFiles() call must answer like the first).
var lastRemarshal J

func flattenTwice(kind, text string) (flat, acc, flat2, acc2 J, ok bool) {
	defer func() {
		if r := recover(); r != nil {
			flat, acc, flat2, acc2, ok = J{}, J{}, J{}, J{}, false
		}
	}()
	var project func() (J, J)
	var typed interface{}
	switch kind {
	case "best":
		d := &bestDoc{}
		if err := control.Unmarshal(d, strings.NewReader(text)); err != nil {
			return J{}, J{}, J{}, J{}, false
		}
		project, typed = func() (J, J) { return flatBest(d) }, d
	case "dsc":
		d, err := control.ParseDsc(bufioReader(text), "/srv/pool/x.dsc")
		if err != nil {
			return J{}, J{}, J{}, J{}, false
		}
		project, typed = func() (J, J) { return flatDSC(d) }, d
	case "changes":
		c, err := control.ParseChanges(bufioReader(text), "/srv/pool/x.changes")
		if err != nil {
			return J{}, J{}, J{}, J{}, false
		}
		project, typed = func() (J, J) { return flatChanges(c) }, c
	case "srcpara", "binpara":
		doc := text
		if kind == "binpara" {
			doc = "Source: x\nMaintainer: m\n\n" + text
		}
		c, err := control.ParseControl(bufioReader(doc), "/srv/x/debian/control")
		if err != nil || (kind == "binpara" && len(c.Binaries) != 1) {
			return J{}, J{}, J{}, J{}, false
		}
		if kind == "srcpara" {
			project, typed = func() (J, J) { return flatSrcPara(&c.Source) }, &c.Source
		} else {
			project, typed = func() (J, J) { return flatBinPara(&c.Binaries[0]) }, &c.Binaries[0]
		}
	case "packages":
		l, err := control.ParseBinaryIndex(bufioReader(text))
		if err != nil || len(l) != 1 {
			return J{}, J{}, J{}, J{}, false
		}
		project, typed = func() (J, J) { return flatPackages(&l[0]) }, &l[0]
	case "sources":
		l, err := control.ParseSourceIndex(bufioReader(text))
		if err != nil || len(l) != 1 {
			return J{}, J{}, J{}, J{}, false
		}
		project, typed = func() (J, J) { return flatSources(&l[0]) }, &l[0]
	default:
		die("docs: unknown kind %s", kind)
	}
	flat, acc = project()
	flat2, acc2 = project()
	// the typed value marshalled, and that text parsed by the same parser: the same document again
	lastRemarshal = J{"ok": false, "flat": J{}, "marshal_ok": false}
	var buf bytes.Buffer
	if err := control.Marshal(&buf, typed); err == nil {
		f3, _, ok3 := flatten(kind, buf.String())
		lastRemarshal = J{"ok": ok3, "flat": f3, "marshal_ok": true}
	}
	if kind == "dsc" || kind == "changes" {
		v := absFilesViaFile(kind, text)
		acc["AbsFilesViaFile"], acc2["AbsFilesViaFile"] = v, v
	}
	return flat, acc, flat2, acc2, true
}

// flattenSecond: `first` and `text` are two stanzas of one document; the typed view of the second is projected.
func flattenSecond(kind, first, text string) (flat, acc, flat2, acc2 J, ok bool) {
	defer func() {
		if r := recover(); r != nil {
			flat, acc, flat2, acc2, ok = J{}, J{}, J{}, J{}, false
		}
	}()
	doc := first + "\n" + text
	var project func() (J, J)
	switch kind {
	case "binpara":
		c, err := control.ParseControl(bufioReader("Source: x\nMaintainer: m\n\n"+doc), "/srv/x/debian/control")
		if err != nil || len(c.Binaries) != 2 {
			return J{}, J{}, J{}, J{}, false
		}
		project = func() (J, J) { return flatBinPara(&c.Binaries[1]) }
	case "packages":
		l, err := control.ParseBinaryIndex(bufioReader(doc))
		if err != nil || len(l) != 2 {
			return J{}, J{}, J{}, J{}, false
		}
		project = func() (J, J) { return flatPackages(&l[1]) }
	case "sources":
		l, err := control.ParseSourceIndex(bufioReader(doc))
		if err != nil || len(l) != 2 {
			return J{}, J{}, J{}, J{}, false
		}
		project = func() (J, J) { return flatSources(&l[1]) }
	default:
		die("docs: no multi-stanza form for kind %s", kind)
	}
	flat, acc = project()
	flat2, acc2 = project()
	return flat, acc, flat2, acc2, true
}

// absFilesViaFile: the same document parsed by the *File function through a RELATIVE path (the process stands in the
// parent directory): AbsFiles must still name absolute paths.  The temporary directory is written as /srv/pool in the
// result, so that it compares with the reader variant's paths.
func absFilesViaFile(kind, text string) []interface{} {
	out := []interface{}{}
	dir, err := os.MkdirTemp("", "verif-absfiles-")
	if err != nil {
		return out
	}
	defer os.RemoveAll(dir)
	dir, _ = filepath.EvalSymlinks(dir)
	os.Mkdir(filepath.Join(dir, "incoming"), 0755)
	name := map[string]string{"dsc": "x.dsc", "changes": "x.changes"}[kind]
	os.WriteFile(filepath.Join(dir, "incoming", name), []byte(text), 0644)
	cwd, _ := os.Getwd()
	defer os.Chdir(cwd)
	os.Chdir(dir)
	paths := []string{}
	if kind == "dsc" {
		d, err := control.ParseDscFile(filepath.Join("incoming", name))
		if err != nil {
			return out
		}
		for _, f := range d.AbsFiles() {
			paths = append(paths, f.Filename)
		}
	} else {
		c, err := control.ParseChangesFile(filepath.Join("incoming", name))
		if err != nil {
			return out
		}
		for _, f := range c.AbsFiles() {
			paths = append(paths, f.Filename)
		}
	}
	for _, pth := range paths {
		out = append(out, B(strings.Replace(pth, filepath.Join(dir, "incoming")+"/", "/srv/pool/", 1)))
	}
	return out
}

func flatten(kind, text string) (flat J, acc J, ok bool) {
	defer func() {
		if r := recover(); r != nil {
			flat, acc, ok = J{}, J{}, false
		}
	}()
	switch kind {
	case "best":
		d := &bestDoc{}
		if err := control.Unmarshal(d, strings.NewReader(text)); err != nil {
			return J{}, J{}, false
		}
		f, a := flatBest(d)
		return f, a, true
	case "dsc":
		d, err := control.ParseDsc(bufioReader(text), "/srv/pool/x.dsc")
		if err != nil {
			return J{}, J{}, false
		}
		f, a := flatDSC(d)
		return f, a, true
	case "changes":
		c, err := control.ParseChanges(bufioReader(text), "/srv/pool/x.changes")
		if err != nil {
			return J{}, J{}, false
		}
		f, a := flatChanges(c)
		return f, a, true
	case "srcpara", "binpara":
		// a debian/control file: the paragraph under test as source paragraph, or as the binary paragraph after a minimal source one
		doc := text
		if kind == "binpara" {
			doc = "Source: x\nMaintainer: m\n\n" + text
		}
		c, err := control.ParseControl(bufioReader(doc), "/srv/x/debian/control")
		if err != nil {
			return J{}, J{}, false
		}
		if kind == "srcpara" {
			f, a := flatSrcPara(&c.Source)
			return f, a, true
		}
		if len(c.Binaries) != 1 {
			return J{}, J{}, false
		}
		f, a := flatBinPara(&c.Binaries[0])
		return f, a, true
	case "packages":
		l, err := control.ParseBinaryIndex(bufioReader(text))
		if err != nil || len(l) != 1 {
			return J{}, J{}, false
		}
		f, a := flatPackages(&l[0])
		return f, a, true
	case "sources":
		l, err := control.ParseSourceIndex(bufioReader(text))
		if err != nil || len(l) != 1 {
			return J{}, J{}, false
		}
		f, a := flatSources(&l[0])
		return f, a, true
	}
	die("docs: unknown kind %s", kind)
	return
}

var sampleDoc = map[string]string{"best": "Package: x\n", "dsc": "Source: x\n", "changes": "Source: x\n", "srcpara": "Source: x\n", "binpara": "Package: x\n",
	"packages": "Package: x\n", "sources": "Package: x\n"}

func execDocs(vec J, out *Writer) {
	switch vec["k"].(string) {
	case "keys":
		kind := vec["kind"].(string)
		flat, _, _ := flatten(kind, sampleDoc[kind])
		keys := []interface{}{}
		for k := range flat {
			keys = append(keys, k)
		}
		out.Put(J{"ev": "keys", "in": vec, "keys": keys})
	case "doc":
		if pre, ok := vec["prefix"]; ok {
			// the stanza under test is the SECOND of its document
			flat, acc, flat2, acc2, ok := flattenSecond(vec["kind"].(string), S(pre), S(vec["bytes"]))
			out.Put(J{"ev": "doc", "in": vec, "parsed": ok, "flat": flat, "acc": acc, "flat2": flat2, "acc2": acc2})
			return
		}
		lastRemarshal = J{"ok": false, "flat": J{}, "marshal_ok": false}
		flat, acc, flat2, acc2, ok := flattenTwice(vec["kind"].(string), S(vec["bytes"]))
		out.Put(J{"ev": "doc", "in": vec, "parsed": ok, "flat": flat, "acc": acc, "flat2": flat2, "acc2": acc2, "remarshal": lastRemarshal})
	default:
		die("docs: unknown vector kind %v", vec["k"])
	}
}
