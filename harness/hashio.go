package main

import (
	"bytes"
	"crypto/md5"
	"crypto/sha1"
	"crypto/sha256"
	"crypto/sha512"
	"encoding/hex"
	"encoding/json"
	"errors"
	"fmt"
	"io"
	"math/rand"
	"os"
	"os/exec"
	"strings"
	"testing/iotest"

	"pault.ag/go/debian/control"
	"pault.ag/go/debian/hashio"
)

func init() {
	props["C12"] = &prop{gen: genC12, exec: execHashio}
	subcommands["verifier-child"] = verifierChild
}

var algNames = []string{"md5", "sha1", "sha256", "sha512"}

// trueDigest is ground truth: Go's crypto packages.
func trueDigest(alg string, b []byte) []byte {
	switch alg {
	case "md5":
		s := md5.Sum(b)
		return s[:]
	case "sha1":
		s := sha1.Sum(b)
		return s[:]
	case "sha256":
		s := sha256.Sum256(b)
		return s[:]
	case "sha512":
		s := sha512.Sum512(b)
		return s[:]
	}
	return nil
}

// sumIs names the algorithm whose true digest of content equals sum ("none" otherwise).
func sumIs(sum, content []byte) string {
	for _, a := range algNames {
		if bytes.Equal(sum, trueDigest(a, content)) {
			return a
		}
	}
	return "none"
}

func streamBytes(n int, seed int) []byte {
	b := make([]byte, n)
	for i := range b {
		b[i] = byte((i*7 + 3 + seed) % 251)
	}
	return b
}

// sourceReader: the io.Reader contract allows data and io.EOF in the same call (archive/tar members do that),
// and readers that deliver one byte at a time
func sourceReader(vec J, stream []byte) io.Reader {
	src, _ := vec["src"].(string)
	switch src {
	case "dataerr":
		return iotest.DataErrReader(bytes.NewReader(stream))
	case "onebyte":
		return iotest.OneByteReader(bytes.NewReader(stream))
	case "half":
		return iotest.HalfReader(bytes.NewReader(stream))
	case "transient":
		// the second Read delivers its bytes TOGETHER with a transient error; the reads after it go on as usual
		return &transientReader{r: bytes.NewReader(stream)}
	}
	return bytes.NewReader(stream)
}

type transientReader struct {
	r     io.Reader
	calls int
}

func (t *transientReader) Read(p []byte) (int, error) {
	t.calls++
	n, err := t.r.Read(p)
	if t.calls == 2 && n > 0 && err == nil {
		return n, errors.New("transient read error")
	}
	return n, err
}

func strList(l []interface{}) []string {
	out := []string{}
	for _, x := range l {
		out = append(out, x.(string))
	}
	return out
}

func execHashio(vec J, out *Writer) {
	switch vec["k"].(string) {
	case "hw", "hr":
		algs := strList(L(vec["algs"]))
		single := vec["single"].(bool) // NewHasherWriter/Reader (one algorithm) instead of the plural constructor
		chunks := L(vec["chunks"])
		total := 0
		for _, c := range chunks {
			total += I(c)
		}
		if vec["k"] == "hr" {
			total = I(vec["total"])
		}
		stream := streamBytes(total, I(vec["seed"]))
		small := total <= 256
		rec := J{"ev": vec["k"], "in": vec, "small": small}
		if small {
			rec["stream"] = BB(stream)
		}
		steps := []interface{}{}
		obsHashers := func(hs []*hashio.Hasher, prefix []byte) ([]interface{}, []interface{}, []interface{}) {
			sizes, sums, names := []interface{}{}, []interface{}{}, []interface{}{}
			for _, h := range hs {
				sizes = append(sizes, int(h.Size()))
				sums = append(sums, sumIs(h.Sum(nil), prefix))
				names = append(names, h.Name())
			}
			return sizes, sums, names
		}
		if vec["k"] == "hw" {
			var target bytes.Buffer
			var w io.Writer
			var hs []*hashio.Hasher
			var err error
			if single {
				var h *hashio.Hasher
				w, h, err = hashio.NewHasherWriter(algs[0], &target)
				hs = []*hashio.Hasher{h}
			} else {
				w, hs, err = hashio.NewHasherWriters(algs, &target)
			}
			if err != nil {
				out.Put(J{"ev": vec["k"], "in": vec, "small": small, "new_ok": false, "steps": steps})
				return
			}
			pos := 0
			asString, _ := vec["as_string"].(bool)
			for _, c := range chunks {
				var n int
				var werr error
				if asString {
					// the io.StringWriter route (io.WriteString uses a WriteString method where there is one)
					n, werr = io.WriteString(w, string(stream[pos:pos+I(c)]))
				} else {
					n, werr = w.Write(stream[pos : pos+I(c)])
				}
				pos += I(c)
				sizes, sums, names := obsHashers(hs, stream[:pos])
				st := J{"n": n, "err": werr != nil, "sizes": sizes, "sum_is": sums, "names": names, "passed_len": target.Len(),
					"passed_ok": bytes.Equal(target.Bytes(), stream[:pos])}
				if small {
					st["passed"] = BB(target.Bytes())
				}
				steps = append(steps, st)
			}
		} else {
			var r io.Reader
			var hs []*hashio.Hasher
			var err error
			if single {
				var h *hashio.Hasher
				r, h, err = hashio.NewHasherReader(algs[0], sourceReader(vec, stream))
				hs = []*hashio.Hasher{h}
			} else {
				r, hs, err = hashio.NewHasherReaders(algs, sourceReader(vec, stream))
			}
			if err != nil {
				out.Put(J{"ev": vec["k"], "in": vec, "small": small, "new_ok": false, "steps": steps})
				return
			}
			var got bytes.Buffer
			for _, c := range chunks {
				buf := make([]byte, I(c))
				n, rerr := r.Read(buf)
				got.Write(buf[:n])
				sizes, sums, names := obsHashers(hs, got.Bytes())
				st := J{"n": n, "err": rerr != nil && rerr != io.EOF, "eof": rerr == io.EOF, "sizes": sizes, "sum_is": sums, "names": names,
					"passed_len": got.Len(), "passed_ok": bytes.Equal(got.Bytes(), stream[:got.Len()])}
				if small {
					st["passed"] = BB(got.Bytes())
				}
				steps = append(steps, st)
			}
		}
		rec["new_ok"] = true
		rec["steps"] = steps
		out.Put(rec)
	case "hasher_life":
		// one Hasher, a sequence of operations: w = Write n bytes, s = Sum through the pointer, e = an entry built by
		// FileHashFromHasher (which takes the hasher BY VALUE) - after any of them the hasher is used again
		alg := vec["alg"].(string)
		h, err := hashio.NewHasher(alg)
		if err != nil {
			out.Put(J{"ev": "hasher_life", "in": vec, "new_ok": false, "steps": []interface{}{}})
			return
		}
		total := 0
		for _, oj := range L(vec["ops"]) {
			total += I(M(oj)["n"])
		}
		stream := streamBytes(total, 17)
		pos := 0
		steps := []interface{}{}
		for _, oj := range L(vec["ops"]) {
			o := M(oj)
			st := J{"n": 0, "err": false, "sum_is": "", "size": 0, "entry_alg": ""}
			switch o["op"].(string) {
			case "w":
				n, werr := h.Write(stream[pos : pos+I(o["n"])])
				pos += I(o["n"])
				st["n"], st["err"] = n, werr != nil
			case "ws": // the same bytes through io.WriteString
				n, werr := io.WriteString(h, string(stream[pos:pos+I(o["n"])]))
				pos += I(o["n"])
				st["n"], st["err"] = n, werr != nil
			case "s":
				st["sum_is"] = sumIs(h.Sum(nil), stream[:pos])
				st["size"] = int(h.Size())
			case "sp": // Sum appends the digest to what it is given (hash.Hash's contract)
				prefix := []byte("sha256:")
				got := h.Sum(append([]byte{}, prefix...))
				st["size"] = int(h.Size())
				if len(got) >= len(prefix) && bytes.Equal(got[:len(prefix)], prefix) {
					st["sum_is"] = sumIs(got[len(prefix):], stream[:pos])
				} else {
					st["sum_is"] = "prefix-lost"
				}
			case "e":
				fh := control.FileHashFromHasher("file_1.0.tar.gz", *h)
				raw, derr := hex.DecodeString(fh.Hash)
				if derr != nil {
					raw = nil
				}
				st["sum_is"] = sumIs(raw, stream[:pos])
				st["size"] = int(fh.Size)
				st["entry_alg"] = fh.Algorithm
			}
			steps = append(steps, st)
		}
		out.Put(J{"ev": "hasher_life", "in": vec, "new_ok": true, "steps": steps})
	case "verifier_seq":
		// one child process, a sequence of verifications: a rejected stream must not influence the next one
		js, _ := json.Marshal(vec)
		cmd := exec.Command(os.Args[0], "verifier-child", string(js))
		var stdout bytes.Buffer
		cmd.Stdout = &stdout
		err := cmd.Run()
		var all []J
		if err != nil || json.Unmarshal(stdout.Bytes(), &all) != nil {
			out.Put(J{"ev": "verifier", "in": vec, "died": true, "entry_alg": "", "hash_is": "none", "new_ok": false, "close_ok": false, "close2_ok": false, "size_ok": false, "n_entries": 0})
			return
		}
		for i, obs := range all {
			step := M(L(vec["steps"])[i])
			one := J{"k": "verifier_seq", "alg": step["alg"], "source": step["source"], "recorded": step["recorded"], "len": step["len"],
				"chunks": step["chunks"], "seed": step["seed"], "steps": vec["steps"], "step": i + 1}
			obs["ev"] = "verifier"
			obs["in"] = one
			obs["died"] = false
			out.Put(obs)
		}
	case "verifier":
		// run in a child: the pinned code answers some algorithms with log.Fatalf
		js, _ := json.Marshal(vec)
		cmd := exec.Command(os.Args[0], "verifier-child", string(js))
		var stdout bytes.Buffer
		cmd.Stdout = &stdout
		err := cmd.Run()
		var obs J
		if err != nil || json.Unmarshal(stdout.Bytes(), &obs) != nil {
			out.Put(J{"ev": "verifier", "in": vec, "died": true, "entry_alg": "", "hash_is": "none", "new_ok": false, "close_ok": false, "close2_ok": false, "size_ok": false, "n_entries": 0})
			return
		}
		obs["ev"] = "verifier"
		obs["in"] = vec
		obs["died"] = false
		out.Put(obs)
	default:
		die("hashio: unknown vector kind %v", vec["k"])
	}
}

type bestHolder struct {
	control.BestChecksums
}

// verifierChild builds the entry from its source, feeds the content and prints the observation as JSON.
func verifierChild(args []string) {
	var vec J
	if err := json.Unmarshal([]byte(args[0]), &vec); err != nil {
		os.Exit(3)
	}
	if vec["k"] == "verifier_seq" {
		all := []J{}
		for _, s := range L(vec["steps"]) {
			all = append(all, verifyOnce(M(s)))
		}
		js, _ := json.Marshal(all)
		os.Stdout.Write(js)
		return
	}
	js, _ := json.Marshal(verifyOnce(vec))
	os.Stdout.Write(js)
}

func verifyOnce(vec J) J {
	alg := vec["alg"].(string)
	content := streamBytes(I(vec["len"]), I(vec["seed"]))
	if vec["recorded"] == "trunc_zero_tail" {
		// a content whose digest ENDS in a zero byte (the first of the seeds that gives one): the recorded hash is that
		// digest without its last byte - a truncated hash whose missing part happens to be zero
		for sd := I(vec["seed"]); sd < I(vec["seed"])+100000; sd++ {
			content = streamBytes(I(vec["len"]), sd)
			if d := trueDigest(alg, content); d[len(d)-1] == 0 {
				break
			}
		}
	}
	// the recorded hash
	good := hex.EncodeToString(trueDigest(alg, content))
	recorded := good
	switch rc := vec["recorded"].(string); {
	case rc == "equal":
	case rc == "upper":
		recorded = strings.ToUpper(good)
	case rc == "unequal":
		b := trueDigest(alg, content)
		b[len(b)/2] ^= 0x10
		recorded = hex.EncodeToString(b)
	case rc == "longer": // the true digest followed by more hex digits
		recorded = good + "deadbeef"
	case rc == "zero_padded": // a prefix of the true digest, padded with zeros to full length
		recorded = good[:len(good)-4] + "0000"
	case rc == "trunc_odd":
		recorded = good[:len(good)-1]
	case rc == "trunc_even", rc == "trunc_zero_tail":
		recorded = good[:len(good)-2]
	case rc == "empty_content_hash":
		recorded = hex.EncodeToString(trueDigest(alg, nil))
	case strings.HasPrefix(rc, "other:"):
		recorded = hex.EncodeToString(trueDigest(strings.TrimPrefix(rc, "other:"), content))
	}
	line := fmt.Sprintf("%s %d file_1.0.tar.gz", recorded, len(content))
	var entries []control.FileHash
	switch vec["source"].(string) {
	case "dsc256": // Checksums-Sha256 of a .dsc
		text := "Format: 1.0\nSource: x\nVersion: 1.0\nChecksums-Sha256:\n " + line + "\n"
		d, err := control.ParseDsc(bufioReader(text), "/tmp/x.dsc")
		if err == nil {
			for _, e := range d.ChecksumsSha256 {
				entries = append(entries, e.FileHash)
			}
		}
	case "best": // through the best-checksum selector
		field := map[string]string{"sha256": "Checksums-Sha256", "sha512": "Checksums-Sha512"}[alg]
		var h bestHolder
		if err := control.Unmarshal(&h, strings.NewReader(field+":\n "+line+"\n")); err == nil {
			entries = h.Checksums()
		}
	case "bestafter": // the very same line was parsed under the OTHER checksum field first (in this process)
		other := map[string]string{"sha256": "Checksums-Sha512", "sha512": "Checksums-Sha256"}[alg]
		field := map[string]string{"sha256": "Checksums-Sha256", "sha512": "Checksums-Sha512"}[alg]
		var h0, h bestHolder
		control.Unmarshal(&h0, strings.NewReader(other+":\n "+line+"\n"))
		if err := control.Unmarshal(&h, strings.NewReader(field+":\n "+line+"\n")); err == nil {
			entries = h.Checksums()
		}
	case "bestloop": // the Decoder-loop idiom: one variable decoded into twice, the values kept; the FIRST one is used afterwards
		field := map[string]string{"sha256": "Checksums-Sha256", "sha512": "Checksums-Sha512"}[alg]
		zeros := strings.Repeat("0", len(good))
		text := field + ":\n " + line + "\n\n" + field + ":\n " + zeros + " 7 other_2.0.tar.gz\n"
		if dec, err := control.NewDecoder(strings.NewReader(text), nil); err == nil {
			var h bestHolder
			kept := []bestHolder{}
			for dec.Decode(&h) == nil {
				kept = append(kept, h)
			}
			if len(kept) == 2 {
				entries = kept[0].Checksums()
			}
		}
	case "hasher": // built from a hasher that saw the content
		hs, err := hashio.NewHasher(alg)
		if err == nil {
			hs.Write(content)
			fh := control.FileHashFromHasher("file_1.0.tar.gz", *hs)
			if vec["recorded"].(string) != "equal" {
				fh.Hash = recorded
			}
			entries = []control.FileHash{fh}
		}
	}
	obs := J{"n_entries": len(entries), "entry_alg": "", "hash_is": "none", "new_ok": false, "close_ok": false, "close2_ok": false, "size_ok": false}
	if len(entries) == 1 {
		e := entries[0]
		obs["entry_alg"] = e.Algorithm
		raw, herr := hex.DecodeString(e.Hash)
		if herr == nil {
			obs["hash_is"] = sumIs(raw, content)
		}
		obs["size_ok"] = e.Size == int64(len(content))
		v, err := e.Verifier()
		if reuse, _ := vec["reuse_var"].(bool); reuse {
			// the variable the verifier was taken from now holds ANOTHER entry (a loop that walks the entries with one
			// variable and keeps the verifiers): the verifier stands for the hash recorded when it was made
			other := e
			other.Hash = strings.Repeat("00", len(e.Hash)/2)
			other.Filename = "other_2.0.tar.gz"
			e = other
		}
		// `interleave`: a second verifier of the same algorithm (for another content) is alive and written to between
		// the chunks of this one
		var v2 interface {
			Write([]byte) (int, error)
			Close() error
		}
		if il, _ := vec["interleave"].(bool); il {
			if hs, herr := hashio.NewHasher(e.Algorithm); herr == nil {
				hs.Write([]byte("another file"))
				e2 := control.FileHashFromHasher("other_2.0.tar.gz", *hs)
				if w2, err2 := e2.Verifier(); err2 == nil {
					v2 = w2
				}
			}
		}
		if err == nil && v != nil {
			obs["new_ok"] = true
			pos := 0
			if v2 != nil {
				v2.Write([]byte("another "))
			}
			for _, c := range L(vec["chunks"]) {
				n := I(c)
				if pos+n > len(content) {
					n = len(content) - pos
				}
				v.Write(content[pos : pos+n])
				pos += n
				if v2 != nil && pos == n {
					v2.Write([]byte("file"))
				}
			}
			v.Write(content[pos:])
			obs["close_ok"] = v.Close() == nil
			obs["close2_ok"] = v.Close() == nil
		}
	}
	return obs
}

func genC12(seed int64, tier string, out *Writer) {
	r := rand.New(rand.NewSource(seed))
	n := 150
	if tier == "thorough" {
		n = 3000
	}
	sizes := []int{0, 1, 63, 64, 65, 4096, 100000, 1 << 20}
	for i := 0; i < n; i++ {
		perm := r.Perm(4)
		algs := []interface{}{}
		for _, p := range perm[:1+r.Intn(4)] {
			algs = append(algs, algNames[p])
		}
		chunks := []interface{}{}
		total := 0
		for k := 1 + r.Intn(5); k > 0; k-- {
			c := sizes[r.Intn(len(sizes))]
			if total+c > 3<<20 {
				c = 1
			}
			total += c
			chunks = append(chunks, c)
		}
		if r.Intn(2) == 0 {
			out.Put(J{"k": "hw", "algs": algs, "single": len(algs) == 1 && r.Intn(2) == 0, "chunks": chunks, "seed": r.Intn(200)})
		} else {
			out.Put(J{"k": "hr", "algs": algs, "single": len(algs) == 1 && r.Intn(2) == 0, "chunks": chunks, "total": total - r.Intn(total/2+1), "seed": r.Intn(200)})
		}
	}
}
