package main

import (
	"bytes"
	"errors"
	"io"
	"math/rand"
	"strings"
	"time"

	"golang.org/x/crypto/openpgp"
	"golang.org/x/crypto/openpgp/armor"
	"golang.org/x/crypto/openpgp/clearsign"
	"golang.org/x/crypto/openpgp/packet"
	"pault.ag/go/debian/control"
)

func init() {
	props["C11"] = &prop{gen: genC11, exec: execClearsign}
}

func clearSign(k *openpgp.Entity, text []byte) []byte {
	return clearSignWith(k.PrivateKey, text)
}

// clearSignWith signs with any private key - also one that must not be honoured for signatures (an entity's
// encryption-only subkey)
func clearSignWith(pk *packet.PrivateKey, text []byte) []byte {
	var buf bytes.Buffer
	cfg := &packet.Config{Time: func() time.Time { return time.Unix(1700000200, 0) }}
	w, err := clearsign.Encode(&buf, pk, cfg)
	if err != nil {
		die("clearsign: %v", err)
	}
	w.Write(text)
	w.Close()
	return buf.Bytes()
}

// what an independent decoding of the armor says about a (possibly damaged) document
type csFacts struct {
	decodes bool
	canon   []byte
	sigpkt  []byte
}

func factsOf(b []byte) csFacts {
	block, _ := clearsign.Decode(b)
	if block == nil {
		return csFacts{}
	}
	f := csFacts{decodes: true, canon: block.Bytes}
	if block.ArmoredSignature != nil {
		f.sigpkt, _ = io.ReadAll(block.ArmoredSignature.Body)
	}
	return f
}

var foreignPara = "Injected: yes\nPackage: evil\n"

var sharedRing openpgp.EntityList

func execClearsign(vec J, out *Writer) {
	if vec["k"].(string) == "cs_seq" {
		// one process, one document, a sequence of keyrings: what an earlier read accepted must not
		// influence a later one.  Every read is an ordinary "cs" observation; `in` keeps the whole
		// sequence so that a replay runs it again from the start.
		for i, kr := range L(vec["rings"]) {
			one := J{"k": "cs", "doc": vec["doc"], "key": vec["key"], "keyring": kr, "mut": vec["mut"], "shared_ring": true}
			execClearsignOne(one, out, J{"k": "cs_seq", "doc": vec["doc"], "key": vec["key"], "rings": vec["rings"], "mut": vec["mut"], "step": i + 1})
		}
		return
	}
	if vec["k"].(string) == "cs_ops" {
		execClearsignOps(vec, out)
		return
	}
	if vec["k"].(string) != "cs" {
		die("clearsign: unknown vector kind %v", vec["k"])
	}
	execClearsignOne(vec, out, vec)
}

// execClearsignOps: several ParagraphReaders alive in one process, opened and polled in the order the vector
// gives (a drained reader polled again, two readers open at once).  One observation per operation.
func execClearsignOps(vec J, out *Writer) {
	docs := [][]byte{}
	keys := L(vec["keys"])
	for i, d := range L(vec["docs"]) {
		text := []byte(S(d))
		if k := keys[i].(string); k != "" {
			text = clearSign(key(k), text)
		}
		docs = append(docs, text)
	}
	readers := map[int]*control.ParagraphReader{}
	steps := []interface{}{}
	for _, oj := range L(vec["ops"]) {
		o := M(oj)
		r := I(o["r"])
		obs := J{"kind": "err", "panic": false, "signer": "none", "para": paraToJ(control.Paragraph{})}
		func() {
			defer func() {
				if rec := recover(); rec != nil {
					obs["panic"] = true
				}
			}()
			switch o["op"].(string) {
			case "open":
				var ring *openpgp.EntityList
				if !o["nil"].(bool) {
					el := keyring(L(o["ring"]))
					ring = &el
				}
				rd, err := control.NewParagraphReader(bytes.NewReader(docs[I(o["d"])-1]), ring)
				if err != nil {
					return
				}
				readers[r] = rd
				obs["kind"] = "opened"
				obs["signer"] = keyName(rd.Signer())
			case "next":
				rd := readers[r]
				if rd == nil {
					return
				}
				p, err := rd.Next()
				obs["signer"] = keyName(rd.Signer())
				if err == io.EOF {
					obs["kind"] = "eof"
				} else if err == nil {
					obs["kind"] = "para"
					obs["para"] = paraToJ(*p)
				}
			}
		}()
		steps = append(steps, obs)
	}
	out.Put(J{"ev": "cs_ops", "in": vec, "steps": steps})
}

func execClearsignOne(vec J, out *Writer, echo J) {
	text := []byte(S(vec["doc"]))
	signed := text
	signedBy := "none"
	if k, ok := vec["key"]; ok && k != nil && k.(string) != "" {
		if k.(string) == "k1enc" {
			// a cryptographically valid signature made with k1's ENCRYPTION subkey: k1 is in the keyring, but that key
			// may not sign - no valid signature by a keyring key
			signed = clearSignWith(key("k1").Subkeys[0].PrivateKey, text)
		} else {
			signed = clearSign(key(k.(string)), text)
		}
		signedBy = k.(string)
	}
	orig := factsOf(signed)
	mut := M(vec["mut"])
	b := append([]byte{}, signed...)
	pos := 0
	if p, ok := mut["pos"]; ok {
		pos = I(p)
	} else if d, ok := mut["den"]; ok && len(b) > 0 {
		pos = len(b) * I(mut["num"]) / I(d)
	}
	if pos > len(b) {
		pos = len(b)
	}
	inSigned := func() int { // an offset inside the signed text of the armored document
		i := bytes.Index(b, text[:min(len(text), 8)])
		if i < 0 {
			return len(b) / 3
		}
		nl := bytes.IndexByte(b[i:], '\n')
		return i + nl + 1
	}
	switch mut["op"].(string) {
	case "none":
	case "sub":
		if pos < len(b) {
			b[pos] ^= byte(I(mut["mask"]))
		}
	case "del":
		if pos < len(b) {
			b = append(b[:pos], b[pos+1:]...)
		}
	case "ins":
		b = append(b[:pos], append([]byte{byte(I(mut["byte"]))}, b[pos:]...)...)
	case "trunc":
		b = b[:pos]
	case "splice_before":
		b = append([]byte(foreignPara+"\n"), b...)
	case "splice_inside":
		i := inSigned()
		b = append(b[:i], append([]byte(foreignPara), b[i:]...)...)
	case "splice_inside_para":
		i := inSigned()
		b = append(b[:i], append([]byte("\n"+foreignPara+"\n"), b[i:]...)...)
	case "splice_after":
		b = append(b, []byte("\n"+foreignPara)...)
	case "second_block":
		b = append(b, clearSign(key("k2"), []byte(foreignPara))...)
	case "ws_blank_sp", "ws_blank_tab":
		// a blank (which an OpenPGP cleartext signature does not cover: trailing white space is not hashed) is put on
		// the first EMPTY line of the signed text, i.e. on a paragraph separator
		ws := map[string]string{"ws_blank_sp": " ", "ws_blank_tab": "\t"}[mut["op"].(string)]
		start := bytes.Index(b, []byte("\n\n")) // end of the armor headers
		end := bytes.Index(b, []byte("-----BEGIN PGP SIGNATURE-----"))
		if start >= 0 && end > start {
			if i := bytes.Index(b[start+2:end], []byte("\n\n")); i >= 0 {
				at := start + 2 + i + 1
				b = append(append(append([]byte{}, b[:at]...), []byte(ws)...), b[at:]...)
			}
		}
	case "multi_sig":
		// the armored signature holds several signature packets: the document's own ("good"), one made by k1 over
		// another text ("unrelated"), one made by k1 over the EMPTY text ("empty"), one by k2 over this text ("k2good")
		var pk bytes.Buffer
		for _, kj := range L(mut["packets"]) {
			switch kj.(string) {
			case "good":
				pk.Write(orig.sigpkt)
			case "unrelated":
				pk.Write(factsOf(clearSign(key("k1"), []byte("Other: document\n"))).sigpkt)
			case "empty":
				pk.Write(factsOf(clearSign(key("k1"), []byte(""))).sigpkt)
			case "k2good":
				pk.Write(factsOf(clearSign(key("k2"), text)).sigpkt)
			}
		}
		if i := bytes.Index(b, []byte("-----BEGIN PGP SIGNATURE-----")); i >= 0 {
			var arm bytes.Buffer
			w, err := armor.Encode(&arm, "PGP SIGNATURE", nil)
			if err != nil {
				die("armor: %v", err)
			}
			w.Write(pk.Bytes())
			w.Close()
			b = append(append([]byte{}, b[:i]...), arm.Bytes()...)
			b = append(b, '\n')
		}
	case "drop_sig":
		if i := bytes.Index(b, []byte("-----BEGIN PGP SIGNATURE-----")); i >= 0 {
			b = b[:i]
		}
	default:
		die("clearsign: unknown mutation %v", mut["op"])
	}
	now := factsOf(b)
	var ring *openpgp.EntityList
	ringNames := []interface{}{}
	if kr, ok := vec["keyring"]; ok && kr != nil {
		el := keyring(L(kr))
		if form, ok := vec["ring_form"]; ok && form == "nil-slice" && len(el) == 0 {
			// what `var kr openpgp.EntityList` or ReadKeyRing of an empty file gives: still a supplied, empty keyring
			var none openpgp.EntityList
			el = none
		}
		ring = &el
		if sh, _ := vec["shared_ring"].(bool); sh {
			// the caller keeps ONE keyring variable and changes its contents between reads
			sharedRing = el
			ring = &sharedRing
		}
		ringNames = L(kr)
	}
	// the source: the bytes themselves, or ("via": "fault") a source that delivers them up to a point, fails once with
	// a transient error, and then delivers foreign text - what a caller reading from a flaky stream can meet
	src := func() io.Reader { return bytes.NewReader(b) }
	if via, ok := vec["via"]; ok && via == "fault" {
		cut := len(b) * I(vec["fault_num"]) / I(vec["fault_den"])
		src = func() io.Reader { return &faultySource{data: b[:cut], after: []byte("\n" + foreignPara + "\n")} }
	}
	// the code under test
	obs := J{"ok": false, "signer": "none", "paras": []interface{}{}, "next_paras": []interface{}{}, "panic": false}
	func() {
		defer func() {
			if r := recover(); r != nil {
				obs["panic"] = true
			}
		}()
		rd, err := control.NewParagraphReader(src(), ring)
		if err != nil {
			return
		}
		obs["signer"] = keyName(rd.Signer())
		// paragraphs handed out one by one before any error
		handed := []control.Paragraph{}
		var lastErr error
		for i := 0; i < len(b)+8; i++ {
			p, err := rd.Next()
			if err != nil {
				lastErr = err
				break
			}
			handed = append(handed, *p)
		}
		obs["next_paras"] = parasToJ(handed)
		if lastErr == io.EOF {
			obs["ok"] = true
			obs["paras"] = parasToJ(handed)
		}
	}()
	// the signed TEXT read as a plain document (no armor, no keyring): what a valid signature covers is that text
	plainObs := J{"ok": false, "paras": []interface{}{}}
	func() {
		defer func() { recover() }()
		rd, err := control.NewParagraphReader(bytes.NewReader(text), nil)
		if err != nil {
			return
		}
		ps, err := rd.All()
		if err != nil {
			return
		}
		plainObs["ok"] = true
		plainObs["paras"] = parasToJ(ps)
	}()
	// the same source read all at once
	allObs := J{"ok": false, "n": 0, "panic": false, "foreign": false}
	func() {
		defer func() {
			if r := recover(); r != nil {
				allObs["panic"] = true
			}
		}()
		rd, err := control.NewParagraphReader(src(), ring)
		if err != nil {
			return
		}
		ps, err := rd.All()
		for _, p := range ps {
			for _, k := range p.Order {
				if k == "Injected" {
					allObs["foreign"] = true
				}
			}
		}
		if err != nil {
			return
		}
		allObs["ok"] = true
		allObs["n"] = len(ps)
	}()
	// the same bytes through the Decoder into a slice of structs (the typed documents' route)
	sliceObs := J{"ok": false, "n": 0, "panic": false, "signer": "none"}
	func() {
		defer func() {
			if r := recover(); r != nil {
				sliceObs["panic"] = true
			}
		}()
		dec, err := control.NewDecoder(src(), ring)
		if err != nil {
			return
		}
		sliceObs["signer"] = keyName(dec.Signer())
		var into []rawPara
		if dec.Decode(&into) != nil {
			return
		}
		sliceObs["ok"] = true
		sliceObs["n"] = len(into)
	}()
	hasForeign := func(key string) bool {
		for _, p := range L(obs[key]) {
			for _, k := range L(M(p)["order"]) {
				if S(k) == "Injected" {
					return true
				}
			}
		}
		return false
	}
	out.Put(J{"ev": "cs", "in": echo, "signed_by": signedBy, "keyring_nil": ring == nil, "keyring": ringNames,
		"armor_start": bytes.HasPrefix(b, []byte("-----BEGIN PGP ")),
		"decodes":     now.decodes, "canon_same": now.decodes && orig.decodes && bytes.Equal(now.canon, orig.canon),
		"sigpkt_same": now.decodes && orig.decodes && bytes.Equal(now.sigpkt, orig.sigpkt) && len(now.sigpkt) > 0,
		"len":         len(b), "obs": obs, "slice": sliceObs, "all": allObs, "plain": plainObs, "foreign_in_all": hasForeign("paras"), "foreign_in_next": hasForeign("next_paras")})
}

// faultySource delivers data, then fails once, then delivers `after`
type faultySource struct {
	data, after []byte
	off         int
	failed      bool
}

func (f *faultySource) Read(p []byte) (int, error) {
	if f.off < len(f.data) {
		n := copy(p, f.data[f.off:])
		f.off += n
		return n, nil
	}
	if !f.failed {
		f.failed = true
		return 0, errors.New("transient read error")
	}
	k := f.off - len(f.data)
	if k >= len(f.after) {
		return 0, io.EOF
	}
	n := copy(p, f.after[k:])
	f.off += n
	return n, nil
}

func min(a, b int) int {
	if a < b {
		return a
	}
	return b
}

func genC11(seed int64, tier string, out *Writer) {
	r := rand.New(rand.NewSource(seed))
	docs := []string{
		"Format: 1.8\nSource: hello\nVersion: 2.10-1\nDescription: short\n long line  \n .\n   indented\n",
		"Package: a\nDepends: b (>= 1),\n c | d\n\nPackage: second\nX-Tab:\tvalue\t\n",
	}
	stride := 7
	if tier == "thorough" {
		stride = 1
	}
	for di, d := range docs {
		n := len(clearSign(key("k1"), []byte(d)))
		for pos := r.Intn(stride); pos < n; pos += stride {
			base := J{"k": "cs", "doc": B(d), "key": "k1", "keyring": []interface{}{"k1"}}
			mk := func(m J) J {
				v := J{}
				for k, x := range base {
					v[k] = x
				}
				v["mut"] = m
				return v
			}
			out.Put(mk(J{"op": "sub", "pos": pos, "mask": 1 << uint(r.Intn(8))}))
			out.Put(mk(J{"op": "del", "pos": pos}))
			out.Put(mk(J{"op": "ins", "pos": pos, "byte": []int{' ', '\n', 'x', '-', ':', '\t'}[r.Intn(6)]}))
			out.Put(mk(J{"op": "trunc", "pos": pos}))
		}
		_ = di
	}
	_ = strings.TrimSpace
}
