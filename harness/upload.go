package main

import (
	"bytes"
	"crypto/md5"
	"crypto/sha1"
	"crypto/sha256"
	"encoding/binary"
	"errors"
	"fmt"
	"os"
	"path/filepath"
	"sort"
	"strings"
	"syscall"
	"time"

	"pault.ag/go/debian/control"
)

func init() {
	props["C20"] = &prop{gen: func(int64, string, *Writer) {}, exec: execUpload}
}

// ---- inotify (raw, so that the order of appearance is observed without any hook) ----

type watcher struct {
	fd   int
	dirs map[int32]string
}

func newWatcher(dirs map[string]string) *watcher {
	fd, err := syscall.InotifyInit1(syscall.IN_NONBLOCK | syscall.IN_CLOEXEC)
	if err != nil {
		die("inotify_init: %v", err)
	}
	w := &watcher{fd: fd, dirs: map[int32]string{}}
	for label, path := range dirs {
		wd, err := syscall.InotifyAddWatch(fd, path, syscall.IN_CREATE|syscall.IN_CLOSE_WRITE|syscall.IN_MOVED_TO|syscall.IN_MOVED_FROM|syscall.IN_DELETE|syscall.IN_MODIFY)
		if err != nil {
			die("inotify_add_watch %s: %v", path, err)
		}
		w.dirs[int32(wd)] = label
	}
	return w
}

func (w *watcher) drain() []interface{} {
	out := []interface{}{}
	buf := make([]byte, 1<<16)
	for {
		n, err := syscall.Read(w.fd, buf)
		if n <= 0 || err != nil {
			break
		}
		for off := 0; off+16 <= n; {
			wd := int32(binary.LittleEndian.Uint32(buf[off:]))
			mask := binary.LittleEndian.Uint32(buf[off+4:])
			nlen := int(binary.LittleEndian.Uint32(buf[off+12:]))
			name := strings.TrimRight(string(buf[off+16:off+16+nlen]), "\x00")
			off += 16 + nlen
			op := ""
			switch {
			case mask&syscall.IN_CREATE != 0:
				op = "create"
			case mask&syscall.IN_CLOSE_WRITE != 0:
				op = "close_write"
			case mask&syscall.IN_MOVED_TO != 0:
				op = "moved_to"
			case mask&syscall.IN_MOVED_FROM != 0:
				op = "moved_from"
			case mask&syscall.IN_DELETE != 0:
				op = "delete"
			case mask&syscall.IN_MODIFY != 0:
				op = "modify"
			default:
				continue
			}
			out = append(out, J{"dir": w.dirs[wd], "name": name, "op": op})
		}
	}
	return out
}

func (w *watcher) close() { syscall.Close(w.fd) }

// ---- scenario set-up ---------------------------------------------------------------

func contentOf(key string) []byte {
	return []byte("content of " + key + "\n" + strings.Repeat(key+" ", 300))
}

// snapshot lists a directory as [[name, state]]: full:<key> when the bytes are those of an original
func snapshot(dir string, originals map[string]string) []interface{} {
	out := []interface{}{}
	ents, err := os.ReadDir(dir)
	if err != nil {
		return out
	}
	names := []string{}
	for _, e := range ents {
		names = append(names, e.Name())
	}
	sort.Strings(names)
	for _, n := range names {
		p := filepath.Join(dir, n)
		st, err := os.Lstat(p)
		state := "other"
		switch {
		case err != nil:
			state = "other"
		case st.IsDir():
			state = "dir"
		default:
			b, _ := os.ReadFile(p)
			if key, ok := originals[string(b)]; ok {
				state = "full:" + key
			} else if len(b) == 0 {
				state = "empty"
			} else {
				state = "partial"
			}
		}
		out = append(out, []interface{}{n, state})
	}
	return out
}

// execUploadSeq: several operations on ONE handle (Copy to a, Move to b, Remove ...), all directories snapshotted
// after every step.  No faults, plain names: what matters is what the handle remembers from the previous step.
func execUploadSeq(vec J, out *Writer) {
	kind := vec["kind"].(string)
	n := I(vec["n"])
	root, err := os.MkdirTemp("", "verif-upseq-")
	if err != nil {
		die("mkdtemp: %v", err)
	}
	defer os.RemoveAll(root)
	dirs := map[string]string{"src": filepath.Join(root, "src"), "a": filepath.Join(root, "a"), "b": filepath.Join(root, "b"), "out": filepath.Join(root, "outside")}
	for _, d := range dirs {
		os.MkdirAll(d, 0755)
	}
	originals := map[string]string{}
	write := func(path, key string) {
		c := contentOf(key)
		originals[string(c)] = key
		os.WriteFile(path, c, 0644)
	}
	write(filepath.Join(dirs["out"], "sentinel"), "sentinel")
	listed := []string{}
	bases := []interface{}{}
	for i := 0; i < n; i++ {
		base := fmt.Sprintf("pkg_1.0.f%d.tar.gz", i+1)
		write(filepath.Join(dirs["src"], base), fmt.Sprintf("f%d", i+1))
		listed = append(listed, base)
		bases = append(bases, base)
	}
	var text bytes.Buffer
	var ctlName string
	lines := func(extra string) string {
		var sb strings.Builder
		for _, l := range listed {
			c, _ := os.ReadFile(filepath.Join(dirs["src"], l))
			sb.WriteString(fmt.Sprintf("\n %x %d %s%s", md5.Sum(c), len(c), extra, l))
		}
		return sb.String()
	}
	if kind == "dsc" {
		ctlName = "pkg_1.0.dsc"
		fmt.Fprintf(&text, "Format: 3.0 (quilt)\nSource: pkg\nBinary: pkg\nArchitecture: any\nVersion: 1.0\nMaintainer: A B <a@b.org>\nFiles:%s\n", lines(""))
	} else {
		ctlName = "pkg_1.0_amd64.changes"
		fmt.Fprintf(&text, "Format: 1.8\nSource: pkg\nBinary: pkg\nArchitecture: source\nVersion: 1.0\nDistribution: unstable\nUrgency: low\nMaintainer: A B <a@b.org>\nChanged-By: A B <a@b.org>\nDescription:\n pkg - x\nChanges:\n pkg (1.0) unstable; urgency=low\n .\n   * x\nFiles:%s\n", lines("utils optional "))
	}
	ctlPath := filepath.Join(dirs["src"], ctlName)
	originals[text.String()] = "ctl"
	os.WriteFile(ctlPath, text.Bytes(), 0644)
	type handle interface {
		Copy(string) error
		Move(string) error
		Remove() error
	}
	var h handle
	var filename *string
	if kind == "dsc" {
		d, err := control.ParseDscFile(ctlPath)
		if err != nil {
			die("ParseDscFile: %v", err)
		}
		h, filename = d, &d.Filename
	} else {
		c, err := control.ParseChangesFile(ctlPath)
		if err != nil {
			die("ParseChangesFile: %v", err)
		}
		h, filename = c, &c.Filename
	}
	steps := []interface{}{}
	for _, oj := range L(vec["ops"]) {
		o := M(oj)
		var operr error
		panicked := false
		func() {
			defer func() {
				if r := recover(); r != nil {
					panicked = true
				}
			}()
			switch o["op"].(string) {
			case "copy":
				operr = h.Copy(dirs[o["to"].(string)])
			case "move":
				operr = h.Move(dirs[o["to"].(string)])
			case "remove":
				operr = h.Remove()
			}
		}()
		where := "other"
		for label, d := range dirs {
			if filepath.Clean(*filename) == filepath.Join(d, ctlName) {
				where = label
			}
		}
		steps = append(steps, J{"err": operr != nil, "panic": panicked, "handle": where,
			"src": snapshot(dirs["src"], originals), "a": snapshot(dirs["a"], originals), "b": snapshot(dirs["b"], originals),
			"out": snapshot(dirs["out"], originals)})
	}
	out.Put(J{"ev": "upseq", "in": vec, "ctl": ctlName, "bases": bases, "steps": steps})
}

// execUploadReparse: the control file at ONE path is parsed and copied, then rewritten to list another file, parsed
// again and copied elsewhere: the second copy is the upload the second text describes
func execUploadReparse(vec J, out *Writer) {
	kind := vec["kind"].(string)
	root, err := os.MkdirTemp("", "verif-reparse-")
	if err != nil {
		die("mkdtemp: %v", err)
	}
	defer os.RemoveAll(root)
	dirs := map[string]string{"src": filepath.Join(root, "src"), "a": filepath.Join(root, "a"), "b": filepath.Join(root, "b")}
	for _, d := range dirs {
		os.MkdirAll(d, 0755)
	}
	originals := map[string]string{}
	names := map[string]string{"f1": "pkg_1.0.f1.tar.gz", "f2": "pkg_1.0.f2.tar.xz"}
	for key, n := range names {
		c := contentOf(key)
		originals[string(c)] = key
		os.WriteFile(filepath.Join(dirs["src"], n), c, 0644)
	}
	ctlName := map[string]string{"dsc": "pkg_1.0.dsc", "changes": "pkg_1.0_amd64.changes"}[kind]
	render := func(key string) string {
		c := contentOf(key)
		m, s1, s2 := md5.Sum(c), sha1.Sum(c), sha256.Sum256(c)
		extra := ""
		head := "Format: 3.0 (quilt)\nSource: pkg\nBinary: pkg\nArchitecture: any\nVersion: 1.0\nMaintainer: A B <a@b.org>\n"
		if kind == "changes" {
			extra = "utils optional "
			head = "Format: 1.8\nDate: Mon, 02 Jan 2006 15:04:05 -0700\nSource: pkg\nBinary: pkg\nArchitecture: source\nVersion: 1.0\nDistribution: unstable\nUrgency: low\nMaintainer: A B <a@b.org>\nChanged-By: A B <a@b.org>\nDescription:\n pkg - x\nChanges:\n pkg (1.0) unstable; urgency=low\n .\n   * " + key + "\n"
		}
		return head + fmt.Sprintf("Checksums-Sha1:\n %x %d %s\nChecksums-Sha256:\n %x %d %s\nFiles:\n %x %d %s%s\n", s1, len(c), names[key], s2, len(c), names[key], m, len(c), extra, names[key])
	}
	ctlPath := filepath.Join(dirs["src"], ctlName)
	errs := []interface{}{}
	panicked := false
	for i, key := range []string{"f1", "f2"} {
		text := render(key)
		originals[text] = "ctl" + key
		os.WriteFile(ctlPath, []byte(text), 0644)
		func() {
			defer func() {
				if r := recover(); r != nil {
					panicked = true
				}
			}()
			var h interface{ Copy(string) error }
			if kind == "dsc" {
				d, err := control.ParseDscFile(ctlPath)
				if err != nil {
					die("reparse ParseDscFile: %v", err)
				}
				h = d
			} else {
				c, err := control.ParseChangesFile(ctlPath)
				if err != nil {
					die("reparse ParseChangesFile: %v", err)
				}
				h = c
			}
			errs = append(errs, h.Copy(dirs[[]string{"a", "b"}[i]]) != nil)
		}()
	}
	out.Put(J{"ev": "upreparse", "in": vec, "ctl": ctlName, "errs": errs, "panic": panicked,
		"a": snapshot(dirs["a"], originals), "b": snapshot(dirs["b"], originals)})
}

func execUpload(vec J, out *Writer) {
	if vec["k"].(string) == "upseq" {
		execUploadSeq(vec, out)
		return
	}
	if vec["k"].(string) == "upreparse" {
		execUploadReparse(vec, out)
		return
	}
	if vec["k"].(string) != "up" {
		die("upload: unknown vector kind %v", vec["k"])
	}
	op, kind := vec["op"].(string), vec["kind"].(string)
	shapes := L(vec["shapes"])
	fault := M(vec["fault"])
	root, err := os.MkdirTemp("", "verif-upload-")
	if err != nil {
		die("mkdtemp: %v", err)
	}
	defer os.RemoveAll(root)
	src, dst, outside := filepath.Join(root, "src"), filepath.Join(root, "dst"), filepath.Join(root, "outside")
	if fault["kind"] == "xdev" {
		// not a failure injected into the library: the destination lies on another filesystem (rename(2) answers EXDEV)
		other := otherFilesystemDir(root)
		if other == "" {
			out.Put(J{"ev": "up", "in": vec, "skipped": true})
			return
		}
		defer os.RemoveAll(other)
		dst = filepath.Join(other, "dst")
	}
	for _, d := range []string{src, dst, outside, filepath.Join(src, "sub")} {
		os.MkdirAll(d, 0755)
	}
	originals := map[string]string{}
	write := func(path, key string) {
		c := contentOf(key)
		originals[string(c)] = key
		if err := os.WriteFile(path, c, 0644); err != nil {
			die("write %s: %v", path, err)
		}
	}
	write(filepath.Join(outside, "sentinel"), "sentinel")
	// referenced files
	listed := []string{} // names as listed in the control file
	bases := []interface{}{}
	for i, sh := range shapes {
		base := fmt.Sprintf("pkg_1.0.f%d.tar.gz", i+1)
		key := fmt.Sprintf("f%d", i+1)
		switch sh.(string) {
		case "plain":
			write(filepath.Join(src, base), key)
			listed = append(listed, base)
		case "dotdot":
			write(filepath.Join(outside, base), "out:"+key)
			listed = append(listed, "../outside/"+base)
		case "abs":
			write(filepath.Join(outside, base), "out:"+key)
			listed = append(listed, filepath.Join(outside, base))
		case "dot", "dotdot1", "slash":
			// names that ARE directories: the control file's own directory, its parent, the root
			listed = append(listed, map[string]string{"dot": ".", "dotdot1": "..", "slash": "/"}[sh.(string)])
		case "sub":
			write(filepath.Join(src, "sub", base), key)
			listed = append(listed, "sub/"+base)
		}
		bases = append(bases, base)
	}
	// natural faults on a referenced file
	at := I(fault["at"])
	fk := fault["kind"].(string)
	pathOfListed := func(i int) string {
		if filepath.IsAbs(listed[i]) {
			return listed[i]
		}
		return filepath.Join(src, listed[i])
	}
	if at >= 1 && at <= len(listed) {
		switch fk {
		case "missing":
			os.Remove(pathOfListed(at - 1))
		case "srcdir":
			os.Remove(pathOfListed(at - 1))
			os.Mkdir(pathOfListed(at-1), 0755)
		case "dstdir":
			os.MkdirAll(filepath.Join(dst, bases[at-1].(string), "occupied"), 0755)
		case "stale", "stalelong", "stalesame":
			// not a failure: an older upload left a file of the same name and length (or a LONGER one), with other bytes
			// and a newer mtime ("stalesame": with the very mtime of the source file, as cp -p or rsync -t leave it)
			stale := bytes.ToUpper(contentOf(fmt.Sprintf("f%d", at)))
			if fk == "stalelong" {
				stale = append(stale, []byte("\n-- tail of an older, longer file --\n")...)
			}
			p := filepath.Join(dst, bases[at-1].(string))
			os.WriteFile(p, stale, 0644)
			future := time.Now().Add(48 * time.Hour)
			if fk == "stalesame" {
				if st, err := os.Stat(pathOfListed(at - 1)); err == nil {
					future = st.ModTime()
				}
			}
			os.Chtimes(p, future, future)
		}
	}
	// the control file
	var ctlName string
	var text bytes.Buffer
	lines := func(h func([]byte) string, extra string) string {
		var sb strings.Builder
		for i, l := range listed {
			c := []byte{}
			if b, err := os.ReadFile(pathOfListed(i)); err == nil {
				c = b
			}
			sb.WriteString(fmt.Sprintf("\n %s %d %s%s", h(c), len(c), extra, l))
		}
		return sb.String()
	}
	md5h := func(b []byte) string { return fmt.Sprintf("%x", md5.Sum(b)) }
	sha1h := func(b []byte) string { return fmt.Sprintf("%x", sha1.Sum(b)) }
	sha256h := func(b []byte) string { return fmt.Sprintf("%x", sha256.Sum256(b)) }
	which, _ := vec["lists"].(string) // which of the three file lists the control file carries ("" = all)
	lists := func(extra string) string {
		if len(listed) == 0 {
			return "" // an upload without files has no file list fields at all
		}
		switch which {
		case "sha256only":
			return fmt.Sprintf("Checksums-Sha256:%s\n", lines(sha256h, ""))
		case "sha1only":
			return fmt.Sprintf("Checksums-Sha1:%s\n", lines(sha1h, ""))
		case "nofiles":
			return fmt.Sprintf("Checksums-Sha1:%s\nChecksums-Sha256:%s\n", lines(sha1h, ""), lines(sha256h, ""))
		}
		return fmt.Sprintf("Checksums-Sha1:%s\nChecksums-Sha256:%s\nFiles:%s\n", lines(sha1h, ""), lines(sha256h, ""), lines(md5h, extra))
	}
	if kind == "dsc" {
		ctlName = "pkg_1.0.dsc"
		fmt.Fprintf(&text, "Format: 3.0 (quilt)\nSource: pkg\nBinary: pkg\nArchitecture: any\nVersion: 1.0\nMaintainer: A B <a@b.org>\n%s", lists(""))
	} else {
		ctlName = "pkg_1.0_amd64.changes"
		fmt.Fprintf(&text, "Format: 1.8\nDate: Mon, 02 Jan 2006 15:04:05 -0700\nSource: pkg\nBinary: pkg\nArchitecture: source\nVersion: 1.0\nDistribution: unstable\nUrgency: low\nMaintainer: A B <a@b.org>\nChanged-By: A B <a@b.org>\nDescription:\n pkg - x\nChanges:\n pkg (1.0) unstable; urgency=low\n .\n   * x\n%s", lists("utils optional "))
	}
	ctlPath := filepath.Join(src, ctlName)
	originals[text.String()] = "ctl"
	os.WriteFile(ctlPath, text.Bytes(), 0644)

	type handle interface {
		Copy(string) error
		Move(string) error
		Remove() error
	}
	var h handle
	var filename *string
	parsePath := ctlPath
	if fk == "relpath" {
		// not a fault: the control file is named by a RELATIVE path and the process changes its working directory
		// before the operation (a daemon that chdirs to "/"): the handle stands for the file that was parsed
		cwd, _ := os.Getwd()
		defer os.Chdir(cwd)
		os.Chdir(root)
		parsePath = filepath.Join("src", ctlName)
	}
	if kind == "dsc" {
		d, err := control.ParseDscFile(parsePath)
		if err != nil {
			die("ParseDscFile: %v\n%s", err, text.String())
		}
		h, filename = d, &d.Filename
	} else {
		c, err := control.ParseChangesFile(parsePath)
		if err != nil {
			die("ParseChangesFile: %v\n%s", err, text.String())
		}
		h, filename = c, &c.Filename
	}
	if fk == "relpath" {
		os.Chdir(outside)
	}
	// faults on the control file itself
	if at == len(listed)+1 {
		switch fk {
		case "srcdir":
			os.Remove(ctlPath)
			os.Mkdir(ctlPath, 0755)
		case "missing":
			os.Remove(ctlPath)
		case "dstdir":
			os.MkdirAll(filepath.Join(dst, ctlName, "occupied"), 0755)
		case "stale", "stalelong", "stalesame":
			p := filepath.Join(dst, ctlName)
			old := bytes.ToUpper(text.Bytes())
			if fk == "stalelong" {
				old = append(old, []byte("X-Old: tail of an older, longer control file\n")...)
			}
			os.WriteFile(p, old, 0644)
			future := time.Now().Add(48 * time.Hour)
			if fk == "stalesame" {
				if st, err := os.Stat(ctlPath); err == nil {
					future = st.ModTime()
				}
			}
			os.Chtimes(p, future, future)
		}
	}
	calls := 0
	hookFired := false
	if fk == "hook" {
		stage := fault["stage"].(string)
		control.SetCopyHook(func(s, source, dest string) error {
			if s == stage {
				calls++
			}
			if calls == at && s == stage {
				hookFired = true
				return errors.New("injected failure")
			}
			return nil
		})
		defer control.SetCopyHook(nil)
	}
	if fk == "destfile" {
		// the destination named by the caller is not a directory but a regular file
		os.RemoveAll(dst)
		write(dst, "destfile")
	}
	selfState := func(p string) string {
		st, err := os.Lstat(p)
		switch {
		case err != nil:
			return "absent"
		case st.IsDir():
			return "dir"
		}
		b, _ := os.ReadFile(p)
		if key, ok := originals[string(b)]; ok {
			return "full:" + key
		}
		return "partial"
	}
	before := J{"src": snapshot(src, originals), "dst": snapshot(dst, originals), "out": snapshot(outside, originals), "sub": snapshot(filepath.Join(src, "sub"), originals)}
	w := newWatcher(map[string]string{"src": src, "dst": dst, "out": outside, "sub": filepath.Join(src, "sub")})
	var operr error
	panicked := false
	func() {
		defer func() {
			if r := recover(); r != nil {
				panicked = true
			}
		}()
		switch op {
		case "copy":
			operr = h.Copy(dst)
		case "move":
			operr = h.Move(dst)
		case "remove":
			operr = h.Remove()
		}
	}()
	events := w.drain()
	w.close()
	hd := "other"
	switch filepath.Clean(*filename) {
	case filepath.Join(dst, ctlName):
		hd = "dst"
	case ctlPath:
		hd = "src"
	}
	out.Put(J{"ev": "up", "in": vec, "ctl": ctlName, "bases": bases, "events": events, "err": operr != nil, "panic": panicked,
		"handle": hd, "hook_fired": hookFired, "before": before, "dst_self": selfState(dst),
		"after": J{"src": snapshot(src, originals), "dst": snapshot(dst, originals), "out": snapshot(outside, originals), "sub": snapshot(filepath.Join(src, "sub"), originals)}})
}

// otherFilesystemDir: a fresh directory on a filesystem other than the one `here` is on ("" if there is none).
func otherFilesystemDir(here string) string {
	var a syscall.Stat_t
	if syscall.Stat(here, &a) != nil {
		return ""
	}
	for _, cand := range []string{"/dev/shm", "/run/shm", "/run", "/var/tmp", "/tmp"} {
		var b syscall.Stat_t
		if syscall.Stat(cand, &b) != nil || b.Dev == a.Dev {
			continue
		}
		d, err := os.MkdirTemp(cand, "verif-xdev-")
		if err == nil {
			return d
		}
	}
	return ""
}
