package main

import (
	"encoding/json"
	"fmt"
	"math/rand"
	"sort"
	"strconv"
	"strings"
	"time"

	"pault.ag/go/debian/version"
)

func init() {
	props["C01"] = &prop{gen: genC01, exec: execVersion}
	props["C02"] = &prop{gen: genC02, exec: execVersion}
	props["C03"] = &prop{gen: genC03, exec: execVersion}
}

// ---- projection --------------------------------------------------------

func verToJ(v version.Version) J {
	return J{"e": B(strconv.FormatUint(uint64(v.Epoch), 10)), "u": B(v.Version), "r": B(v.Revision)}
}

func verFromJ(j J) version.Version {
	e, err := strconv.ParseUint(S(j["e"]), 10, 64)
	if err != nil && S(j["e"]) != "" {
		die("bad epoch in vector: %q", S(j["e"]))
	}
	return version.Version{Epoch: uint(e), Version: S(j["u"]), Revision: S(j["r"])}
}

func sign(n int) int {
	if n < 0 {
		return -1
	}
	if n > 0 {
		return 1
	}
	return 0
}

type parseObs struct {
	ok bool
	v  version.Version
}

func (p parseObs) J() J {
	if !p.ok {
		return J{"ok": false, "v": verToJ(version.Version{})}
	}
	return J{"ok": true, "v": verToJ(p.v)}
}

func obsParse(s string) parseObs {
	v, err := version.Parse(s)
	return parseObs{ok: err == nil, v: v}
}

// ---- executor -----------------------------------------------------------

func execVersion(vec J, out *Writer) {
	switch vec["k"].(string) {
	case "allpairs":
		// every ordered pair of the domain, as upstream parts and as revisions
		dom := L(vec["dom"])
		out.Put(J{"ev": "dom", "in": J{"k": "dom"}, "dom": dom})
		domline := out.n
		strs := make([]string, len(dom))
		for i, d := range dom {
			strs[i] = S(d)
		}
		for i, a := range strs {
			su := make([]int, len(strs))
			sr := make([]int, len(strs))
			for k, b := range strs {
				su[k] = sign(version.Compare(version.Version{Version: a}, version.Version{Version: b}))
				sr[k] = sign(version.Compare(version.Version{Version: "1", Revision: a}, version.Version{Version: "1", Revision: b}))
			}
			out.Put(J{"ev": "row", "in": J{"k": "row", "a": dom[i]}, "domline": domline, "su": su, "sr": sr})
		}
	case "row":
		// replay form of one row of "allpairs"
		dom := L(vec["dom"])
		out.Put(J{"ev": "dom", "in": J{"k": "dom"}, "dom": dom})
		domline := out.n
		a := S(vec["a"])
		su := make([]int, len(dom))
		sr := make([]int, len(dom))
		for k, d := range dom {
			b := S(d)
			su[k] = sign(version.Compare(version.Version{Version: a}, version.Version{Version: b}))
			sr[k] = sign(version.Compare(version.Version{Version: "1", Revision: a}, version.Version{Version: "1", Revision: b}))
		}
		out.Put(J{"ev": "row", "in": J{"k": "row", "a": vec["a"]}, "domline": domline, "su": su, "sr": sr})
	case "cmp":
		a, b := verFromJ(M(vec["a"])), verFromJ(M(vec["b"]))
		rec := J{"ev": "cmp", "in": vec,
			"sign": sign(version.Compare(a, b)), "sign_ba": sign(version.Compare(b, a)),
			"less": version.Slice{a, b}.Less(0, 1), "less_ba": version.Slice{a, b}.Less(1, 0)}
		// the same comparison on values that went through the parser
		pa, pb := obsParse(a.String()), obsParse(b.String())
		if pa.ok && pb.ok && pa.v == a && pb.v == b {
			rec["parsed"] = J{"some": true, "sign": sign(version.Compare(pa.v, pb.v))}
		} else {
			rec["parsed"] = J{"some": false, "sign": 0}
		}
		out.Put(rec)
	case "cmp_text":
		// two version TEXTS: parse both (decimal epochs with leading zeros, surrounding blanks ...) and compare
		pa, pb := obsParse(S(vec["ta"])), obsParse(S(vec["tb"]))
		rec := J{"ev": "cmp_text", "in": vec, "ok_a": pa.ok, "ok_b": pb.ok, "sign": 0, "sign_ba": 0, "sign_reused": 0}
		if pa.ok && pb.ok {
			rec["sign"] = sign(version.Compare(pa.v, pb.v))
			rec["sign_ba"] = sign(version.Compare(pb.v, pa.v))
			// the same two texts decoded into variables that held the OTHER version before: what is compared is what
			// the text says, whatever the variable held
			var x, y version.Version
			ex1, ey1 := x.UnmarshalControl(S(vec["tb"])), y.UnmarshalControl(S(vec["ta"]))
			ex2, ey2 := x.UnmarshalControl(S(vec["ta"])), y.UnmarshalControl(S(vec["tb"]))
			if ex1 == nil && ey1 == nil && ex2 == nil && ey2 == nil {
				rec["sign_reused"] = sign(version.Compare(x, y))
			} else {
				rec["sign_reused"] = 99
			}
		}
		out.Put(rec)
	case "triple":
		vs := L(vec["vs"])
		vv := make([]version.Version, len(vs))
		for i := range vs {
			vv[i] = verFromJ(M(vs[i]))
		}
		signs := [][]int{}
		for i := range vv {
			row := []int{}
			for k := range vv {
				row = append(row, sign(version.Compare(vv[i], vv[k])))
			}
			signs = append(signs, row)
		}
		out.Put(J{"ev": "triple", "in": vec, "signs": signs})
	case "sort":
		vs := L(vec["vs"])
		vv := make(version.Slice, len(vs))
		for i := range vs {
			vv[i] = verFromJ(M(vs[i]))
		}
		done := make(chan bool, 1)
		died := make(chan string, 1)
		go func() {
			defer func() {
				if r := recover(); r != nil {
					died <- fmt.Sprint(r)
				}
			}()
			sort.Sort(vv)
			done <- true
		}()
		terminated := false
		select {
		case <-done:
			terminated = true
		case msg := <-died:
			// the comparison panicked inside sort.Sort (a goroutine of its own: the exec loop's guard cannot see it)
			out.Put(J{"ev": "crash", "in": vec, "kind": "panic", "msg": B(msg)})
			return
		case <-time.After(10 * time.Second):
		}
		outl := make([]J, 0, len(vv))
		if terminated {
			for _, v := range vv {
				outl = append(outl, verToJ(v))
			}
		}
		out.Put(J{"ev": "sort", "in": vec, "out": outl, "terminated": terminated})
	case "parse":
		s := S(vec["s"])
		p := obsParse(s)
		rec := J{"ev": "parse", "in": vec, "res": p.J()}
		// UnmarshalControl / UnmarshalText must agree with Parse
		var vc, vt version.Version
		errc := vc.UnmarshalControl(s)
		errt := vt.UnmarshalText([]byte(s))
		rec["res_control"] = parseObs{ok: errc == nil, v: vc}.J()
		rec["res_text"] = parseObs{ok: errt == nil, v: vt}.J()
		// the caller's buffer is the caller's: what was parsed from it does not change when the buffer is used again
		var va version.Version
		buf := []byte(s)
		erra := va.UnmarshalText(buf)
		for i := range buf {
			buf[i] = '7'
		}
		rec["res_text_after"] = parseObs{ok: erra == nil, v: va}.J()
		// the same calls on receivers that already hold another version (a decoder loop reuses its struct)
		dc := version.Version{Epoch: 7, Version: "9.9", Revision: "8"}
		dt := dc
		errdc := dc.UnmarshalControl(s)
		errdt := dt.UnmarshalText([]byte(s))
		rec["dirty_control"] = parseObs{ok: errdc == nil, v: dc}.J()
		rec["dirty_text"] = parseObs{ok: errdt == nil, v: dt}.J()
		rt := J{}
		if p.ok {
			v := p.v
			str := v.String()
			rt["string"] = J{"r": B(str), "ok": true, "back": obsParse(str).J()}
			ctl, cerr := v.MarshalControl()
			var back version.Version
			berr := back.UnmarshalControl(ctl)
			rt["control"] = J{"r": B(ctl), "ok": cerr == nil, "back": parseObs{ok: berr == nil, v: back}.J()}
			txt, terr := v.MarshalText()
			var backt version.Version
			bterr := backt.UnmarshalText(txt)
			rt["text"] = J{"r": BB(txt), "ok": terr == nil, "back": parseObs{ok: bterr == nil, v: backt}.J()}
			js, jerr := json.Marshal(&v)
			var backj version.Version
			bjerr := json.Unmarshal(js, &backj)
			rt["json"] = J{"r": BB(js), "ok": jerr == nil, "back": parseObs{ok: bjerr == nil, v: backj}.J()}
		}
		rec["rt"] = rt
		out.Put(rec)
	default:
		die("version: unknown vector kind %v", vec["k"])
	}
}

// ---- generators (inputs larger than the TLC-exhaustive bound) -----------

const partAlphabet = "0123456789abzAZ.+~"

func randPart(r *rand.Rand, max int, extra string) string {
	n := r.Intn(max + 1)
	var sb strings.Builder
	alpha := partAlphabet + extra
	for sb.Len() < n {
		switch r.Intn(6) {
		case 0: // long digit run with leading zeros
			for k := r.Intn(4); k > 0; k-- {
				sb.WriteByte('0')
			}
			for k := 1 + r.Intn(20); k > 0; k-- {
				sb.WriteByte(byte('0' + r.Intn(10)))
			}
		case 1:
			sb.WriteByte('~')
		default:
			sb.WriteByte(alpha[r.Intn(len(alpha))])
		}
	}
	s := sb.String()
	if len(s) > max {
		s = s[:max]
	}
	return s
}

func mutate(r *rand.Rand, s string, alpha string) string {
	if len(s) == 0 || r.Intn(4) == 0 {
		pos := 0
		if len(s) > 0 {
			pos = r.Intn(len(s) + 1)
		}
		return s[:pos] + string(alpha[r.Intn(len(alpha))]) + s[pos:]
	}
	pos := r.Intn(len(s))
	switch r.Intn(3) {
	case 0:
		return s[:pos] + s[pos+1:]
	case 1:
		return s[:pos] + string(alpha[r.Intn(len(alpha))]) + s[pos+1:]
	default: // zero-padding / tilde next to a digit run
		return s[:pos] + []string{"0", "~", "00", "."}[r.Intn(4)] + s[pos:]
	}
}

func randVer(r *rand.Rand) J {
	e := ""
	switch r.Intn(4) {
	case 0:
		e = strconv.Itoa(r.Intn(3))
	case 1:
		e = strconv.Itoa(r.Intn(1000000000))
	default:
		e = "0"
	}
	u := "1" + randPart(r, 24, "-:")
	rev := ""
	if r.Intn(2) == 0 {
		rev = randPart(r, 12, "")
	}
	return J{"e": B(e), "u": B(u), "r": B(rev)}
}

func mutVer(r *rand.Rand, v J) J {
	w := J{"e": v["e"], "u": v["u"], "r": v["r"]}
	switch r.Intn(5) {
	case 0:
		w["e"] = B(strconv.Itoa(r.Intn(3)))
	case 1, 2:
		w["u"] = B(mutate(r, S(v["u"]), partAlphabet))
	case 3:
		w["r"] = B(mutate(r, S(v["r"]), partAlphabet))
	case 4: // equal-but-differently-spelled candidates
		switch r.Intn(3) {
		case 0:
			if S(v["r"]) == "" {
				w["r"] = B("0")
			} else {
				w["r"] = B("")
			}
		case 1:
			w["u"] = B(S(v["u"]) + "0")
		case 2:
			w["u"] = B(strings.Replace(S(v["u"]), "1", "01", 1))
		}
	}
	return w
}

var realVersions = []string{"2:1.2.3+dfsg-1~bpo9+1", "1.0~rc1", "1.0", "1.0+b1", "1.0-0", "1.00", "1.0~", "0:1.0",
	"2.36.1-8+deb11u1", "1:9.18.19-1~deb12u1", "5.10.0-26.7", "20230311", "0.0~git20210101.abcdef-3", "1.2.3-1ubuntu0.22.04.1"}

func realVer(s string) J {
	v, err := version.Parse(s)
	if err != nil {
		return J{"e": B("0"), "u": B(s), "r": B("")}
	}
	return verToJ(v)
}

func genC01(seed int64, tier string, out *Writer) {
	r := rand.New(rand.NewSource(seed))
	n := 20000
	if tier == "thorough" {
		n = 300000
	}
	for _, a := range realVersions {
		for _, b := range realVersions {
			out.Put(J{"k": "cmp", "a": realVer(a), "b": realVer(b)})
		}
	}
	for i := 0; i < n; i++ {
		a := randVer(r)
		var b J
		if r.Intn(5) == 0 {
			b = randVer(r)
		} else {
			b = mutVer(r, a)
			for k := r.Intn(3); k > 0; k-- {
				b = mutVer(r, b)
			}
		}
		out.Put(J{"k": "cmp", "a": a, "b": b})
	}
}

func genC02(seed int64, tier string, out *Writer) {
	r := rand.New(rand.NewSource(seed))
	nt, ns := 3000, 1000
	if tier == "thorough" {
		nt, ns = 60000, 20000
	}
	for i := 0; i < nt; i++ {
		a := randVer(r)
		if r.Intn(3) == 0 {
			a = realVer(realVersions[r.Intn(len(realVersions))])
		}
		b := mutVer(r, a)
		c := mutVer(r, []J{a, b}[r.Intn(2)])
		out.Put(J{"k": "triple", "vs": []J{a, b, c}})
	}
	for i := 0; i < ns; i++ {
		n := r.Intn(13)
		vs := []J{}
		base := randVer(r)
		for k := 0; k < n; k++ {
			switch r.Intn(4) {
			case 0:
				base = randVer(r)
				vs = append(vs, base)
			case 1:
				vs = append(vs, realVer(realVersions[r.Intn(len(realVersions))]))
			default:
				vs = append(vs, mutVer(r, base))
			}
		}
		out.Put(J{"k": "sort", "vs": vs})
	}
}

func genC03(seed int64, tier string, out *Writer) {
	r := rand.New(rand.NewSource(seed))
	n := 8000
	if tier == "thorough" {
		n = 150000
	}
	near := " \t\n:-_/!aZ0~+.\x00\xc2\xa0é`@[{^,;=*" // incl. the neighbours of the letter and digit ranges: / : @ [ ` {
	for _, s := range realVersions {
		out.Put(J{"k": "parse", "s": B(s)})
	}
	for i := 0; i < n; i++ {
		// a grammar-derived version in one of its textual renderings ...
		e := ""
		switch r.Intn(5) {
		case 0:
			e = strconv.Itoa(r.Intn(4)) + ":"
		case 1:
			e = strings.Repeat("0", r.Intn(3)) + strconv.Itoa(r.Intn(1000000000)) + ":"
		case 2:
			e = strconv.FormatUint(r.Uint64()>>uint(r.Intn(40)), 10) + ":"
		}
		extra := ""
		rev := ""
		if r.Intn(2) == 0 {
			rev = "-" + randPart(r, 8, "")
			extra = "-"
		}
		if e != "" {
			extra += ":"
		}
		s := e + strconv.Itoa(r.Intn(10)) + randPart(r, 16, extra) + rev
		switch r.Intn(8) {
		case 0:
			s = " " + s
		case 1:
			s = s + "\n"
		case 2:
			s = "\t " + s + "  "
		case 3: // every kind of surrounding white space: CR LF of a DOS file, VT, FF
			ws := []string{"\r\n", "\r", "\v", "\f", " \r\n", "\n\r", "\t\v"}
			s = s + ws[r.Intn(len(ws))]
		case 4:
			ws := []string{"\r", "\v", "\f", "\r\n\t", "\f "}
			s = ws[r.Intn(len(ws))] + s + ws[r.Intn(len(ws))]
		}
		out.Put(J{"k": "parse", "s": B(s)})
		// ... and near-miss edits of it
		for k := 0; k < 2; k++ {
			out.Put(J{"k": "parse", "s": B(mutate(r, s, near))})
		}
	}
}
