package main

import (
	"bufio"
	"bytes"
	"crypto/sha256"
	"encoding/hex"
	"fmt"
	"math/rand"
	"sort"
	"strings"
	"sync"
	"sync/atomic"
	"time"
	_ "time/tzdata"

	"pault.ag/go/debian/changelog"
	"pault.ag/go/debian/control"
	"pault.ag/go/debian/dependency"
	"pault.ag/go/debian/version"
)

func init() {
	props["C18"] = &prop{gen: genC18, exec: execC18}
}

// one parser entry point: outcome = (kind, digest of the projected value, "nothing usable came with the error")
type entry func(in []byte) (kind string, digest string, nilOnErr bool)

func dg(v interface{}) string {
	sum := sha256.Sum256([]byte(fmt.Sprintf("%#v", v)))
	return hex.EncodeToString(sum[:8])
}

func projParas(ps []control.Paragraph) interface{} {
	out := []interface{}{}
	for _, p := range ps {
		keys := []string{}
		for k := range p.Values {
			keys = append(keys, k)
		}
		sort.Strings(keys)
		vals := []string{}
		for _, k := range keys {
			vals = append(vals, k+"="+p.Values[k])
		}
		out = append(out, []interface{}{p.Order, vals})
	}
	return out
}

var entries = map[string]entry{
	// two version texts separated by a blank: parsed and COMPARED (the comparison is a call like any other: total,
	// deterministic, free of shared state - also when it is the first thing a process does, on many goroutines at once)
	"compare": func(in []byte) (string, string, bool) {
		parts := strings.SplitN(string(in), " ", 2)
		if len(parts) != 2 {
			return "error", "", true
		}
		a, err1 := version.Parse(parts[0])
		b, err2 := version.Parse(parts[1])
		if err1 != nil || err2 != nil {
			return "error", "", true
		}
		return "value", dg([]int{version.Compare(a, b), version.Compare(b, a)}), true
	},
	"version": func(in []byte) (string, string, bool) {
		v, err := version.Parse(string(in))
		if err != nil {
			return "error", "", true
		}
		return "value", dg(v), true
	},
	"arch": func(in []byte) (string, string, bool) {
		a, err := dependency.ParseArch(string(in))
		if err != nil {
			return "error", "", true
		}
		return "value", dg(*a), true
	},
	"dependency": func(in []byte) (string, string, bool) {
		d, err := dependency.Parse(string(in))
		if err != nil {
			return "error", "", d == nil
		}
		return "value", dg(depJ(d)), true
	},
	"paragraphs": func(in []byte) (string, string, bool) {
		r, err := control.NewParagraphReader(bytes.NewReader(in), nil)
		if err != nil {
			return "error", "", r == nil
		}
		ps, err := r.All()
		if err != nil {
			return "error", "", len(ps) == 0
		}
		return "value", dg(projParas(ps)), true
	},
	"dsc": func(in []byte) (string, string, bool) {
		d, err := control.ParseDsc(bufio.NewReader(bytes.NewReader(in)), "/x/y.dsc")
		if err != nil {
			return "error", "", d == nil
		}
		f, a := flatDSC(d)
		return "value", dg([]interface{}{f, a}), true
	},
	"changes": func(in []byte) (string, string, bool) {
		c, err := control.ParseChanges(bufio.NewReader(bytes.NewReader(in)), "/x/y.changes")
		if err != nil {
			return "error", "", true // (a partially filled *Changes comes back with the error; by Go convention it is not usable)
		}
		f, a := flatChanges(c)
		return "value", dg([]interface{}{f, a}), true
	},
	"control": func(in []byte) (string, string, bool) {
		c, err := control.ParseControl(bufio.NewReader(bytes.NewReader(in)), "/x/debian/control")
		if err != nil {
			return "error", "", c == nil
		}
		out := []interface{}{}
		f, a := flatSrcPara(&c.Source)
		out = append(out, f, a)
		for i := range c.Binaries {
			f, _ := flatBinPara(&c.Binaries[i])
			out = append(out, f)
		}
		return "value", dg(out), true
	},
	"packages": func(in []byte) (string, string, bool) {
		l, err := control.ParseBinaryIndex(bufio.NewReader(bytes.NewReader(in)))
		if err != nil {
			return "error", "", true
		}
		out := []interface{}{}
		for i := range l {
			f, a := flatPackages(&l[i])
			out = append(out, f, a)
		}
		return "value", dg(out), true
	},
	"sources": func(in []byte) (string, string, bool) {
		l, err := control.ParseSourceIndex(bufio.NewReader(bytes.NewReader(in)))
		if err != nil {
			return "error", "", true
		}
		out := []interface{}{}
		for i := range l {
			f, _ := flatSources(&l[i])
			out = append(out, f)
		}
		return "value", dg(out), true
	},
	"changelog": func(in []byte) (string, string, bool) {
		es, err := changelog.Parse(bytes.NewReader(in))
		if err != nil {
			return "error", "", len(es) == 0
		}
		return "value", dg(idsOf(es)), true
	},
}

// reuseEntries: the document is decoded TWICE into one variable (a Decoder loop meets the same stanza again); the
// outcome must be the outcome of decoding it once
var reuseEntries = map[string]entry{
	"dsc": func(in []byte) (string, string, bool) {
		d := &control.DSC{Filename: "/x/y.dsc"}
		if err := control.Unmarshal(d, bytes.NewReader(in)); err != nil {
			return "error", "", true
		}
		if err := control.Unmarshal(d, bytes.NewReader(in)); err != nil {
			return "error", "", true
		}
		f, a := flatDSC(d)
		return "value", dg([]interface{}{f, a}), true
	},
	"changes": func(in []byte) (string, string, bool) {
		c := &control.Changes{Filename: "/x/y.changes"}
		if err := control.Unmarshal(c, bytes.NewReader(in)); err != nil {
			return "error", "", true
		}
		if err := control.Unmarshal(c, bytes.NewReader(in)); err != nil {
			return "error", "", true
		}
		f, a := flatChanges(c)
		return "value", dg([]interface{}{f, a}), true
	},
}

// keptEntries: the Decoder-loop idiom with the values KEPT - the document is decoded into a variable, the value is
// copied, ANOTHER document is decoded into the same variable; the copy must still be the outcome of decoding the
// first document alone (nothing a later decode writes may reach into an earlier result)
const otherDsc = "Format: 1.0\nSource: zz\nBinary: z1\nArchitecture: all\nVersion: 9\nMaintainer: Z <z@z>\nUploaders: Y <y@y>\nBuild-Depends: zlib1g-dev, perl\nBuild-Depends-Indep: zip\nChecksums-Sha256:\n 0000000000000000000000000000000000000000000000000000000000000000 7 zz_9.tar.gz\nFiles:\n 00000000000000000000000000000000 7 zz_9.tar.gz\n"
const otherChanges = "Format: 1.8\nSource: zz\nBinary: z1\nArchitecture: all\nVersion: 9\nDistribution: experimental\nUrgency: high\nMaintainer: Z <z@z>\nChanged-By: Z <z@z>\nCloses: 9\nChanges:\n zz\nFiles:\n 00000000000000000000000000000000 7 misc extra zz_9.dsc\n"

var keptEntries = map[string]entry{
	// the caller's own *bufio.Reader: handed to Parse, re-targeted by the caller (Reset) and handed to Parse again, with
	// an unrelated Parse in between - the reader is the caller's, and the second answer is the first
	"changelog": func(in []byte) (string, string, bool) {
		own := bufio.NewReader(bytes.NewReader(in))
		if _, err := changelog.Parse(own); err != nil {
			return "error", "", true
		}
		var died int32
		others := func() {
			// unrelated parses, many at once (whatever the library pools is in circulation then)
			var wg sync.WaitGroup
			for i := 0; i < 32; i++ {
				wg.Add(1)
				go func() {
					defer wg.Done()
					defer func() {
						if r := recover(); r != nil {
							atomic.StoreInt32(&died, 1)
						}
					}()
					for j := 0; j < 4; j++ {
						changelog.Parse(strings.NewReader(seedsC18["changelog"][2]))
					}
				}()
			}
			wg.Wait()
		}
		others()
		own.Reset(bytes.NewReader(in))
		others()
		if atomic.LoadInt32(&died) != 0 {
			return "panic", "a parse running beside others panicked", true
		}
		es, err := changelog.Parse(own)
		if err != nil {
			return "error", "", len(es) == 0
		}
		return "value", dg(idsOf(es)), true
	},
	"dsc": func(in []byte) (string, string, bool) {
		d := &control.DSC{Filename: "/x/y.dsc"}
		if err := control.Unmarshal(d, bytes.NewReader(in)); err != nil {
			return "error", "", true
		}
		first := *d
		if err := control.Unmarshal(d, strings.NewReader(otherDsc)); err != nil {
			return "error", "other", true
		}
		f, a := flatDSC(&first)
		return "value", dg([]interface{}{f, a}), true
	},
	"changes": func(in []byte) (string, string, bool) {
		c := &control.Changes{Filename: "/x/y.changes"}
		if err := control.Unmarshal(c, bytes.NewReader(in)); err != nil {
			return "error", "", true
		}
		first := *c
		if err := control.Unmarshal(c, strings.NewReader(otherChanges)); err != nil {
			return "error", "other", true
		}
		f, a := flatChanges(&first)
		return "value", dg([]interface{}{f, a}), true
	},
}

func guarded(e entry, in []byte, seconds int) (kind, digest string, nilOnErr bool) {
	type res struct {
		k, d string
		n    bool
	}
	ch := make(chan res, 1)
	go func() {
		defer func() {
			if r := recover(); r != nil {
				ch <- res{"panic", fmt.Sprint(r), true}
			}
		}()
		k, d, n := e(in)
		ch <- res{k, d, n}
	}()
	select {
	case r := <-ch:
		return r.k, r.d, r.n
	case <-time.After(time.Duration(seconds) * time.Second):
		hangs++ // the exec loop cuts the run short after maxHangs
		return "timeout", "", true
	}
}

// ---- seeds: grammar-derived documents per entry point -----------------------------

// inputs that begin like OpenPGP armor but hold no complete clearsigned block: the paragraph and typed-document
// parsers (called without a keyring) must answer with an error or with plain paragraphs, never die
var pgpPrefixed = []string{
	"-----BEGIN PGP MESSAGE-----\n",
	"-----BEGIN PGP SIGNED MESSAGE-----\n",
	"-----BEGIN PGP SIGNED MESSAGE-----\nHash: SHA256\n\nPackage: a\nVersion: 1\n",
	"-----BEGIN PGP SIGNED MESSAGE-----\nHash: SHA256\n\nPackage: a\n-----BEGIN PGP SIGNATURE-----\n\nAAAA\n",
	"-----BEGIN PGP SIGNATURE-----\n\niQ==\n-----END PGP SIGNATURE-----\n",
	"-----BEGIN PGP ",
	"-----BEGIN PGP SIGNED MESSAGE-----",
}

var seedsC18 = map[string][]string{
	"compare":    {"1.0~rc1 1.0", "1.0z 1.0y", "2:1.0+b1-1 2:1.0-1", "1.0.a 1.0+a", "1:2.3.4+dfsg-1~bpo9+1 1:2.3.4+dfsg-1"},
	"version":    {"1:2.3.4+dfsg-1~bpo9+1", "1.0", "0:0-0", "2.36.1-8+deb11u1"},
	"arch":       {"amd64", "linux-any", "any", "all", "musl-linux-armhf"},
	"dependency": {"foo (>= 1.0) [amd64 i386] <stage1 !cross> | bar:any, ${misc:Depends}, baz [!hurd-any]", "a, b | c"},
	"paragraphs": {"Package: a\nDepends: b,\n c\nDescription: x\n long\n .\n more\n\nPackage: second\n"},
	"dsc":        {"Format: 3.0 (quilt)\nSource: pkg\nBinary: a, b\nArchitecture: any all\nVersion: 1.0-1\nMaintainer: A <a@b>\nUploaders: B <b@c>, C <c@d>\nBuild-Depends: debhelper (>= 9), x | y\nChecksums-Sha256:\n e3b0c44298fc1c149afbf4c8996fb92427ae41e4649b934ca495991b7852b855 0 pkg_1.0.orig.tar.gz\nFiles:\n d41d8cd98f00b204e9800998ecf8427e 0 pkg_1.0.orig.tar.gz\n"},
	"changes":    {"Format: 1.8\nSource: pkg\nBinary: a b\nArchitecture: source amd64\nVersion: 1.0-1\nDistribution: unstable\nUrgency: low\nMaintainer: A <a@b>\nChanged-By: A <a@b>\nCloses: 1 2\nChanges:\n pkg (1.0-1) unstable; urgency=low\n .\n   * x\nFiles:\n d41d8cd98f00b204e9800998ecf8427e 0 utils optional pkg_1.0-1.dsc\n"},
	"control":    {"Source: pkg\nMaintainer: A <a@b>\nUploaders: B <b@c>,\n C <c@d>\nBuild-Depends: debhelper (>= 9)\n\nPackage: pkg\nArchitecture: any\nDepends: ${shlibs:Depends}, x\nDescription: short\n long\n\nPackage: pkg-doc\nArchitecture: all\nDescription: docs\n"},
	"packages":   {"Package: pkg\nVersion: 1.0-1\nInstalled-Size: 42\nArchitecture: amd64\nDepends: libc6 (>= 2.4)\nTag: a::b, c::d\nSize: 100\nDescription: short\n\nPackage: second\nVersion: 2\nArchitecture: all\n"},
	"sources":    {"Package: pkg\nBinary: a, b\nVersion: 1.0-1\nArchitecture: any\nStandards-Version: 4.6.0\nBuild-Depends: debhelper\nFiles:\n d41d8cd98f00b204e9800998ecf8427e 0 pkg_1.0.dsc\n"},
	"changelog": {"hello (1.0-1) unstable; urgency=low\n\n  * Old style date.\n\n -- A B <a@b.org>  Mon, 22 Mar 1999 19:05:22 CET\n",
		"hello (1.0-2) unstable; urgency=low\n\n  * x\n\n -- A B <a@b.org>  Mon, 22 Mar 1999 19:05:22 NST\n\nhello (1.0-1) unstable; urgency=low\n\n  * y\n\n -- A B <a@b.org>  Mon, 22 Mar 1999 19:05:22 IST\n",
		"hello (2.10-1) unstable; urgency=low\n\n  * Initial release.\n\n -- A B <a@b.org>  Mon, 02 Jan 2006 15:04:05 -0700\n\nhello (2.9-1) unstable; urgency=low\n\n  * Older.\n\n -- A B <a@b.org>  Sun, 01 Jan 2006 15:04:05 +0000\n"},
}

func entryNames() []string {
	n := []string{}
	for k := range entries {
		n = append(n, k)
	}
	sort.Strings(n)
	return n
}

func mutateBytes(r *rand.Rand, s string) string {
	alpha := " \n\t:,|()[]<>${}=-~+.#0aZ\r\x00\xff"
	b := []byte(s)
	for k := 1 + r.Intn(4); k > 0; k-- {
		if len(b) == 0 {
			b = append(b, alpha[r.Intn(len(alpha))])
			continue
		}
		pos := r.Intn(len(b))
		switch r.Intn(5) {
		case 0:
			b = append(b[:pos], b[pos+1:]...)
		case 1:
			b = append(b[:pos], append([]byte{alpha[r.Intn(len(alpha))]}, b[pos:]...)...)
		case 2:
			b[pos] = alpha[r.Intn(len(alpha))]
		case 3:
			b = b[:pos]
		case 4: // duplicate a block
			end := pos + r.Intn(len(b)-pos+1)
			b = append(b[:end], append(append([]byte{}, b[pos:end]...), b[end:]...)...)
		}
	}
	return string(b)
}

// bigInput grows a seed towards 64 KiB by repetition and mutation
func bigInput(r *rand.Rand, seed string, target int) string {
	var sb strings.Builder
	for sb.Len() < target {
		if r.Intn(3) == 0 {
			sb.WriteString(mutateBytes(r, seed))
		} else {
			sb.WriteString(seed)
		}
		if r.Intn(2) == 0 {
			sb.WriteString("\n")
		}
	}
	s := sb.String()
	if len(s) > 65536 {
		s = s[:65536]
	}
	return s
}

func genC18(seed int64, tier string, out *Writer) {
	r := rand.New(rand.NewSource(seed))
	n := 150
	if tier == "thorough" {
		n = 4000
	}
	for _, name := range entryNames() {
		// armor-like prefixes, alone and in front of a valid document, and cut at every length of the first line
		for _, pre := range pgpPrefixed {
			out.Put(J{"k": "seq", "entry": name, "input": B(pre)})
			out.Put(J{"k": "seq", "entry": name, "input": B(pre + seedsC18[name][0])})
		}
		for cut := 1; cut <= len(pgpPrefixed[1]); cut += 3 {
			out.Put(J{"k": "seq", "entry": name, "input": B(pgpPrefixed[1][:cut])})
		}
		// documents in which a field is spelled twice in other letter cases and not in its own (for the document kinds)
		if strings.Contains(seedsC18[name][0], ": ") {
			first := seedsC18[name][0]
			key := first[:strings.Index(first, ":")]
			rest := first[strings.Index(first, "\n")+1:]
			for _, variant := range []string{
				strings.ToLower(key) + ": alpha\n" + strings.ToUpper(key) + ": beta\n" + rest,
				strings.ToUpper(key) + ": 1\n" + strings.ToLower(key) + ": 2\n" + strings.Title(strings.ToLower(key)) + "x: 3\n" + rest,
			} {
				out.Put(J{"k": "seq", "entry": name, "input": B(variant), "repeat": 24})
			}
		}
		// field by field: every field of the seed document emptied, removed, and given a value of another type - one vector
		// per field and replacement, so that every branch of the typed decoder meets an empty and an ill-typed value
		if strings.Contains(seedsC18[name][0], ": ") || strings.Contains(seedsC18[name][0], ":\n") {
			lines := strings.SplitAfter(seedsC18[name][0], "\n")
			for i, ln := range lines {
				c := strings.Index(ln, ":")
				if c <= 0 || ln[0] == ' ' || ln[0] == '\t' {
					continue
				}
				for _, val := range []string{"", " ", " x", " -1", " 99999999999999999999", " yes", " 0x10", " 1 2", " ,", " \t"} {
					out.Put(J{"k": "seq", "entry": name, "input": B(strings.Join(lines[:i], "") + ln[:c+1] + val + "\n" + strings.Join(lines[i+1:], ""))})
				}
				out.Put(J{"k": "seq", "entry": name, "input": B(strings.Join(lines[:i], "") + strings.Join(lines[i+1:], ""))})
			}
		}
		for i := 0; i < n; i++ {
			sd := seedsC18[name][r.Intn(len(seedsC18[name]))]
			var in string
			switch r.Intn(8) {
			case 0:
				in = sd
			case 1:
				in = randBytes(r, r.Intn(64), " \n:,|()[]<>${}-~+.0aZ\t")
			case 2:
				in = bigInput(r, sd, 1000+r.Intn(64536))
			default:
				in = mutateBytes(r, sd)
			}
			out.Put(J{"k": "seq", "entry": name, "input": B(in)})
		}
	}
	out.Put(J{"k": "recheck"})
	out.Put(J{"k": "conc", "goroutines": 16, "calls": map[string]int{"quick": 150, "thorough": 2000}[tier], "seed": seed})
}

type seenCall struct {
	entry  string
	input  []byte
	kind   string
	digest string
}

var seenCalls []seenCall

func execC18(vec J, out *Writer) {
	switch vec["k"].(string) {
	case "recheck":
		// history independence: every call made so far is made again, in reverse order, after all the other
		// inputs went through the library; the outcome must be the one observed the first time
		for i := len(seenCalls) - 1; i >= 0; i-- {
			c := seenCalls[i]
			k2, d2, n2 := guarded(entries[c.entry], c.input, 10)
			lean := J{"k": "seq", "entry": c.entry, "input": BB(c.input), "recheck": true}
			out.Put(J{"ev": "call", "in": lean, "len": len(c.input), "kind": c.kind, "digest": c.digest, "nil_on_error": n2, "kind2": k2, "digest2": d2})
		}
	case "seq":
		name := vec["entry"].(string)
		in := []byte(S(vec["input"]))
		k1, d1, n1 := guarded(entries[name], in, 10)
		k2, d2, _ := guarded(entries[name], in, 10)
		// a second decode of the same bytes into the struct that already holds the first result must give the first result
		if re, ok := reuseEntries[name]; ok && k1 == "value" && k2 == k1 && d2 == d1 {
			k2, d2, _ = guarded(re, in, 10)
		}
		// ... and a copy of the first result must not change when another document is decoded into the same variable
		if ke, ok := keptEntries[name]; ok && k1 == "value" && k2 == k1 && d2 == d1 {
			k2, d2, _ = guarded(ke, in, 10)
		}
		// the same call with the process in another time zone (time.Local swapped): the outcome depends on the input only
		if k2 == k1 && d2 == d1 {
			saved := time.Local
			for _, z := range []string{"Europe/Berlin", "America/St_Johns", "Asia/Kolkata"} {
				if loc, err := time.LoadLocation(z); err == nil {
					time.Local = loc
					k2, d2, _ = guarded(entries[name], in, 10)
					if k2 != k1 || d2 != d1 {
						break
					}
				}
			}
			time.Local = saved
		}
		// `repeat`: the same call many more times; the first outcome that differs from the first call is what is logged
		for i := 2; i < I0(vec["repeat"]) && k2 == k1 && d2 == d1; i++ {
			k2, d2, _ = guarded(entries[name], in, 10)
		}
		if len(in) <= 4096 {
			seenCalls = append(seenCalls, seenCall{name, in, k1, d1})
		}
		lean := J{"k": "seq", "entry": name}
		if len(in) <= 256 {
			lean["input"] = vec["input"]
		} else {
			lean["input_sha"] = dg(in)
			lean["input"] = vec["input"]
		}
		out.Put(J{"ev": "call", "in": lean, "len": len(in), "kind": k1, "digest": d1, "nil_on_error": n1, "kind2": k2, "digest2": d2})
	case "conc":
		runConcurrent(vec, out)
	default:
		die("c18: unknown vector kind %v", vec["k"])
	}
}

// runConcurrent: baseline of every (call, input) pair alone, then the same calls from many goroutines at once.
// Events are ordered by a global atomic ticket (never wall clock); each goroutine also numbers its own events.
func runConcurrent(vec J, out *Writer) {
	ng, nc := I(vec["goroutines"]), I(vec["calls"])
	r := rand.New(rand.NewSource(int64(I(vec["seed"]))))
	type job struct {
		call  string
		input string
		id    string
	}
	names := entryNames()
	jobs := make([][]job, ng)
	seen := map[string]bool{}
	for g := 0; g < ng; g++ {
		for c := 0; c < nc; c++ {
			name := names[r.Intn(len(names))]
			in := mutateBytes(r, seedsC18[name][r.Intn(len(seedsC18[name]))])
			if c == 0 {
				// the first call of every goroutine - the first thing this process does - is a comparison of two well-formed
				// versions: whatever a package builds lazily is built while all of them ask for it
				name = "compare"
				in = seedsC18[name][g%len(seedsC18[name])]
			}
			if r.Intn(10) == 0 && c > 0 {
				in = bigInput(r, in, 2000+r.Intn(20000))
			}
			j := job{name, in, dg(in)}
			jobs[g] = append(jobs[g], j)
			seen[name+"/"+j.id] = true
		}
	}
	type event struct {
		ticket int64
		rec    J
	}
	var ticket int64
	var mu sync.Mutex
	events := []event{}
	var wg sync.WaitGroup
	start := make(chan struct{})
	for g := 0; g < ng; g++ {
		wg.Add(1)
		go func(g int) {
			defer wg.Done()
			<-start
			local := []event{}
			seq := 0
			for _, j := range jobs[g] {
				seq++
				t := atomic.AddInt64(&ticket, 1)
				local = append(local, event{t, J{"ev": "begin", "in": J{"k": "conc"}, "g": g, "seq": seq, "call": j.call, "input": j.id}})
				k, d, _ := func() (k, d string, n bool) {
					defer func() {
						if r := recover(); r != nil {
							k, d, n = "panic", fmt.Sprint(r), true
						}
					}()
					return entries[j.call]([]byte(j.input))
				}()
				seq++
				t = atomic.AddInt64(&ticket, 1)
				local = append(local, event{t, J{"ev": "end", "in": J{"k": "conc"}, "g": g, "seq": seq, "outcome": k + ":" + d}})
			}
			mu.Lock()
			events = append(events, local...)
			mu.Unlock()
		}(g)
	}
	close(start)
	wg.Wait()
	// baselines: every (call, input) pair alone, AFTER the concurrent phase, so that the goroutines hit the
	// library in the state a fresh process has (lazily built caches and the like are still cold)
	done := map[string]bool{}
	for g := 0; g < ng; g++ {
		for _, j := range jobs[g] {
			if !done[j.call+"/"+j.id] {
				done[j.call+"/"+j.id] = true
				k, d, _ := guarded(entries[j.call], []byte(j.input), 10)
				out.Put(J{"ev": "base", "in": J{"k": "conc-base"}, "call": j.call, "input": j.id, "outcome": k + ":" + d})
			}
		}
	}
	sort.Slice(events, func(a, b int) bool { return events[a].ticket < events[b].ticket })
	for _, e := range events {
		out.Put(e.rec)
	}
}
