package main

import "time"

func waitOrTimeout(done chan bool, seconds int) bool {
	select {
	case <-done:
		return true
	case <-time.After(time.Duration(seconds) * time.Second):
		return false
	}
}
