package main

import (
	"bufio"
	"encoding/json"
	"fmt"
	"os"
	"strings"
)

// J is one ndjson record.
type J = map[string]interface{}

// B projects a Go string (arbitrary bytes) to the JSON form TLC reads: an
// array of ints.  Never nil: ndJsonDeserialize maps [] to <<>>.
func B(s string) []int {
	out := make([]int, len(s))
	for i := 0; i < len(s); i++ {
		out[i] = int(s[i])
	}
	return out
}

func BB(b []byte) []int { return B(string(b)) }

// S is the inverse of B.
func S(v interface{}) string {
	switch t := v.(type) {
	case nil:
		return ""
	case string:
		return t
	case []interface{}:
		var sb strings.Builder
		for _, x := range t {
			sb.WriteByte(byte(int(x.(float64))))
		}
		return sb.String()
	case []int:
		var sb strings.Builder
		for _, x := range t {
			sb.WriteByte(byte(x))
		}
		return sb.String()
	}
	panic(fmt.Sprintf("S: unexpected %T", v))
}

func I(v interface{}) int {
	switch t := v.(type) {
	case float64:
		return int(t)
	case int:
		return t
	}
	panic(fmt.Sprintf("I: unexpected %T", v))
}

func L(v interface{}) []interface{} {
	if v == nil {
		return nil
	}
	return v.([]interface{})
}

func M(v interface{}) J {
	if v == nil {
		return J{}
	}
	return v.(map[string]interface{})
}

// Err projects an error: message text is logged but never judged.
func Err(err error) J {
	if err == nil {
		return J{"err": false, "msg": B("")}
	}
	return J{"err": true, "msg": B(err.Error())}
}

type Writer struct {
	f     *os.File
	w     *bufio.Writer
	n     int
	lines [][]byte // in-memory mode (f == nil): records of ONE vector, flushed by the exec loop when the call returned
}

func NewWriter(path string) *Writer {
	f, err := os.Create(path)
	if err != nil {
		die("create %s: %v", path, err)
	}
	return &Writer{f: f, w: bufio.NewWriterSize(f, 1<<20)}
}

func (w *Writer) Put(rec J) {
	b, err := json.Marshal(rec)
	if err != nil {
		die("marshal: %v", err)
	}
	if w.f == nil {
		w.lines = append(w.lines, b)
		w.n++
		return
	}
	w.w.Write(b)
	w.w.WriteByte('\n')
	w.n++
}

func (w *Writer) putRaw(b []byte) {
	w.w.Write(b)
	w.w.WriteByte('\n')
	w.n++
}

func (w *Writer) Close() {
	w.w.Flush()
	w.f.Close()
}

func ReadNDJSON(path string, fn func(J)) {
	f, err := os.Open(path)
	if err != nil {
		die("open %s: %v", path, err)
	}
	defer f.Close()
	sc := bufio.NewScanner(f)
	sc.Buffer(make([]byte, 1<<20), 1<<28)
	for sc.Scan() {
		line := sc.Bytes()
		if len(strings.TrimSpace(string(line))) == 0 {
			continue
		}
		var rec J
		if err := json.Unmarshal(line, &rec); err != nil {
			die("bad json in %s: %v", path, err)
		}
		fn(rec)
	}
	if err := sc.Err(); err != nil {
		die("scan %s: %v", path, err)
	}
}

func die(f string, a ...interface{}) {
	fmt.Fprintf(os.Stderr, "harness: "+f+"\n", a...)
	os.Exit(2)
}

func envBase() string { return os.Getenv("VERIF_BASE") }

func bufioReader(s string) *bufio.Reader { return bufio.NewReader(strings.NewReader(s)) }

// I0: an optional integer field (0 when absent).
func I0(v interface{}) int {
	if v == nil {
		return 0
	}
	return I(v)
}
