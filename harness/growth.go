package main

import (
	"bufio"
	"bytes"
	"compress/gzip"
	"crypto/sha256"
	"encoding/hex"
	"fmt"
	"io"
	"os"
	"path/filepath"
	"sort"
	"strconv"
	"strings"
	"syscall"

	"golang.org/x/crypto/openpgp"
	"pault.ag/go/debian/changelog"
	"pault.ag/go/debian/control"
	"pault.ag/go/debian/deb"
	"pault.ag/go/debian/dependency"
	"pault.ag/go/debian/hashio"
	"pault.ag/go/debian/version"
)

// Drivers for the growth specification (spec/Growth.tla): public API that no listed property anchors.

func init() {
	props["GROW"] = &prop{gen: func(int64, string, *Writer) {}, exec: execGrowth}
}

func openFds() int {
	es, err := os.ReadDir("/proc/self/fd")
	if err != nil {
		return -1
	}
	return len(es)
}

func digestOf(v interface{}, err error) string {
	if err != nil {
		return "error"
	}
	s := sha256.Sum256([]byte(fmt.Sprintf("%+v", v)))
	return hex.EncodeToString(s[:8])
}

func execGrowth(vec J, out *Writer) {
	switch vec["k"].(string) {
	case "api":
		out.Put(apiCase(vec))
	case "doc", "keys":
		// the typed documents of C10 (spec/DebDocsGen.tla): here only their "remarshal" observation is judged
		execDocs(vec, out)
	case "colonblank":
		// the same document with and without blanks between field names and their colons
		read := func(b string) (bool, []interface{}) {
			rd, err := control.NewParagraphReader(strings.NewReader(b), nil)
			if err != nil {
				return false, []interface{}{}
			}
			ps, err := rd.All()
			if err != nil {
				return false, []interface{}{}
			}
			return true, parasToJ(ps)
		}
		okB, psB := read(S(vec["doc"]))
		okP, psP := read(S(vec["plain"]))
		out.Put(J{"ev": "colonblank", "in": vec, "ok_blank": okB, "paras_blank": psB, "ok_plain": okP, "paras_plain": psP})
	case "srcfault":
		// a source that fails once with a transient error after `at` bytes and then goes on: is the error reported?
		doc := []byte(S(vec["doc"]))
		at := I(vec["at"])
		reported, n := false, 0
		rd, err := control.NewParagraphReader(&faultySource{data: doc[:at], after: doc[at:]}, nil)
		if err != nil {
			reported = true
		} else {
			for i := 0; i < 100; i++ {
				_, err := rd.Next()
				if err == io.EOF {
					break
				}
				if err != nil {
					reported = true
					break
				}
				n++
			}
		}
		out.Put(J{"ev": "srcfault", "in": vec, "reported": reported, "paras": n})
	case "clheader":
		doc := S(vec["line"]) + "\n\n  * x\n\n -- A <a@b.c>  Mon, 02 Jan 2006 15:04:05 -0700\n"
		e, err := changelog.ParseOne(bufio.NewReader(strings.NewReader(doc)))
		rec := J{"ev": "clheader", "in": vec, "ok": err == nil && e != nil}
		if err == nil && e != nil {
			keys := []string{}
			for k := range e.Arguments {
				keys = append(keys, k)
			}
			sort.Strings(keys)
			args := []interface{}{}
			for _, k := range keys {
				args = append(args, []interface{}{B(k), B(e.Arguments[k])})
			}
			rec["source"], rec["target"], rec["args"] = B(e.Source), B(e.Target), args
			rec["ver"] = J{"e": B(strconv.FormatUint(uint64(e.Version.Epoch), 10)), "u": B(e.Version.Version), "r": B(e.Version.Revision)}
		} else {
			rec["source"], rec["target"], rec["args"] = B(""), B(""), []interface{}{}
			rec["ver"] = J{"e": B("0"), "u": B(""), "r": B("")}
		}
		out.Put(rec)
	case "vacc":
		vj := M(vec["v"])
		e, _ := strconv.ParseUint(S(vj["e"]), 10, 64)
		v := version.Version{Epoch: uint(e), Version: S(vj["u"]), Revision: S(vj["r"])}
		out.Put(J{"ev": "vacc", "in": vec, "native": v.IsNative(), "empty": v.Empty(), "noepoch": B(v.StringWithoutEpoch())})
	case "archs":
		l, err := dependency.ParseArchitectures(S(vec["text"]))
		ts := []interface{}{}
		for _, a := range l {
			ts = append(ts, tripleJ(a))
		}
		out.Put(J{"ev": "archs", "in": vec, "ok": err == nil, "list": ts})
	case "wild":
		a := tripleFromJ(M(vec["t"]))
		out.Put(J{"ev": "wild", "in": vec, "r": a.IsWildcard()})
	case "byhash":
		line := S(vec["hash"]) + " 12 name"
		var fh *control.FileHash
		var err error
		switch vec["alg"].(string) {
		case "md5":
			x := control.MD5FileHash{}
			err = x.UnmarshalControl(line)
			fh = &x.FileHash
		case "sha1":
			x := control.SHA1FileHash{}
			err = x.UnmarshalControl(line)
			fh = &x.FileHash
		case "sha256":
			x := control.SHA256FileHash{}
			err = x.UnmarshalControl(line)
			fh = &x.FileHash
		case "sha512":
			x := control.SHA512FileHash{}
			err = x.UnmarshalControl(line)
			fh = &x.FileHash
		}
		out.Put(J{"ev": "byhash", "in": vec, "ok": err == nil, "r": B(fh.ByHashPath(S(vec["path"])))})
	case "getdsc":
		dir, err := os.MkdirTemp("", "verif-getdsc-")
		if err != nil {
			die("mkdtemp: %v", err)
		}
		defer os.RemoveAll(dir)
		var files strings.Builder
		for _, nj := range L(vec["names"]) {
			n := S(nj)
			fmt.Fprintf(&files, "\n d41d8cd98f00b204e9800998ecf8427e 0 utils optional %s", n)
			body := ""
			if strings.HasSuffix(n, ".dsc") {
				body = "Format: 3.0 (quilt)\nSource: src-of-" + n + "\nBinary: b\nArchitecture: any\nVersion: 1.0\nMaintainer: A B <a@b.org>\nFiles:\n d41d8cd98f00b204e9800998ecf8427e 0 x.tar.gz\n"
			}
			os.WriteFile(filepath.Join(dir, n), []byte(body), 0644)
		}
		text := "Format: 1.8\nSource: pkg\nBinary: pkg\nArchitecture: source\nVersion: 1.0\nDistribution: unstable\nUrgency: low\nMaintainer: A B <a@b.org>\nChanged-By: A B <a@b.org>\nDescription:\n pkg - x\nChanges:\n pkg (1.0) unstable; urgency=low\n .\n   * x\n"
		if files.Len() > 0 {
			text += "Files:" + files.String() + "\n"
		}
		path := filepath.Join(dir, "pkg_1.0_source.changes")
		os.WriteFile(path, []byte(text), 0644)
		rec := J{"ev": "getdsc", "in": vec, "parsed": false, "ok": false, "file": B(""), "source": B("")}
		ch, err := control.ParseChangesFile(path)
		if err == nil {
			rec["parsed"] = true
			d, derr := ch.GetDSC()
			if derr == nil && d != nil {
				rec["ok"] = true
				rec["file"] = B(filepath.Base(d.Filename))
				rec["source"] = B(d.Source)
				rec["dir_same"] = filepath.Dir(d.Filename) == dir
			}
		}
		if _, ok := rec["dir_same"]; !ok {
			rec["dir_same"] = false
		}
		out.Put(rec)
	case "compressor":
		c, err := hashio.GetCompressor(vec["name"].(string))
		out.Put(J{"ev": "compressor", "in": vec, "ok": err == nil && c != nil})
	case "decompressor":
		ext := vec["ext"].(string)
		fn := deb.DecompressorFor(ext)
		raw := []byte("plain bytes, not a compressed stream of any kind")
		pass := false
		if rc, err := fn(bytes.NewReader(raw)); err == nil {
			got, rerr := io.ReadAll(rc)
			pass = rerr == nil && bytes.Equal(got, raw)
		}
		decodes := false
		if packed, err := compress(strings.TrimPrefix(ext, "."), []byte("hello")); err == nil && strings.HasPrefix(ext, ".") && len(ext) > 1 {
			if rc, err := fn(bytes.NewReader(packed)); err == nil {
				got, rerr := io.ReadAll(rc)
				decodes = rerr == nil && string(got) == "hello"
			}
		}
		out.Put(J{"ev": "decompressor", "in": vec, "passthrough": pass, "decodes": decodes})
	case "xzdict":
		b, err := buildDeb(J{"members": stdMembers("xz", "xz", "pkgx")})
		if err != nil {
			out.Put(J{"ev": "xzdict", "in": vec, "built": false, "oks": []interface{}{}})
			return
		}
		oks := []interface{}{}
		for _, lj := range L(vec["limits"]) {
			deb.SetXZMaxDict(uint32(I(lj)))
			d, lerr := deb.Load(bytes.NewReader(b.Bytes), "x.deb")
			ok := lerr == nil
			if ok {
				// the data member is decoded lazily: read it to its end
				for {
					_, nerr := d.Data.Next()
					if nerr == io.EOF {
						break
					}
					if nerr != nil {
						ok = false
						break
					}
					if _, cerr := io.Copy(io.Discard, d.Data); cerr != nil {
						ok = false
						break
					}
				}
				d.Close()
			}
			oks = append(oks, ok)
		}
		deb.SetXZMaxDict(0)
		out.Put(J{"ev": "xzdict", "in": vec, "built": true, "oks": oks})
	case "loadfile":
		dir, err := os.MkdirTemp("", "verif-loadfile-")
		if err != nil {
			die("mkdtemp: %v", err)
		}
		defer os.RemoveAll(dir)
		b, berr := buildDeb(J{"members": stdMembers("gz", "gz", "pkgf")})
		if berr != nil {
			die("buildDeb: %v", berr)
		}
		good, bad := filepath.Join(dir, "good.deb"), filepath.Join(dir, "bad.deb")
		os.WriteFile(good, b.Bytes, 0644)
		os.WriteFile(bad, []byte("!<arch>\nthis is not a package at all, but it is long enough to hold a header....\n"), 0644)
		type handle struct {
			d *deb.Deb
			c deb.Closer
		}
		hs := map[string]*handle{}
		base := openFds()
		steps := []interface{}{}
		for _, oj := range L(vec["ops"]) {
			o := oj.(string)
			st := J{"ok": false, "panic": false}
			func() {
				defer func() {
					if r := recover(); r != nil {
						st["panic"] = true
					}
				}()
				id := o[len(o)-1:]
				switch {
				case strings.HasPrefix(o, "openbad"):
					_, _, err := deb.LoadFile(bad)
					st["ok"] = err == nil
				case strings.HasPrefix(o, "openmissing"):
					_, _, err := deb.LoadFile(filepath.Join(dir, "missing.deb"))
					st["ok"] = err == nil
				case strings.HasPrefix(o, "open"):
					d, c, err := deb.LoadFile(good)
					st["ok"] = err == nil
					if err == nil {
						hs[id] = &handle{d, c}
					}
				case strings.HasPrefix(o, "c"):
					if h := hs[id]; h != nil {
						st["ok"] = h.c() == nil
					}
				case strings.HasPrefix(o, "d"):
					if h := hs[id]; h != nil {
						st["ok"] = h.d.Close() == nil
					}
				case strings.HasPrefix(o, "read"):
					if h := hs[id]; h != nil {
						hd, err := h.d.Data.Next()
						st["ok"] = err == nil && hd != nil
					}
				}
			}()
			st["fds"] = openFds() - base
			steps = append(steps, st)
		}
		out.Put(J{"ev": "loadfile", "in": vec, "steps": steps})
	case "filevariants":
		dir, err := os.MkdirTemp("", "verif-filevar-")
		if err != nil {
			die("mkdtemp: %v", err)
		}
		defer os.RemoveAll(dir)
		write := func(name, text string) string {
			p := filepath.Join(dir, name)
			os.WriteFile(p, []byte(text), 0644)
			return p
		}
		pairs := []interface{}{}
		add := func(name, viaFile, viaReader string) {
			pairs = append(pairs, J{"name": name, "file": viaFile, "reader": viaReader})
		}
		cl := seedsC18["changelog"][0]
		p := write("changelog", cl)
		f1, e1 := changelog.ParseFile(p)
		r1, e2 := changelog.Parse(strings.NewReader(cl))
		add("changelog.ParseFile", digestOf(f1, e1), digestOf(r1, e2))
		f2, e3 := changelog.ParseFileOne(p)
		r2, e4 := changelog.ParseOne(bufio.NewReader(strings.NewReader(cl)))
		add("changelog.ParseFileOne", digestOf(f2, e3), digestOf(r2, e4))
		_, e5 := changelog.ParseFile(filepath.Join(dir, "missing"))
		add("changelog.ParseFile(missing)", digestOf(nil, e5), "error")
		ct := seedsC18["control"][0]
		p = write("control", ct)
		f3, e6 := control.ParseControlFile(p)
		r3, e7 := control.ParseControl(bufio.NewReader(strings.NewReader(ct)), p)
		add("control.ParseControlFile", digestOf(f3, e6), digestOf(r3, e7))
		ds := seedsC18["dsc"][0]
		p = write("pkg_1.0-1.dsc", ds)
		f4, e8 := control.ParseDscFile(p)
		r4, e9 := control.ParseDsc(bufio.NewReader(strings.NewReader(ds)), p)
		add("control.ParseDscFile", digestOf(f4, e8), digestOf(r4, e9))
		cs := seedsC18["changes"][0]
		p = write("pkg_1.0-1_amd64.changes", cs)
		f5, e10 := control.ParseChangesFile(p)
		r5, e11 := control.ParseChanges(bufio.NewReader(strings.NewReader(cs)), p)
		add("control.ParseChangesFile", digestOf(f5, e10), digestOf(r5, e11))
		out.Put(J{"ev": "filevariants", "in": vec, "pairs": pairs})
	default:
		die("growth: unknown vector kind %v", vec["k"])
	}
}

// xzrace: SetXZMaxDict from one goroutine while another loads packages (subcommand of the race-detector build).
// Events are printed as ndjson: the access events of both goroutines, numbered by a global ticket.
func init() {
	subcommands["xzrace"] = func(args []string) {
		mode := "unsync"
		if len(args) > 0 {
			mode = args[0]
		}
		b, err := buildDeb(J{"members": stdMembers("xz", "xz", "pkgx")})
		if err != nil {
			fmt.Println(`{"ev":"xzrace","built":false}`)
			return
		}
		done := make(chan bool, 2)
		lock := make(chan bool, 1)
		lock <- true
		guard := func(f func()) {
			if mode == "locked" {
				<-lock
				defer func() { lock <- true }()
			}
			f()
		}
		go func() {
			for i := 0; i < 300; i++ {
				guard(func() { deb.SetXZMaxDict(uint32(1 << 20)) })
			}
			done <- true
		}()
		go func() {
			for i := 0; i < 300; i++ {
				guard(func() {
					if d, err := deb.Load(bytes.NewReader(b.Bytes), "x.deb"); err == nil {
						d.Close()
					}
				})
			}
			done <- true
		}()
		<-done
		<-done
		deb.SetXZMaxDict(0)
		fmt.Printf("{\"ev\":\"xzrace\",\"built\":true,\"mode\":%q}\n", mode)
	}
}

// ---- the control package's reflection API used in ways its documents do not: every case ends in an error or in the
// result the ordinary route gives - never in a panic (spec/Growth.tla: ApiContract)

type apiInner struct{ X string }
type apiFloat struct {
	Name string
	F    float64
}
type apiNested struct {
	Name string
	N    apiInner
}
type apiPtr struct {
	Name string
	P    *string
}
type apiPlain struct {
	Name  string
	Count int
	Tags  []string `delim:", "`
}

func apiCase(vec J) (rec J) {
	name := vec["case"].(string)
	rec = J{"ev": "api", "in": vec, "panic": false, "err": false, "equal": false}
	defer func() {
		if r := recover(); r != nil {
			rec["panic"] = true
		}
	}()
	doc := "Name: n\nCount: 3\nTags: a, b\nF: 1.5\nN: x\nP: v\n"
	setErr := func(err error) { rec["err"] = err != nil }
	newDec := func() *control.Decoder {
		d, err := control.NewDecoder(strings.NewReader(doc), nil)
		if err != nil {
			die("api: %v", err)
		}
		return d
	}
	para := func() control.Paragraph {
		rd, _ := control.NewParagraphReader(strings.NewReader(doc), nil)
		p, err := rd.Next()
		if err != nil {
			die("api: %v", err)
		}
		return *p
	}
	var buf, buf2 bytes.Buffer
	switch name {
	case "decode-nonpointer":
		setErr(newDec().Decode(apiPlain{}))
	case "decode-into-int":
		var i int
		setErr(newDec().Decode(&i))
	case "unmarshal-float-field":
		setErr(control.Unmarshal(&apiFloat{}, strings.NewReader(doc)))
	case "unmarshal-nested-struct-field":
		setErr(control.Unmarshal(&apiNested{}, strings.NewReader(doc)))
	case "unmarshal-pointer-field":
		setErr(control.Unmarshal(&apiPtr{}, strings.NewReader(doc)))
	case "marshal-float-field":
		setErr(control.Marshal(&buf, &apiFloat{Name: "n", F: 1.5}))
	case "marshal-nested-struct-field":
		setErr(control.Marshal(&buf, &apiNested{Name: "n", N: apiInner{"x"}}))
	case "marshal-int":
		i := 3
		setErr(control.Marshal(&buf, &i))
	case "marshal-nil-pointer-field":
		setErr(control.Marshal(&buf, &apiPtr{Name: "n"}))
	case "marshal-pointer-field":
		v := "v"
		setErr(control.Marshal(&buf, &apiPtr{Name: "n", P: &v}))
		rec["equal"] = buf.String() == "Name: n\nP: v\n"
	case "convert-nonpointer":
		_, err := control.ConvertToParagraph(apiPlain{Name: "n"})
		setErr(err)
	case "convert-pointer-to-int":
		i := 3
		_, err := control.ConvertToParagraph(&i)
		setErr(err)
	case "unpack-nonpointer":
		setErr(control.UnpackFromParagraph(para(), apiPlain{}))
	case "unpack-equals-unmarshal":
		var a, b apiPlain
		e1 := control.UnpackFromParagraph(para(), &a)
		e2 := control.Unmarshal(&b, strings.NewReader(doc))
		rec["err"] = e1 != nil || e2 != nil
		rec["equal"] = fmt.Sprint(a) == fmt.Sprint(b) && a.Name == "n" && a.Count == 3 && len(a.Tags) == 2
	case "convert-equals-marshal":
		v := apiPlain{Name: "n", Count: 3, Tags: []string{"a", "b"}}
		p, e1 := control.ConvertToParagraph(&v)
		e2 := control.Marshal(&buf, &v)
		rec["err"] = e1 != nil || e2 != nil
		if p != nil {
			p.WriteTo(&buf2)
		}
		rec["equal"] = buf.String() == buf2.String() && buf.Len() > 0
	case "encode-slice-equals-encode-each":
		vs := []apiPlain{{Name: "a", Count: 1}, {Name: "b", Tags: []string{"x"}}, {Name: "c"}}
		e1, _ := control.NewEncoder(&buf)
		e2, _ := control.NewEncoder(&buf2)
		err := e1.Encode(vs)
		for i := range vs {
			if e := e2.Encode(&vs[i]); e != nil {
				err = e
			}
		}
		rec["err"] = err != nil
		rec["equal"] = buf.String() == buf2.String() && buf.Len() > 0
	case "encode-pointer-to-slice":
		vs := []apiPlain{{Name: "a"}, {Name: "b"}}
		e1, _ := control.NewEncoder(&buf)
		e2, _ := control.NewEncoder(&buf2)
		err := e1.Encode(&vs)
		if e := e2.Encode(vs); e != nil {
			err = e
		}
		rec["err"] = err != nil
		rec["equal"] = buf.String() == buf2.String() && buf.Len() > 0
	case "hashio-unknown-NewHasher":
		h, err := hashio.NewHasher("sha3")
		rec["err"] = err != nil && h == nil
	case "hashio-unknown-GetHash":
		h, err := hashio.GetHash("SHA256") // names are lower-case
		rec["err"] = err != nil && h == nil
	case "hashio-unknown-NewHasherReader":
		r, h, err := hashio.NewHasherReader("crc32", strings.NewReader("x"))
		rec["err"] = err != nil && h == nil && r == nil
	case "hashio-unknown-NewHasherWriter":
		w, h, err := hashio.NewHasherWriter("", &buf)
		rec["err"] = err != nil && h == nil && w == nil
	case "hashio-unknown-NewHasherReaders":
		r, hs, err := hashio.NewHasherReaders([]string{"md5", "nope", "sha1"}, strings.NewReader("x"))
		rec["err"] = err != nil && hs == nil && r == nil
	case "hashio-unknown-NewHasherWriters":
		w, hs, err := hashio.NewHasherWriters([]string{"sha256", "sha-256"}, &buf)
		rec["err"] = err != nil && hs == nil && w == nil
	case "debsig-on-zero-deb":
		_, err := (&deb.Deb{}).CheckDebsig(openpgp.EntityList{}, "origin")
		setErr(err)
	case "debsig-signature-member-only", "debsig-without-control-and-data":
		mk := func(n, c string) *deb.ArEntry {
			return &deb.ArEntry{Name: n, Size: int64(len(c)), Data: io.NewSectionReader(strings.NewReader(c), 0, int64(len(c)))}
		}
		d := &deb.Deb{ArContent: map[string]*deb.ArEntry{"_gpgorigin": mk("_gpgorigin", "x")}}
		if name == "debsig-without-control-and-data" {
			d.ArContent["debian-binary"] = mk("debian-binary", "2.0\n")
		}
		_, err := d.CheckDebsig(openpgp.EntityList{}, "origin")
		setErr(err)
	case "close-deb-without-closer":
		err := (&deb.Deb{}).Close()
		rec["err"] = err != nil
		rec["equal"] = err == nil
	case "parsefile-missing-dsc":
		_, err := control.ParseDscFile("/nonexistent/verif/x.dsc")
		setErr(err)
	case "parsefile-missing-changes":
		_, err := control.ParseChangesFile("/nonexistent/verif/x.changes")
		setErr(err)
	case "parsefile-missing-control":
		_, err := control.ParseControlFile("/nonexistent/verif/control")
		setErr(err)
	case "parsefile-missing-changelog":
		_, e1 := changelog.ParseFile("/nonexistent/verif/changelog")
		_, e2 := changelog.ParseFileOne("/nonexistent/verif/changelog")
		rec["err"] = e1 != nil && e2 != nil
	case "getdsc-listed-but-missing":
		dir, err := os.MkdirTemp("", "verif-getdsc-")
		if err != nil {
			die("mkdtemp: %v", err)
		}
		defer os.RemoveAll(dir)
		text := "Format: 1.8\nSource: pkg\nBinary: a\nArchitecture: source\nVersion: 1.0-1\nDistribution: unstable\nUrgency: low\nMaintainer: A <a@b>\nChanged-By: A <a@b>\nChanges:\n x\nFiles:\n d41d8cd98f00b204e9800998ecf8427e 0 utils optional pkg_1.0-1.dsc\n"
		c, err := control.ParseChanges(bufio.NewReader(strings.NewReader(text)), filepath.Join(dir, "pkg.changes"))
		if err != nil {
			die("api: %v", err)
		}
		d, err := c.GetDSC()
		rec["err"] = err != nil && d == nil
	case "unmarshal-empty-number-fields":
		var v struct {
			Name string
			I    int
			U    uint
		}
		v.I, v.U = 7, 7
		err := control.Unmarshal(&v, strings.NewReader("Name: n\nI:\nU:\n"))
		rec["err"] = err != nil
		rec["equal"] = v.I == 0 && v.U == 0 && v.Name == "n"
	case "stageset-without-stages":
		rec["equal"] = (dependency.StageSet{}).String() == "" && (dependency.StageSet{Stages: []dependency.Stage{}}).String() == ""
	case "parsefile-named-pipe":
		// a path whose size is not its content's length: a named pipe fed by a writer
		dir, err := os.MkdirTemp("", "verif-fifo-")
		if err != nil {
			die("mkdtemp: %v", err)
		}
		defer os.RemoveAll(dir)
		fifo := filepath.Join(dir, "changelog")
		if err := syscall.Mkfifo(fifo, 0600); err != nil {
			rec["err"], rec["equal"] = false, true // no named pipes here: nothing to observe
			break
		}
		text := "hello (2.10-1) unstable; urgency=low\n\n  * Initial release.\n\n -- A B <a@b.org>  Mon, 02 Jan 2006 15:04:05 -0700\n\nhello (2.9-1) unstable; urgency=low\n\n  * Older.\n\n -- A B <a@b.org>  Sun, 01 Jan 2006 15:04:05 +0000\n"
		go func() {
			if f, err := os.OpenFile(fifo, os.O_WRONLY, 0); err == nil {
				io.WriteString(f, text)
				f.Close()
			}
		}()
		es, err := changelog.ParseFile(fifo)
		want, _ := changelog.Parse(strings.NewReader(text))
		rec["err"] = err != nil
		rec["equal"] = err == nil && len(es) == 2 && fmt.Sprint(es) == fmt.Sprint(want)
	case "gz-compressor-roundtrip":
		c, err := hashio.GetCompressor("gz")
		if err != nil {
			rec["err"] = true
			break
		}
		text := strings.Repeat("debian control data\n", 500)
		wc, err := c(&buf)
		if err != nil {
			rec["err"] = true
			break
		}
		io.WriteString(wc, text)
		wc.Close()
		zr, err := gzip.NewReader(&buf)
		if err != nil {
			rec["err"] = true
			break
		}
		back, err := io.ReadAll(zr)
		rec["err"] = err != nil
		rec["equal"] = string(back) == text
	default:
		die("api: unknown case %s", name)
	}
	return rec
}
