package main

import (
	"bytes"
	"crypto/sha256"
	"encoding/hex"
	"fmt"
	"io"
	"math/rand"
	"os"
	"path/filepath"
	"sort"
	"strconv"
	"time"

	"golang.org/x/crypto/openpgp"
	"golang.org/x/crypto/openpgp/packet"
	"pault.ag/go/debian/deb"
)

func init() {
	props["C14"] = &prop{gen: genC14, exec: execAr}
	props["C16"] = &prop{gen: genC16, exec: execAr}
}

// ---- keys (real OpenPGP; generated once per process) ------------------------

var testKeys = map[string]*openpgp.Entity{}

func key(name string) *openpgp.Entity {
	if e, ok := testKeys[name]; ok {
		return e
	}
	cfg := &packet.Config{RSABits: 1024, Time: func() time.Time { return time.Unix(1700000000, 0) }}
	e, err := openpgp.NewEntity(name, "verif", name+"@example.org", cfg)
	if err != nil {
		die("keygen: %v", err)
	}
	testKeys[name] = e
	return e
}

func keyName(e *openpgp.Entity) string {
	if e == nil {
		return "none"
	}
	for n, k := range testKeys {
		if k.PrimaryKey.KeyId == e.PrimaryKey.KeyId {
			return n
		}
	}
	return "unknown"
}

func keyring(names []interface{}) openpgp.EntityList {
	el := openpgp.EntityList{}
	for _, n := range names {
		el = append(el, key(n.(string)))
	}
	return el
}

func detachSign(k *openpgp.Entity, data []byte) []byte {
	var buf bytes.Buffer
	cfg := &packet.Config{Time: func() time.Time { return time.Unix(1700000100, 0) }}
	if err := openpgp.DetachSign(&buf, k, bytes.NewReader(data), cfg); err != nil {
		die("sign: %v", err)
	}
	return buf.Bytes()
}

// ---- building a package from an abstract shape -------------------------------

// fileContent: the bytes of a packaged file; kind "fill" with content [b, e] is the byte b repeated 2^e times
// (a large, highly redundant payload that the vector cannot carry literally).
func fileContent(f J) []byte {
	if f["kind"].(string) == "fill" {
		c := L(f["content"])
		return bytes.Repeat([]byte{byte(I(c[0]))}, 1<<uint(I(c[1])))
	}
	if f["kind"].(string) == "fillk" { // content [b, k]: the byte b repeated k*512 times (tar block granularity)
		c := L(f["content"])
		return bytes.Repeat([]byte{byte(I(c[0]))}, 512*I(c[1]))
	}
	return []byte(S(f["content"]))
}

// entryObs: one entry read from a tar stream.  Large contents are logged as length and fill byte (-1 = mixed).
func entryObs(name string, content []byte) J {
	if len(content) <= 65536 {
		return J{"name": name, "content": BB(content), "len": len(content), "fill": -1}
	}
	fill := int(content[0])
	for _, c := range content {
		if int(c) != fill {
			fill = -1
			break
		}
	}
	return J{"name": name, "content": []interface{}{}, "len": len(content), "fill": fill}
}

func buildDeb(vec J) (builtDeb, error) {
	specs := L(vec["members"])
	members := make([]arMember, len(specs))
	for i, sj := range specs {
		s := M(sj)
		name := s["name"].(string)
		switch s["role"].(string) {
		case "binary":
			members[i] = arMember{name, []byte(S(s["text"]))}
		case "control", "extra-ctl": // extra-ctl: a control-like tarball under a name the loader must not take for the control member
			files := []tarFile{}
			for _, fj := range L(s["files"]) {
				f := M(fj)
				switch f["kind"].(string) {
				case "control":
					content := renderControl(L(s["fields"]))
					// the control member's "text" says how the file ends / begins: n = no final newline, b = blank lines
					// after the paragraph, l = a blank line before it (all the same paragraph to a deb822 reader)
					switch S(s["text"]) {
					case "n":
						content = bytes.TrimSuffix(content, []byte("\n"))
					case "b":
						content = append(content, '\n', '\n')
					case "l":
						content = append([]byte("\n"), content...)
					}
					if raw, ok := s["control_raw"]; ok {
						content = []byte(S(raw)) // hostile control-file text
					}
					files = append(files, tarFile{Name: f["name"].(string), Content: content})
				case "dir":
					files = append(files, tarFile{Name: f["name"].(string), Dir: true})
				default:
					files = append(files, tarFile{Name: f["name"].(string), Content: fileContent(f)})
				}
			}
			data, err := compress(s["comp"].(string), buildTar(files))
			if err != nil {
				return builtDeb{}, err
			}
			members[i] = arMember{name, data}
		case "data", "extra-dat":
			files := []tarFile{}
			for _, fj := range L(s["files"]) {
				f := M(fj)
				files = append(files, tarFile{Name: f["name"].(string), Content: fileContent(f)})
			}
			data, err := compress(s["comp"].(string), buildTar(files))
			if err != nil {
				return builtDeb{}, err
			}
			members[i] = arMember{name, data}
		case "extra":
			members[i] = arMember{name, []byte(S(s["content"]))}
		case "sig":
			// filled in below, once the signed members exist
		default:
			die("deb: unknown member role %v", s["role"])
		}
	}
	for i, sj := range specs {
		s := M(sj)
		if s["role"].(string) != "sig" {
			continue
		}
		var signed []byte
		for _, ix := range L(s["over"]) {
			signed = append(signed, members[I(ix)-1].Data...)
		}
		sigBytes := detachSign(key(s["key"].(string)), signed)
		if more, ok := s["more"]; ok && more != nil {
			// further signature packets in the same member, each over the members it names (none = the empty input)
			for _, pj := range L(more) {
				p := M(pj)
				var over []byte
				for _, ix := range L(p["over"]) {
					over = append(over, members[I(ix)-1].Data...)
				}
				sigBytes = append(sigBytes, detachSign(key(p["key"].(string)), over)...)
			}
		}
		members[i] = arMember{s["name"].(string), sigBytes}
	}
	b := layout(members)
	// optional tampering after signing
	if t, ok := vec["tamper"]; ok && t != nil {
		tm := M(t)
		if tm["kind"].(string) == "flip" {
			i := I(tm["member"]) - 1
			n := len(members[i].Data)
			if n > 0 {
				var off int
				if o, ok := tm["off"]; ok {
					off = I(o) % n
				} else {
					off = n * I(tm["num"]) / I(tm["den"])
					if off >= n {
						off = n - 1
					}
				}
				b.Bytes[b.DataOff[i]+off] ^= byte(I(tm["mask"]))
			}
		}
	}
	return b, nil
}

// ---- observing a load ----------------------------------------------------------

func loadOnce(b []byte, check J) (obs J, id string) {
	obs = J{"ok": false}
	defer func() {
		if r := recover(); r != nil {
			obs = J{"ok": false, "panic": true, "msg": B(fmt.Sprint(r))}
			id = "panic"
		}
	}()
	d, err := deb.Load(bytes.NewReader(b), "/tmp/x.deb")
	if err != nil {
		return J{"ok": false, "panic": false}, "error"
	}
	defer d.Close()
	c := d.Control
	dep, _ := c.Depends.MarshalControl()
	ver, _ := c.Version.MarshalControl()
	arch, _ := c.Architecture.MarshalControl()
	names := []string{}
	for n := range d.ArContent {
		names = append(names, n)
	}
	sort.Strings(names)
	arNames := []interface{}{}
	for _, n := range names {
		arNames = append(arNames, n)
	}
	arMeta := []interface{}{}
	for _, n := range names {
		e := d.ArContent[n]
		arMeta = append(arMeta, J{"name": n, "mtime": strconv.FormatInt(e.Timestamp, 10), "uid": int(e.OwnerID), "gid": int(e.GroupID), "mode": e.FileMode, "size": int(e.Size)})
	}
	files := []interface{}{}
	for i := 0; i < 10000; i++ {
		h, err := d.Data.Next()
		if err == io.EOF {
			break
		}
		if err != nil {
			files = append(files, J{"name": "<error>", "content": B("")})
			break
		}
		content, _ := io.ReadAll(d.Data)
		files = append(files, entryObs(h.Name, content))
	}
	obs = J{"ok": true, "panic": false, "path": d.Path,
		"control": J{"Package": B(c.Package), "Source": B(c.Source), "Version": B(ver), "Architecture": B(arch),
			"Maintainer": B(c.Maintainer), "InstalledSize": c.InstalledSize, "MultiArch": B(c.MultiArch),
			"Depends": B(dep), "Section": B(c.Section), "Priority": B(c.Priority), "Homepage": B(c.Homepage),
			"Description": B(c.Description), "SourceName": B(c.SourceName())},
		"para":        paraToJ(c.Paragraph),
		"control_ext": d.ControlExt, "data_ext": d.DataExt, "ar_names": arNames, "ar_meta": arMeta, "tar": files}
	if check != nil {
		signer, err := d.CheckDebsig(keyring(L(check["keyring"])), check["role"].(string))
		obs["sig"] = J{"ok": err == nil, "signer": keyName(signer)}
		// the same loaded package asked again with other keyrings, and then once more as at first:
		// an answer must depend on the keyring of THAT call only
		again := []interface{}{}
		for _, ring := range [][]interface{}{{"k1"}, {"k2"}, {}, {"k1", "k2"}, L(check["keyring"])} {
			s2, e2 := d.CheckDebsig(keyring(ring), check["role"].(string))
			again = append(again, J{"ring": ring, "ok": e2 == nil, "signer": keyName(s2)})
		}
		obs["sig_again"] = again
	} else {
		obs["sig"] = J{"ok": false, "signer": "unchecked"}
	}
	js := fmt.Sprint(obs)
	sum := sha256.Sum256([]byte(js))
	return obs, hex.EncodeToString(sum[:8])
}

// overlappingLoads: Load, Load again, and only then read both data tar streams (interleaved file by file)
func overlappingLoads(b []byte) (obs J) {
	obs = J{"ok": false, "tar1": []interface{}{}, "tar2": []interface{}{}, "panic": false}
	defer func() {
		if r := recover(); r != nil {
			obs["panic"] = true
		}
	}()
	d1, err1 := deb.Load(bytes.NewReader(b), "/tmp/one.deb")
	if err1 != nil {
		return
	}
	defer d1.Close()
	d2, err2 := deb.Load(bytes.NewReader(b), "/tmp/two.deb")
	if err2 != nil {
		return
	}
	defer d2.Close()
	t1, t2 := []interface{}{}, []interface{}{}
	done1, done2 := false, false
	for i := 0; i < 10000 && !(done1 && done2); i++ {
		if !done1 {
			h, err := d1.Data.Next()
			if err != nil {
				done1 = true
			} else {
				c, _ := io.ReadAll(d1.Data)
				t1 = append(t1, entryObs(h.Name, c))
			}
		}
		if !done2 {
			h, err := d2.Data.Next()
			if err != nil {
				done2 = true
			} else {
				c, _ := io.ReadAll(d2.Data)
				t2 = append(t2, entryObs(h.Name, c))
			}
		}
	}
	obs["ok"], obs["tar1"], obs["tar2"] = true, t1, t2
	return
}

// execDebOps: several Deb values alive in one process: Load / read Data / CheckDebsig / Close (also twice) in the
// order the vector gives.  One observation per operation.
// putFile replaces the file at path the way an archive tool does: a new file renamed over the old name, so that a
// descriptor still open on the old file keeps seeing the old bytes.
func putFile(path string, b []byte) error {
	tmp := path + ".new"
	if err := os.WriteFile(tmp, b, 0644); err != nil {
		return err
	}
	return os.Rename(tmp, path)
}

func execDebOps(vec J, out *Writer) {
	pkgs := [][]byte{}
	for _, p := range L(vec["pkgs"]) {
		b, err := buildDeb(J{"members": p})
		if err != nil {
			out.Put(J{"ev": "deb_ops", "in": vec, "built": false, "steps": []interface{}{}})
			return
		}
		pkgs = append(pkgs, b.Bytes)
	}
	handles := map[int]*deb.Deb{}
	closers := map[int]deb.Closer{}
	dir, derr := os.MkdirTemp("", "verif-debops-")
	if derr != nil {
		die("mkdtemp: %v", derr)
	}
	defer os.RemoveAll(dir)
	path := filepath.Join(dir, "pkg.deb") // "loadfile" / "replace" work on this one path
	steps := []interface{}{}
	for _, oj := range L(vec["ops"]) {
		o := M(oj)
		h := I(o["h"])
		obs := J{"ok": false, "panic": false, "package": B(""), "signer": "none", "tar": []interface{}{}}
		func() {
			defer func() {
				if r := recover(); r != nil {
					obs["panic"] = true
				}
			}()
			switch o["op"].(string) {
			case "loadfile":
				if putFile(path, pkgs[I(o["p"])-1]) != nil {
					return
				}
				dd, c, err := deb.LoadFile(path)
				if err != nil {
					return
				}
				handles[h], closers[h] = dd, c
				obs["ok"] = true
				obs["package"] = B(dd.Control.Package)
			case "loadlink":
				// the same through a symbolic link (relative target) to the package file
				if putFile(path, pkgs[I(o["p"])-1]) != nil {
					return
				}
				link := filepath.Join(dir, "current.deb")
				os.Remove(link)
				if os.Symlink("pkg.deb", link) != nil {
					return
				}
				dd, c, err := deb.LoadFile(link)
				if err != nil {
					return
				}
				handles[h], closers[h] = dd, c
				obs["ok"] = true
				obs["package"] = B(dd.Control.Package)
			case "closer":
				if c := closers[h]; c != nil {
					obs["ok"] = c() == nil
				}
			case "replace":
				// another package is put at the path an earlier handle was loaded from
				obs["ok"] = putFile(path, pkgs[I(o["p"])-1]) == nil
			case "dict":
				deb.SetXZMaxDict(uint32(I(o["p"]))) // p = the limit in bytes (0 = the decoder's default)
				obs["ok"] = true
			case "load":
				dd, err := deb.Load(bytes.NewReader(pkgs[I(o["p"])-1]), "/tmp/x.deb")
				if err != nil {
					return
				}
				handles[h] = dd
				obs["ok"] = true
				obs["package"] = B(dd.Control.Package)
			case "close":
				if dd := handles[h]; dd != nil {
					obs["ok"] = dd.Close() == nil
				}
			case "data":
				dd := handles[h]
				if dd == nil {
					return
				}
				files := []interface{}{}
				for i := 0; i < 10000; i++ {
					hd, err := dd.Data.Next()
					if err == io.EOF {
						obs["ok"] = true
						break
					}
					if err != nil {
						break
					}
					c, _ := io.ReadAll(dd.Data)
					files = append(files, entryObs(hd.Name, c))
				}
				obs["tar"] = files
				obs["package"] = B(dd.Control.Package)
			case "check":
				dd := handles[h]
				if dd == nil {
					return
				}
				signer, err := dd.CheckDebsig(keyring(L(o["ring"])), "origin")
				obs["ok"] = err == nil
				obs["signer"] = keyName(signer)
				obs["package"] = B(dd.Control.Package)
			}
		}()
		steps = append(steps, obs)
	}
	deb.SetXZMaxDict(0)
	out.Put(J{"ev": "deb_ops", "in": vec, "built": true, "steps": steps})
}

func execDeb(vec J, out *Writer) {
	switch vec["k"].(string) {
	case "deb_ops":
		execDebOps(vec, out)
	case "deb":
		b, err := buildDeb(vec)
		if err != nil {
			// a compressor that is not installed is not an observation of go-debian
			out.Put(J{"ev": "deb", "in": vec, "built": false, "why": B(err.Error()), "reps": []interface{}{}, "first": J{"ok": false}})
			return
		}
		var check J
		if c, ok := vec["check"]; ok && c != nil {
			check = M(c)
		}
		reps := I(vec["reps"])
		ids := []interface{}{}
		var first J
		for i := 0; i < reps; i++ {
			obs, id := loadOnce(b.Bytes, check)
			if i == 0 {
				first = obs
			}
			sigOK, signer := false, "unchecked"
			if s, ok := obs["sig"]; ok {
				sj := s.(J)
				sigOK, signer = sj["ok"].(bool), sj["signer"].(string)
			}
			pkg := ""
			if obs["ok"].(bool) {
				pkg = S(obs["control"].(J)["Package"])
			}
			ids = append(ids, J{"id": id, "ok": obs["ok"], "sig_ok": sigOK, "signer": signer, "pkg": B(pkg)})
		}
		rec := J{"ev": "deb", "in": vec, "built": true, "len": len(b.Bytes), "reps": ids, "first": first}
		if check == nil {
			rec["overlap"] = overlappingLoads(b.Bytes)
		}
		out.Put(rec)
	case "debbytes":
		// arbitrary bytes (fuzzer corpus) as a .deb: loaded three times under a watchdog
		b := []byte(S(vec["bytes"]))
		ids := []interface{}{}
		hang := false
		for i := 0; i < 3 && !hang; i++ {
			done := make(chan string, 1)
			go func() { _, id := loadOnce(b, nil); done <- id }()
			select {
			case id := <-done:
				ids = append(ids, id)
			case <-time.After(20 * time.Second):
				hang = true
			}
		}
		out.Put(J{"ev": "debraw", "in": vec, "len": len(b), "ids": ids, "hang": hang})
	case "debraw":
		// damaged .deb, described by a recipe (base package + one operation) so that vectors stay small;
		// loaded several times under a watchdog
		base, err := buildDeb(J{"members": stdMembers(vec["ctl"].(string), vec["data"].(string), "rawpkg")})
		if err != nil {
			die("debraw base: %v", err)
		}
		b := append([]byte{}, base.Bytes...)
		switch vec["op"].(string) {
		case "flip":
			b[I(vec["off"])%len(b)] ^= byte(I(vec["mask"]))
		case "trunc":
			b = b[:I(vec["off"])%(len(b)+1)]
		case "col":
			// overwrite a header column of member i with text
			hdr := base.DataOff[I(vec["member"])-1] - 60
			cols := map[string][2]int{"name": {0, 16}, "mtime": {16, 28}, "uid": {28, 34}, "gid": {34, 40}, "mode": {40, 48}, "size": {48, 58}, "magic": {58, 60}}
			c := cols[vec["col"].(string)]
			text := fmt.Sprintf("%-*s", c[1]-c[0], S(vec["text"]))
			copy(b[hdr+c[0]:hdr+c[1]], text[:c[1]-c[0]])
		case "control_text":
			// the ./control file inside control.tar replaced by a hostile text
			ms := stdMembers(vec["ctl"].(string), vec["data"].(string), "rawpkg")
			M(ms[1])["control_raw"] = vec["text"]
			nb, err := buildDeb(J{"members": ms})
			if err != nil {
				die("debraw control_text: %v", err)
			}
			b = nb.Bytes
		case "binary_text":
			// the debian-binary member replaced by a hostile text
			ms := append([]arMember{}, base.Members...)
			ms[0] = arMember{ms[0].Name, []byte(S(vec["text"]))}
			b = buildAr(ms)
		case "extra_member":
			// one more member appended to the archive (e.g. "control.sig", "data.sig")
			ms := append(append([]arMember{}, base.Members...), arMember{vec["name"].(string), []byte("not a tarball\n")})
			b = buildAr(ms)
		case "none":
		default:
			die("debraw: unknown op %v", vec["op"])
		}
		ids := []interface{}{}
		hang := false
		loads := 3
		if vec["op"] == "extra_member" {
			loads = 40 // the outcome may depend on Go map iteration order
		}
		for i := 0; i < loads && !hang; i++ {
			done := make(chan string, 1)
			go func() { _, id := loadOnce(b, nil); done <- id }()
			select {
			case id := <-done:
				ids = append(ids, id)
			case <-time.After(20 * time.Second):
				hang = true
			}
		}
		rec := J{"ev": "debraw", "in": vec, "len": len(b), "ids": ids, "hang": hang}
		if (vec["op"] == "none" || vec["op"] == "extra_member") && !hang {
			// the same bytes loaded twice and BOTH left open while their payloads are read file by file in turn
			if first, id := loadOnce(b, nil); id != "error" && id != "panic" {
				rec["tar_first"] = first["tar"]
				rec["overlap"] = overlappingLoads(b)
			}
		}
		out.Put(rec)
	default:
		die("deb: unknown vector kind %v", vec["k"])
	}
}

// ---- generators -----------------------------------------------------------------

func stdFields(pkg string) []interface{} {
	return []interface{}{
		[]interface{}{B("Package"), B(pkg)}, []interface{}{B("Version"), B("1:2.0-3")},
		[]interface{}{B("Architecture"), B("amd64")}, []interface{}{B("Maintainer"), B("A B <a@b.org>")},
		[]interface{}{B("Installed-Size"), B("42")}, []interface{}{B("Depends"), B("libc6 (>= 2.4), foo | bar")},
		[]interface{}{B("Description"), B("short\n long line\n .\n more")}, []interface{}{B("X-Unknown"), B("kept")}}
}

func stdMembers(ctlComp, dataComp string, pkg string) []interface{} {
	ext := func(c string) string {
		if c == "" {
			return ""
		}
		return "." + c
	}
	return []interface{}{
		J{"role": "binary", "name": "debian-binary", "text": B("2.0\n"), "files": []interface{}{}},
		J{"role": "control", "name": "control.tar" + ext(ctlComp), "comp": ctlComp, "extname": "tar" + ext(ctlComp), "fields": stdFields(pkg),
			"files": []interface{}{J{"name": "./", "kind": "dir"}, J{"name": "./md5sums", "kind": "file", "content": B("abc  usr/bin/x\n")}, J{"name": "./control", "kind": "control"}}},
		J{"role": "data", "name": "data.tar" + ext(dataComp), "comp": dataComp, "extname": "tar" + ext(dataComp),
			"files": []interface{}{J{"name": "./usr/bin/x", "kind": "file", "content": B("#!/bin/sh\necho hi\n")}, J{"name": "./usr/share/doc/x/copyright", "kind": "file", "content": B("free\n")}}},
	}
}

func genC14(seed int64, tier string, out *Writer) {
	// byte-level damage of valid packages for the determinism / totality part is in C15;
	// here: seeded variations of data payloads larger than the TLC shapes
	r := rand.New(rand.NewSource(seed))
	n := 10
	if tier == "thorough" {
		n = 150
	}
	comps := []string{"", "gz", "xz", "bz2", "lzma", "zst"}
	for i := 0; i < n; i++ {
		ms := stdMembers(comps[r.Intn(6)], comps[r.Intn(6)], fmt.Sprintf("pkg%d", i))
		files := []interface{}{}
		for k := r.Intn(6); k > 0; k-- {
			content := make([]byte, r.Intn(3000))
			r.Read(content)
			files = append(files, J{"name": fmt.Sprintf("./f%d", k), "kind": "file", "content": BB(content)})
		}
		M(ms[2])["files"] = files
		out.Put(J{"k": "deb", "members": ms, "reps": 3})
	}
}

// genDebRaw: structured damage of real packages whose members are stored or gzip-compressed
func genDebRaw(r *rand.Rand, tier string, out *Writer) {
	stride, tstride := 97, 211
	if tier == "thorough" {
		stride, tstride = 5, 13
	}
	texts := []string{"-1", "-60", "-61", "9999999999", "", "12x", "+5", "0", "1", "100000"}
	for _, comps := range [][2]string{{"", ""}, {"gz", "gz"}, {"gz", ""}} {
		base, err := buildDeb(J{"members": stdMembers(comps[0], comps[1], "rawpkg")})
		if err != nil {
			die("genDebRaw: %v", err)
		}
		n := len(base.Bytes)
		out.Put(J{"k": "debraw", "ctl": comps[0], "data": comps[1], "op": "none"})
		for _, nm := range []string{"control.sig", "data.sig", "control.tar", "data.tar.gz", "_gpgorigin", "control.", "data.x.tar",
			"control-old.tar", "data-old.tar", "controlx.tar.gz", "datax.tar.gz", "control", "data", "Control.tar", "xcontrol.tar",
			"control./x.tar", "data./x.tar", "x/control.tar", "control.tar.asc", "data.tar.sig"} {
			out.Put(J{"k": "debraw", "ctl": comps[0], "data": comps[1], "op": "extra_member", "name": nm})
		}
		for _, t := range []string{"", "\n", "Package\n", ": x\n", "-----BEGIN PGP SIGNED MESSAGE-----\n", "-----BEGIN PGP SIGNED MESSAGE-----\nHash: SHA256\n\nPackage: a\nVersion: 1\n",
			"-----BEGIN PGP MESSAGE-----\n\nAAAA\n-----END PGP MESSAGE-----\n", "-----BEGIN PGP ", "Package: a\nInstalled-Size: x\n", "Package: a\nVersion: :\n", "Package: a\nDepends: (\n",
			"\x00\x01\x02", "Package: a\n\nPackage: b\n", " leading continuation\n"} {
			out.Put(J{"k": "debraw", "ctl": comps[0], "data": comps[1], "op": "control_text", "text": B(t)})
		}
		for _, t := range []string{"", "\n", "\n\n", "\n2.0\n", "2", "2.", "2\n", "2.\n", ".\n", "2.0", "\x00\n", " 2.0\n", "20.0\n", "2.0\r\n"} {
			out.Put(J{"k": "debraw", "ctl": comps[0], "data": comps[1], "op": "binary_text", "text": B(t)})
		}
		for off := r.Intn(stride); off < n; off += stride {
			out.Put(J{"k": "debraw", "ctl": comps[0], "data": comps[1], "op": "flip", "off": off, "mask": 1 << uint(r.Intn(8))})
		}
		for off := r.Intn(tstride); off < n; off += tstride {
			out.Put(J{"k": "debraw", "ctl": comps[0], "data": comps[1], "op": "trunc", "off": off})
		}
		for m := 1; m <= 3; m++ {
			for _, col := range []string{"name", "mtime", "uid", "gid", "mode", "size", "magic"} {
				for _, t := range texts {
					out.Put(J{"k": "debraw", "ctl": comps[0], "data": comps[1], "op": "col", "member": m, "col": col, "text": B(t)})
				}
			}
		}
	}
}

func genC16(seed int64, tier string, out *Writer) {
	// every byte (stride-sampled in quick) of the three signed members and of the signature flipped
	r := rand.New(rand.NewSource(seed))
	stride := 37
	if tier == "thorough" {
		stride = 1
	}
	for _, comp := range []string{"gz", ""} {
		ms := stdMembers(comp, comp, "signedpkg")
		ms = append(ms, J{"role": "sig", "name": "_gpgorigin", "key": "k1", "over": []interface{}{1, 2, 3}, "files": []interface{}{}})
		b, err := buildDeb(J{"members": ms})
		if err != nil {
			die("genC16: %v", err)
		}
		for mi := range ms {
			n := len(b.Members[mi].Data)
			start := r.Intn(stride)
			for off := start; off < n; off += stride {
				out.Put(J{"k": "deb", "members": ms, "reps": 2, "check": J{"role": "origin", "keyring": []interface{}{"k1"}},
					"tamper": J{"kind": "flip", "member": mi + 1, "off": off, "num": 0, "den": 1, "mask": 1 << uint(r.Intn(8))}, "signed": []interface{}{1, 2, 3}})
			}
		}
	}
}
