package main

func execDeb(vec J, out *Writer) {
	die("deb: unknown vector kind %v", vec["k"])
}
