//go:build verif

package main

// Coverage-guided input discovery (Go native fuzzing, offline).  These targets only EXERCISE the library;
// they assert nothing.  Whatever the fuzzer keeps in its corpus is afterwards replayed through the tracer
// (`harness corpus ...` + `harness exec ...`) so that TLC, not the fuzz target, judges.

import (
	"bytes"
	"fmt"
	"io"
	"sort"
	"testing"

	"pault.ag/go/debian/deb"
)

func seedArchives() [][]byte {
	out := [][]byte{[]byte("!<arch>\n")}
	for _, comps := range [][2]string{{"", ""}, {"gz", "gz"}} {
		b, err := buildDeb(J{"members": stdMembers(comps[0], comps[1], "fuzzpkg")})
		if err == nil {
			out = append(out, b.Bytes)
		}
	}
	var small bytes.Buffer
	small.WriteString("!<arch>\n")
	fmt.Fprintf(&small, "%-16s%-12d%-6d%-6d%-8s%-10d`\n", "a", 1, 0, 0, "100644", 3)
	small.WriteString("abc\n")
	fmt.Fprintf(&small, "%-16s%-12s%-6s%-6s%-8s%-10d`\n", "debian-binary", "", "", "", "", 4)
	small.WriteString("2.0\n")
	out = append(out, small.Bytes())
	return out
}

func FuzzAr(f *testing.F) {
	for _, s := range seedArchives() {
		f.Add(s)
	}
	f.Fuzz(func(t *testing.T, data []byte) {
		if len(data) > 1<<16 {
			return
		}
		ar, err := deb.LoadAr(bytes.NewReader(data))
		if err != nil {
			return
		}
		for i := 0; i < len(data)/60+3; i++ {
			e, err := ar.Next()
			if err != nil {
				return
			}
			io.Copy(io.Discard, e.Data)
		}
	})
}

func FuzzDeb(f *testing.F) {
	for _, s := range seedArchives() {
		f.Add(s)
	}
	f.Fuzz(func(t *testing.T, data []byte) {
		if len(data) > 1<<16 {
			return
		}
		d, err := deb.Load(bytes.NewReader(data), "/tmp/fuzz.deb")
		if err != nil {
			return
		}
		d.Close()
	})
}

func FuzzParsers(f *testing.F) {
	names := []string{}
	for n := range entries {
		names = append(names, n)
	}
	sort.Strings(names)
	for i, n := range names {
		for _, s := range seedsC18[n] {
			f.Add(uint8(i), []byte(s))
		}
	}
	f.Fuzz(func(t *testing.T, which uint8, data []byte) {
		if len(data) > 1<<16 {
			return
		}
		entries[names[int(which)%len(names)]](data)
	})
}
