package main

import (
	"archive/tar"
	"bytes"
	"compress/gzip"
	"fmt"
	"os/exec"
	"strings"

	"github.com/klauspost/compress/zstd"
)

// Everything here is ground truth the TLA+ side cannot compute: real tar,
// real compression, real ar framing of abstract package shapes.

type tarFile struct {
	Name    string
	Content []byte
	Dir     bool
}

func buildTar(files []tarFile) []byte {
	var buf bytes.Buffer
	tw := tar.NewWriter(&buf)
	for _, f := range files {
		h := &tar.Header{Name: f.Name, Mode: 0644, Size: int64(len(f.Content)), Typeflag: tar.TypeReg, Format: tar.FormatGNU}
		if f.Dir {
			h.Typeflag = tar.TypeDir
			h.Mode = 0755
			h.Size = 0
		}
		if err := tw.WriteHeader(h); err != nil {
			die("tar header: %v", err)
		}
		if !f.Dir {
			tw.Write(f.Content)
		}
	}
	tw.Close()
	return buf.Bytes()
}

var compressorMissing = map[string]bool{}

func pipeThrough(data []byte, name string, args ...string) ([]byte, error) {
	cmd := exec.Command(name, args...)
	cmd.Stdin = bytes.NewReader(data)
	var out, errb bytes.Buffer
	cmd.Stdout = &out
	cmd.Stderr = &errb
	if err := cmd.Run(); err != nil {
		return nil, fmt.Errorf("%s: %v %s", name, err, errb.String())
	}
	return out.Bytes(), nil
}

// compress returns data encoded for the given member extension ("" = stored).
func compress(comp string, data []byte) ([]byte, error) {
	switch comp {
	case "", "none":
		return data, nil
	case "gz":
		var buf bytes.Buffer
		zw := gzip.NewWriter(&buf)
		zw.Write(data)
		zw.Close()
		return buf.Bytes(), nil
	case "gz2":
		// a gzip FILE of two members (what `cat a.gz b.gz`, pigz -i or bgzip write): the tar stream is cut after its first
		// 512-byte block and each part is compressed on its own
		cut := 512
		if len(data) < cut {
			cut = len(data)
		}
		var buf bytes.Buffer
		for _, part := range [][]byte{data[:cut], data[cut:]} {
			zw := gzip.NewWriter(&buf)
			zw.Write(part)
			zw.Close()
		}
		return buf.Bytes(), nil
	case "zst":
		var buf bytes.Buffer
		zw, err := zstd.NewWriter(&buf)
		if err != nil {
			return nil, err
		}
		zw.Write(data)
		zw.Close()
		return buf.Bytes(), nil
	case "xz":
		return pipeThrough(data, "xz", "-c", "-0")
	case "lzma":
		return pipeThrough(data, "xz", "--format=lzma", "-c", "-0")
	case "bz2":
		return pipeThrough(data, "bzip2", "-c")
	}
	return nil, fmt.Errorf("unknown compression %q", comp)
}

type arMember struct {
	Name string
	Data []byte
}

func buildAr(members []arMember) []byte {
	var buf bytes.Buffer
	buf.WriteString("!<arch>\n")
	for _, m := range members {
		// owner and group ids fill their six columns; the mode fills its eight; the timestamp is a ten-digit number beyond 2^32
		fmt.Fprintf(&buf, "%-16s%-12d%-6d%-6d%-8s%-10d`\n", m.Name, 5656124762, 123456, 654321, "37777775", len(m.Data))
		buf.Write(m.Data)
		if len(m.Data)%2 == 1 {
			buf.WriteByte('\n')
		}
	}
	return buf.Bytes()
}

func renderControl(fields []interface{}) []byte {
	var sb strings.Builder
	for _, f := range fields {
		kv := L(f)
		sb.WriteString(S(kv[0]) + ": " + S(kv[1]) + "\n")
	}
	return []byte(sb.String())
}

// memberLayout remembers where each member's data sits in the archive.
type builtDeb struct {
	Bytes   []byte
	Members []arMember
	DataOff []int // offset of member data in Bytes
}

func layout(members []arMember) builtDeb {
	b := builtDeb{Members: members}
	off := 8
	for _, m := range members {
		b.DataOff = append(b.DataOff, off+60)
		off += 60 + len(m.Data) + len(m.Data)%2
	}
	b.Bytes = buildAr(members)
	return b
}
