package main

import (
	"math/rand"
	"os"
	"strings"

	"pault.ag/go/debian/dependency"
	"pault.ag/go/debian/version"
)

func init() {
	props["C04"] = &prop{gen: genC04, exec: execDep}
	props["C05"] = &prop{gen: genC05, exec: execDep}
	props["C06"] = &prop{gen: genC06, exec: execDep}
}

// ---- projection ---------------------------------------------------------------

func tripleJ(a dependency.Arch) J {
	return J{"abi": B(a.ABI), "os": B(a.OS), "cpu": B(a.CPU)}
}

func tripleFromJ(j J) dependency.Arch {
	return dependency.Arch{ABI: S(j["abi"]), OS: S(j["os"]), CPU: S(j["cpu"])}
}

func possJ(p dependency.Possibility) J {
	qual := J{"some": false, "t": tripleJ(dependency.Arch{})}
	if p.Arch != nil {
		qual = J{"some": true, "t": tripleJ(*p.Arch)}
	}
	ver := J{"some": false, "op": B(""), "num": B("")}
	if p.Version != nil {
		ver = J{"some": true, "op": B(p.Version.Operator), "num": B(p.Version.Number)}
	}
	archs := J{"not": false, "list": []interface{}{}}
	if p.Architectures != nil {
		l := []interface{}{}
		for _, a := range p.Architectures.Architectures {
			l = append(l, tripleJ(a))
		}
		archs = J{"not": p.Architectures.Not, "list": l}
	}
	stages := []interface{}{}
	for _, ss := range p.StageSets {
		set := []interface{}{}
		for _, s := range ss.Stages {
			set = append(set, J{"not": s.Not, "name": B(s.Name)})
		}
		stages = append(stages, set)
	}
	return J{"name": B(p.Name), "qual": qual, "ver": ver, "archs": archs, "stages": stages, "substvar": p.Substvar}
}

func depJ(d *dependency.Dependency) []interface{} {
	out := []interface{}{}
	if d == nil {
		return out
	}
	for _, r := range d.Relations {
		rel := []interface{}{}
		for _, p := range r.Possibilities {
			rel = append(rel, possJ(p))
		}
		out = append(out, rel)
	}
	return out
}

func possFromJ(j J) dependency.Possibility {
	p := dependency.Possibility{Name: S(j["name"]), Substvar: j["substvar"].(bool)}
	if q := M(j["qual"]); q["some"].(bool) {
		a := tripleFromJ(M(q["t"]))
		p.Arch = &a
	}
	if v := M(j["ver"]); v["some"].(bool) {
		p.Version = &dependency.VersionRelation{Operator: S(v["op"]), Number: S(v["num"])}
	}
	as := M(j["archs"])
	set := &dependency.ArchSet{Not: as["not"].(bool), Architectures: []dependency.Arch{}}
	for _, a := range L(as["list"]) {
		set.Architectures = append(set.Architectures, tripleFromJ(M(a)))
	}
	p.Architectures = set
	for _, ss := range L(j["stages"]) {
		st := dependency.StageSet{}
		for _, s := range L(ss) {
			sj := M(s)
			st.Stages = append(st.Stages, dependency.Stage{Not: sj["not"].(bool), Name: S(sj["name"])})
		}
		p.StageSets = append(p.StageSets, st)
	}
	return p
}

func depFromJ(l []interface{}) dependency.Dependency {
	d := dependency.Dependency{Relations: []dependency.Relation{}}
	for _, r := range l {
		rel := dependency.Relation{Possibilities: []dependency.Possibility{}}
		for _, p := range L(r) {
			rel.Possibilities = append(rel.Possibilities, possFromJ(M(p)))
		}
		d.Relations = append(d.Relations, rel)
	}
	return d
}

type depObs struct {
	ok  bool
	dep *dependency.Dependency
}

func (o depObs) J() J {
	return J{"ok": o.ok, "nil": o.dep == nil, "ast": depJ(o.dep)}
}

func parseDep(text string) (o depObs) {
	defer func() {
		if r := recover(); r != nil {
			o = depObs{}
		}
	}()
	d, err := dependency.Parse(text)
	return depObs{ok: err == nil, dep: d}
}

func names(ps []dependency.Possibility) []interface{} {
	out := []interface{}{}
	for _, p := range ps {
		out = append(out, B(p.Name))
	}
	return out
}

// ---- executor -------------------------------------------------------------------

func execDep(vec J, out *Writer) {
	switch vec["k"].(string) {
	case "dep", "dep_rt":
		text := S(vec["text"])
		panicked := false
		var p depObs
		func() {
			defer func() {
				if r := recover(); r != nil {
					panicked = true
				}
			}()
			d, err := dependency.Parse(text)
			p = depObs{ok: err == nil, dep: d}
		}()
		rec := J{"ev": vec["k"], "in": vec, "res": p.J(), "panic": panicked}
		var viaControl dependency.Dependency
		cerr := viaControl.UnmarshalControl(text)
		rec["res_control"] = J{"ok": cerr == nil, "ast": depJ(&viaControl)}
		// UnmarshalControl into a value that already holds relations (a decoder loop reuses its struct)
		dirty, _ := dependency.Parse("zzz (>= 9) | yyy, xxx")
		derr := dirty.UnmarshalControl(text)
		rec["dirty_control"] = J{"ok": derr == nil, "ast": depJ(dirty)}
		// a value that was decoded earlier and KEPT (a struct copy) must not change when the same receiver decodes
		// another field afterwards (a Decoder loop that keeps what it read)
		var recv dependency.Dependency
		kerr := recv.UnmarshalControl(text)
		kept := recv
		recv.UnmarshalControl("zzz (>= 9) | yyy [sparc] <!cross>, xxx:any, www, ${v:Depends}")
		rec["kept_after"] = J{"ok": kerr == nil, "ast": depJ(&kept)}
		// two parses of one text are two values: editing everything reachable from the first (qualifiers, architecture
		// lists, names) leaves the second as it was
		a1, e1 := dependency.Parse(text)
		a2, e2 := dependency.Parse(text)
		if e1 == nil && e2 == nil && a1 != nil && a2 != nil {
			for i := range a1.Relations {
				for j := range a1.Relations[i].Possibilities {
					po := &a1.Relations[i].Possibilities[j]
					po.Name = "edited"
					if po.Arch != nil {
						po.Arch.ABI, po.Arch.OS, po.Arch.CPU = "e", "d", "it"
					}
					if po.Architectures != nil {
						for k := range po.Architectures.Architectures {
							po.Architectures.Architectures[k].CPU = "edited"
						}
					}
					if po.Version != nil {
						po.Version.Number = "0edited"
					}
					for k := range po.StageSets {
						for l := range po.StageSets[k].Stages {
							po.StageSets[k].Stages[l].Name = "edited"
						}
					}
				}
			}
			rec["independent"] = J{"ok": true, "ast": depJ(a2)}
		} else {
			rec["independent"] = J{"ok": false, "ast": depJ(nil)}
		}
		if p.ok && p.dep != nil {
			r := p.dep.String()
			mc, _ := p.dep.MarshalControl()
			back := parseDep(r)
			rec["rt"] = J{"r": B(r), "same_control": mc == r, "back": back.J()}
		} else {
			rec["rt"] = J{"r": B(""), "same_control": true, "back": depObs{}.J()}
		}
		out.Put(rec)
	case "arch_rt":
		name := S(vec["name"])
		a1, err1 := dependency.ParseArch(name)
		rec := J{"ev": "arch_rt", "in": vec, "ok": err1 == nil}
		var viaControl dependency.Arch
		cerr := viaControl.UnmarshalControl(name)
		rec["via_control"] = J{"ok": cerr == nil, "t": tripleJ(viaControl)}
		if err1 == nil {
			r := a1.String()
			mc, _ := a1.MarshalControl()
			a2, err2 := dependency.ParseArch(r)
			rec["t1"] = tripleJ(*a1)
			rec["r"] = B(r)
			rec["same_control"] = mc == r
			rec["ok2"] = err2 == nil
			if err2 == nil {
				rec["t2"] = tripleJ(*a2)
			} else {
				rec["t2"] = tripleJ(dependency.Arch{})
			}
		}
		out.Put(rec)
	case "is":
		x, y := tripleFromJ(M(vec["x"])), tripleFromJ(M(vec["y"]))
		rec := J{"ev": "is", "in": vec, "r_xy": x.Is(&y), "r_yx": y.Is(&x)}
		// the same question on values that went through ParseArch of their canonical names
		if xn, ok := vec["xn"]; ok {
			px, e1 := dependency.ParseArch(S(xn))
			py, e2 := dependency.ParseArch(S(vec["yn"]))
			if e1 == nil && e2 == nil {
				rec["parsed"] = J{"some": true, "r_xy": px.Is(py), "r_yx": py.Is(px), "tx": tripleJ(*px), "ty": tripleJ(*py)}
			}
		}
		if _, ok := rec["parsed"]; !ok {
			rec["parsed"] = J{"some": false}
		}
		// ... and through Arch.UnmarshalControl (how a typed control paragraph fills an Arch field): into fresh values
		// and into values that already hold another architecture (a Decoder loop reuses its struct)
		for _, route := range []string{"uc", "uc_dirty"} {
			rec[route] = J{"some": false}
			if xn, ok := vec["xn"]; ok {
				var ux, uy dependency.Arch
				if route == "uc_dirty" {
					ux = dependency.Arch{ABI: "gnu", OS: "hurd", CPU: "zzz"}
					uy = dependency.Arch{ABI: "musl", OS: "linux", CPU: "yyy"}
				}
				if ux.UnmarshalControl(S(xn)) == nil && uy.UnmarshalControl(S(vec["yn"])) == nil {
					rec[route] = J{"some": true, "r_xy": ux.Is(&uy), "r_yx": uy.Is(&ux), "tx": tripleJ(ux), "ty": tripleJ(uy)}
				}
			}
		}
		out.Put(rec)
	case "setmatch":
		sj := M(vec["set"])
		set := dependency.ArchSet{Not: sj["not"].(bool), Architectures: []dependency.Arch{}}
		for _, a := range L(sj["list"]) {
			set.Architectures = append(set.Architectures, tripleFromJ(M(a)))
		}
		a := tripleFromJ(M(vec["a"]))
		out.Put(J{"ev": "setmatch", "in": vec, "r": set.Matches(&a)})
	case "select":
		// built as structs, and (when given) through text + Parse
		d := depFromJ(L(vec["dep"]))
		a := tripleFromJ(M(vec["a"]))
		rec := J{"ev": "select", "in": vec, "poss": names(d.GetPossibilities(a)), "all": names(d.GetAllPossibilities()),
			"subst": names(d.GetSubstvars())}
		if t, ok := vec["text"]; ok {
			pd, err := dependency.Parse(S(t))
			if err == nil {
				rec["parsed"] = J{"some": true, "poss": names(pd.GetPossibilities(a)), "all": names(pd.GetAllPossibilities()), "subst": names(pd.GetSubstvars())}
			}
		}
		if _, ok := rec["parsed"]; !ok {
			rec["parsed"] = J{"some": false}
		}
		out.Put(rec)
	case "sat":
		vr := dependency.VersionRelation{Operator: S(vec["op"]), Number: S(vec["n"])}
		v := verFromJ(M(vec["v"]))
		_, nerr := version.Parse(S(vec["n"]))
		out.Put(J{"ev": "sat", "in": vec, "r": vr.SatisfiedBy(v), "n_parses": nerr == nil})
	default:
		die("dependency: unknown vector kind %v", vec["k"])
	}
}

// ---- generators -----------------------------------------------------------------

// baseTexts reads the TLC-generated renderings that the mutators start from.
func baseTexts() []string {
	path := os.Getenv("VERIF_BASE")
	texts := []string{"foo (>= 1.0) [amd64 i386] <stage1 !cross> | bar:any, ${misc:Depends}, baz [!hurd-any]"}
	if path == "" {
		return texts
	}
	ReadNDJSON(path, func(v J) {
		if t, ok := v["text"]; ok {
			texts = append(texts, S(t))
		}
	})
	return texts
}

func genC04(seed int64, tier string, out *Writer) {
	r := rand.New(rand.NewSource(seed))
	base := baseTexts()
	n := 6000
	if tier == "thorough" {
		n = 150000
	}
	delims := ",|()[]<>:!${} \t\n="
	for i := 0; i < n; i++ {
		t := base[r.Intn(len(base))]
		if len(t) == 0 {
			continue
		}
		pos := r.Intn(len(t))
		var m string
		switch r.Intn(7) {
		case 0: // delete one byte
			m = t[:pos] + t[pos+1:]
		case 1: // duplicate one byte
			m = t[:pos+1] + t[pos:]
		case 2: // cut the field short (end of input inside any construct)
			m = t[:pos+1]
		case 3: // a byte outside ASCII, or NUL
			m = t[:pos] + string([]byte{[]byte{0x00, 0x80, 0xa9, 0xc3, 0xff}[r.Intn(5)]}) + t[pos+1:]
		case 4: // a two-byte UTF-8 character inserted
			m = t[:pos] + "\xc3\xa9" + t[pos:]
		default: // substitute by a delimiter
			m = t[:pos] + string(delims[r.Intn(len(delims))]) + t[pos+1:]
		}
		out.Put(J{"k": "dep", "text": B(m)})
	}
	// larger shapes than TLC enumerates
	words := []string{"foo", "libc6", "a", "x11-common", "g++", "python3.11"}
	for i := 0; i < n/20; i++ {
		var rels []string
		for k := 1 + r.Intn(6); k > 0; k-- {
			var alts []string
			for a := 1 + r.Intn(4); a > 0; a-- {
				s := words[r.Intn(len(words))]
				if r.Intn(4) == 0 {
					s += ":" + []string{"any", "native", "amd64"}[r.Intn(3)]
				}
				if r.Intn(2) == 0 {
					s += " (" + []string{">=", "<<", "=", "<=", ">>"}[r.Intn(5)] + " " + []string{"1.0", "2:3.4~5-6", "0"}[r.Intn(3)] + ")"
				}
				if r.Intn(3) == 0 {
					s += " [" + []string{"amd64", "!amd64 !i386", "linux-any", "any-arm64 hurd-i386"}[r.Intn(4)] + "]"
				}
				if r.Intn(4) == 0 {
					s += " <" + []string{"stage1", "!nocheck", "cross !stage2"}[r.Intn(3)] + ">"
				}
				if r.Intn(12) == 0 {
					s = "${shlibs:Depends}"
				}
				alts = append(alts, s)
			}
			rels = append(rels, strings.Join(alts, " | "))
		}
		out.Put(J{"k": "dep", "text": B(strings.Join(rels, []string{", ", ",\n", ","}[r.Intn(3)]))})
	}
}

func genC05(seed int64, tier string, out *Writer) {
	r := rand.New(rand.NewSource(seed))
	base := baseTexts()
	n := 3000
	if tier == "thorough" {
		n = 80000
	}
	alpha := "abz019 ,|()[]<>:!${}=~+.-\t\n"
	high := []string{"\xc3\xa9", "\xff", "\x80", "\xe2\x82\xac", "\x00"}
	for i := 0; i < n; i++ {
		switch r.Intn(4) {
		case 0: // raw bytes
			out.Put(J{"k": "dep_rt", "text": B(randBytes(r, r.Intn(32), alpha))})
		case 1: // bytes outside ASCII (and NUL) inside names, versions, architecture and profile names
			t := base[r.Intn(len(base))]
			if len(t) > 0 {
				pos := r.Intn(len(t))
				h := high[r.Intn(len(high))]
				if r.Intn(2) == 0 {
					t = t[:pos] + h + t[pos:]
				} else {
					t = t[:pos] + h + t[pos+1:]
				}
			}
			out.Put(J{"k": "dep_rt", "text": B(t)})
		default: // mutated valid fields
			t := base[r.Intn(len(base))]
			for k := r.Intn(3); k > 0 && len(t) > 0; k-- {
				pos := r.Intn(len(t))
				t = t[:pos] + string(alpha[r.Intn(len(alpha))]) + t[pos+1:]
			}
			out.Put(J{"k": "dep_rt", "text": B(t)})
		}
	}
	// real architecture names
	for _, a := range []string{"amd64", "arm64", "armel", "armhf", "i386", "mips64el", "ppc64el", "riscv64", "s390x", "hurd-i386", "kfreebsd-amd64",
		"kfreebsd-i386", "linux-any", "any-amd64", "kfreebsd-any", "any", "all", "musl-linux-armhf", "uclibc-linux-armel", "gnu-linux-amd64",
		"musl-linux-any", "gnu-any-any", "any-any-any", "any-linux-any", "gnu-linux-any", "x32", "source"} {
		out.Put(J{"k": "arch_rt", "name": B(a)})
	}
}

func genC06(seed int64, tier string, out *Writer) {
	r := rand.New(rand.NewSource(seed))
	n := 2000
	if tier == "thorough" {
		n = 40000
	}
	real := []string{"amd64", "arm64", "i386", "hurd-i386", "kfreebsd-amd64", "linux-any", "any-amd64", "any", "all", "musl-linux-armhf",
		"gnu-linux-amd64", "musl-linux-any", "gnu-any-any", "any-i386", "kfreebsd-any", "musl-any-any"}
	for i := 0; i < n; i++ {
		x, _ := dependency.ParseArch(real[r.Intn(len(real))])
		y, _ := dependency.ParseArch(real[r.Intn(len(real))])
		out.Put(J{"k": "is", "x": tripleJ(*x), "y": tripleJ(*y)})
	}
	vers := []string{"1.0", "1.00", "1.0-0", "1.0~rc1", "1.0+b1", "2:0.1", "0", "1.0-1", "1.0-1~bpo1", "10", "9"}
	ops := []string{"<<", "<=", "=", ">=", ">>", "<", ">", "==", "", "!="}
	bad := []string{"", "abc", "1 0", "-1:0", "a:1", "1.0_x"}
	for i := 0; i < n; i++ {
		nn := vers[r.Intn(len(vers))]
		if r.Intn(6) == 0 {
			nn = bad[r.Intn(len(bad))]
		}
		out.Put(J{"k": "sat", "op": B(ops[r.Intn(len(ops))]), "n": B(nn), "v": realVer(vers[r.Intn(len(vers))])})
	}
}
