package main

import (
	"bufio"
	"os"
	"path/filepath"
	"sort"
	"strconv"
	"strings"
)

func init() {
	subcommands["corpus"] = corpusCmd
}

// corpusCmd turns a Go fuzzing corpus directory into vectors:  harness corpus <dir> <kind> <out.ndjson>
//
//	kind ar      -> {"k":"arraw","bytes":…}          kind deb -> {"k":"debbytes","bytes":…}
//	kind parsers -> {"k":"seq","entry":…,"input":…}
func corpusCmd(args []string) {
	if len(args) != 3 {
		die("usage: harness corpus <dir> <kind> <out>")
	}
	dir, kind := args[0], args[1]
	w := NewWriter(args[2])
	defer w.Close()
	names := entryNames()
	files, _ := filepath.Glob(filepath.Join(dir, "*"))
	sort.Strings(files)
	for _, f := range files {
		vals := readCorpusFile(f)
		if vals == nil {
			continue
		}
		switch kind {
		case "ar":
			if len(vals) == 1 && len(vals[0].b) <= 4096 {
				w.Put(J{"k": "arraw", "bytes": BB(vals[0].b), "src": "fuzz"})
			}
		case "deb":
			if len(vals) == 1 && len(vals[0].b) <= 1<<16 {
				w.Put(J{"k": "debbytes", "bytes": BB(vals[0].b), "src": "fuzz"})
			}
		case "parsers":
			if len(vals) == 2 {
				w.Put(J{"k": "seq", "entry": names[int(vals[0].n)%len(names)], "input": BB(vals[1].b), "src": "fuzz"})
			}
		}
	}
}

type corpusVal struct {
	b []byte
	n uint64
}

// readCorpusFile parses the "go test fuzz v1" encoding ([]byte("…"), uint8(…) lines)
func readCorpusFile(path string) []corpusVal {
	f, err := os.Open(path)
	if err != nil {
		return nil
	}
	defer f.Close()
	sc := bufio.NewScanner(f)
	sc.Buffer(make([]byte, 1<<20), 1<<26)
	if !sc.Scan() || !strings.HasPrefix(sc.Text(), "go test fuzz v1") {
		return nil
	}
	out := []corpusVal{}
	for sc.Scan() {
		line := strings.TrimSpace(sc.Text())
		switch {
		case strings.HasPrefix(line, "[]byte(") && strings.HasSuffix(line, ")"):
			s, err := strconv.Unquote(line[len("[]byte(") : len(line)-1])
			if err != nil {
				return nil
			}
			out = append(out, corpusVal{b: []byte(s)})
		case strings.HasPrefix(line, "uint8(") || strings.HasPrefix(line, "byte("):
			inner := line[strings.Index(line, "(")+1 : len(line)-1]
			if strings.HasPrefix(inner, "'") {
				r, _, _, err := strconv.UnquoteChar(inner[1:len(inner)-1], '\'')
				if err != nil {
					return nil
				}
				out = append(out, corpusVal{n: uint64(r)})
			} else {
				n, err := strconv.ParseUint(inner, 0, 64)
				if err != nil {
					return nil
				}
				out = append(out, corpusVal{n: n})
			}
		case line == "":
		default:
			return nil
		}
	}
	return out
}
