#!/usr/bin/env python3
"""Regenerate MANIFEST.json from the property table (single source of truth: lib/manifest_data.py)."""
import json, os, sys
sys.path.insert(0, os.path.dirname(os.path.abspath(__file__)))
import manifest_data as md

ROOT = os.path.dirname(os.path.dirname(os.path.abspath(__file__)))
ids = [json.loads(l)["id"] for l in open(os.path.join(ROOT, "properties.jsonl"))]
checks, na = [], []
for pid in ids:
    if pid in md.CLAIMED:
        c = md.CLAIMED[pid]
        checks.append({
            "property_id": pid,
            "quick_cmd": "./check %s quick" % pid,
            "thorough_cmd": "./check %s thorough" % pid,
            "evidence_file": "/verif/evidence/%s.json" % pid,
            "replay_cmd_template": "./check %s --replay {path}" % pid,
            "engine": "tlc-conformance",
            "level_claimed": {"category": "model_checking", "text": c["text"], "design_ref": c["design_ref"]},
            "level_note": c["note"],
            "technique": c["technique"],
        })
    else:
        na.append({"property_id": pid, "reason": md.NOT_APPLICABLE.get(pid, "not built yet in this round; see DESIGN.md section 3 for the planned TLA+ formulation")})
m = {
    "version": 1,
    "setup_cmd": "./setup.sh",
    "hooks": md.HOOKS,
    "engines": [{"name": "tlc-conformance", "path": "/verif/check",
                 "serves_properties": sorted(md.CLAIMED),
                 "kind_free_text": "explicit TLA+ specifications (spec/*.tla) checked with TLC: exhaustive model checking of Impl-layer machines and spec laws (M), TLC-generated vectors replayed into the real Go packages (G), and TLC validation of traces recorded from the real code (V)"}],
    "checks": checks,
    "not_applicable": na,
    "notes": md.NOTES,
}
json.dump(m, open(os.path.join(ROOT, "MANIFEST.json"), "w"), indent=1)
print("MANIFEST.json: %d checks, %d not_applicable" % (len(checks), len(na)))
