"""Orchestration library for the TLA+ model-based checks of paultag/go-debian.

Three uses of TLC (DESIGN.md 2.2):
  M  model-check an Impl/laws module exhaustively            -> mc()
  G  generate vectors from the specification                  -> gen()
  V  validate a trace recorded from the real code             -> validate()
The Go harness (harness/) executes vectors on the real packages and records
observations; it never judges.  Every verdict is a TLC evaluation of the
specification on an observation of the real code.

Exit codes of a check: 0 held, 1 violation (VIOLATION line printed), 2 check broken.
"""
import hashlib
import json
import os
import re
import shutil
import subprocess
import sys
import time

ROOT = os.path.dirname(os.path.dirname(os.path.abspath(__file__)))
SPEC = os.path.join(ROOT, "spec")
HARNESS = os.path.join(ROOT, "harness")
HBIN = os.path.join(HARNESS, "bin", "harness")
REPO = os.environ.get("VERIF_REPO", "/repo")
CP = "/opt/veriftools/tla/tla2tools.jar:/opt/veriftools/tla/CommunityModules-deps.jar"

GOENV = dict(os.environ, GOFLAGS="-mod=mod", GOPROXY="off", GOSUMDB="off", GOTOOLCHAIN="local",
             CGO_ENABLED=os.environ.get("CGO_ENABLED", "0"))


class Broken(Exception):
    """The check itself could not run (tool failure, timeout, OOM): exit 2, never a violation."""


def log(msg):
    print(msg, flush=True)


# --------------------------------------------------------------------------- context
class Ctx:
    def __init__(self, prop, tier, seed, clean_replays=True):
        self.prop = prop
        self.tier = tier
        self.seed = seed
        self.t0 = time.time()
        self.run = os.path.join(ROOT, "run", prop)
        shutil.rmtree(self.run, ignore_errors=True)
        os.makedirs(self.run)
        self.trace_src = {}
        rdir = os.path.join(ROOT, "replays")
        if clean_replays and os.path.isdir(rdir):
            for f in os.listdir(rdir):
                if f.startswith(prop + "-"):
                    os.remove(os.path.join(rdir, f))
        self.states = 0          # distinct states over all TLC runs
        self.transitions = 0     # states generated (= transitions evaluated)
        self.tlc_runs = []
        self.judged = 0
        self.classes = {}
        self.nontrivial = set()
        self.samples = []
        self.violations = []     # dicts
        self.truncated = False   # the harness stopped early after calls that did not return
        self.unreproduced = 0
        self.known = []          # (finding, violation)
        self.notes = []
        self.exhaustive = False
        self.assumptions = []
        self.extra = {}
        self._n = 0

    def path(self, name):
        return os.path.join(self.run, name)

    def fresh(self, stem):
        self._n += 1
        return os.path.join(self.run, "%s.%d" % (stem, self._n))


# --------------------------------------------------------------------------- harness
_built = False


def build_harness():
    """Rebuild the harness against /repo's current working tree (hooks on)."""
    global _built
    if _built:
        return
    gosum = os.path.join(HARNESS, "go.sum")
    try:
        shutil.copyfile(os.path.join(REPO, "go.sum"), gosum)
        extra = os.path.join(HARNESS, "go.sum.extra")
        if os.path.exists(extra):
            with open(gosum, "a") as f:
                f.write(open(extra).read())
    except OSError as e:
        raise Broken("cannot prepare go.sum: %s" % e)
    os.makedirs(os.path.join(HARNESS, "bin"), exist_ok=True)
    if REPO != "/repo":
        # a background sweep works on its own snapshot of the repository (vp run --with-repo): point the harness at it
        subprocess.run(["go", "mod", "edit", "-replace", "pault.ag/go/debian=" + REPO], cwd=HARNESS, env=GOENV, check=False)
    # VERIF_COVER=1 (with GOCOVERDIR set): a statement-coverage build, to see which library code the vectors never reach
    cover = ["-cover", "-coverpkg=pault.ag/go/debian/...,verif/harness"] if os.environ.get("VERIF_COVER") else []
    p = subprocess.run(["go", "build"] + cover + ["-tags", "verif", "-o", HBIN, "."], cwd=HARNESS, env=GOENV,
                       stdout=subprocess.PIPE, stderr=subprocess.STDOUT, text=True)
    if p.returncode != 0:
        # A /repo that does not compile is not a property violation.
        raise Broken("harness build failed:\n" + p.stdout[-4000:])
    _built = True


HRACE = os.path.join(HARNESS, "bin", "harness-race")
_built_race = False


def build_race_harness():
    """The same harness built with the Go race detector (needs cgo)."""
    global _built_race
    if _built_race:
        return
    build_harness()
    e = dict(GOENV, CGO_ENABLED="1")
    p = subprocess.run(["go", "build", "-race", "-tags", "verif", "-o", HRACE, "."], cwd=HARNESS, env=e,
                       stdout=subprocess.PIPE, stderr=subprocess.STDOUT, text=True)
    if p.returncode != 0:
        raise Broken("race-enabled harness build failed:\n" + p.stdout[-3000:])
    _built_race = True


def harness_race(ctx, args, timeout=1800):
    """Run the race-enabled harness; returns (output, race_reported)."""
    build_race_harness()
    e = dict(GOENV, GORACE="halt_on_error=0 exitcode=0")
    try:
        p = subprocess.run([HRACE] + [str(a) for a in args], cwd=ctx.run, env=e, timeout=timeout,
                           stdout=subprocess.PIPE, stderr=subprocess.STDOUT, text=True)
    except subprocess.TimeoutExpired:
        raise Broken("race harness %s timed out" % (args[:2],))
    if p.returncode != 0:
        # the Go runtime aborts a process on unsynchronised map access: that IS the race, seen without the detector's help
        if "fatal error: concurrent map" in p.stdout:
            return p.stdout, True
        raise Broken("race harness %s failed (%d):\n%s" % (args[:3], p.returncode, p.stdout[-3000:]))
    return p.stdout, "WARNING: DATA RACE" in p.stdout


def harness(ctx, args, timeout=1800, env=None):
    build_harness()
    e = dict(GOENV)
    if env:
        e.update(env)
    try:
        p = subprocess.run([HBIN] + [str(a) for a in args], cwd=ctx.run, env=e, timeout=timeout,
                           stdout=subprocess.PIPE, stderr=subprocess.STDOUT, text=True)
    except subprocess.TimeoutExpired:
        raise Broken("harness %s timed out after %ds" % (args[:2], timeout))
    if p.returncode != 0:
        raise Broken("harness %s failed (%d):\n%s" % (args[:3], p.returncode, p.stdout[-3000:]))
    return p.stdout


def fuzz(ctx, target, kind, seconds, out):
    """Coverage-guided corpus growth with Go's native fuzzer (offline).  The fuzz target asserts nothing; the corpus
    it keeps (and any crasher) becomes vectors that are replayed through the tracer and judged by TLC."""
    build_harness()
    cache = ctx.fresh("fuzzcache")
    os.makedirs(cache)
    crashdir = os.path.join(HARNESS, "testdata", "fuzz", target)
    shutil.rmtree(crashdir, ignore_errors=True)
    t0 = time.time()
    try:
        p = subprocess.run(["go", "test", "-tags", "verif", "-run", "^$", "-fuzz", "^%s$" % target, "-fuzztime", "%ds" % seconds,
                            "-test.fuzzcachedir", cache, "."], cwd=HARNESS, env=GOENV, timeout=seconds + 300,
                           stdout=subprocess.PIPE, stderr=subprocess.STDOUT, text=True)
        tail = p.stdout.strip().splitlines()[-3:]
    except subprocess.TimeoutExpired:
        raise Broken("go test -fuzz %s did not finish" % target)
    parts = []
    for d in (os.path.join(cache, target), crashdir):
        if os.path.isdir(d):
            part = ctx.fresh("corpus") + ".ndjson"
            harness(ctx, ["corpus", d, kind, part])
            parts.append(part)
    cat(out, *parts)
    n = count_lines(out)
    crashed = os.path.isdir(crashdir)
    shutil.rmtree(crashdir, ignore_errors=True)
    shutil.rmtree(cache, ignore_errors=True)
    ctx.extra.setdefault("fuzz", []).append({"target": target, "seconds": seconds, "corpus_vectors": n, "crasher_found": crashed,
                                             "wall_s": round(time.time() - t0, 1), "tail": tail})
    log("  F %-28s %ds of coverage-guided fuzzing -> %d corpus vectors%s" % (target, seconds, n, " (CRASHER)" if crashed else ""))
    return out


def hgen(ctx, prop, out, seed=None, tier=None, base=None):
    harness(ctx, ["gen", prop, ctx.seed if seed is None else seed, tier or ctx.tier, out],
            env={"VERIF_BASE": base} if base else None)
    return out


def hexec(ctx, prop, vectors, trace, timeout=3600, env=None):
    out = harness(ctx, ["exec", prop, vectors, trace], timeout=timeout, env=env)
    if "TRUNCATED:" in out:
        # calls that did not return: the run was cut short; without a confirmed violation this is a broken run
        ctx.truncated = True
        log("  " + [l for l in out.splitlines() if l.startswith("TRUNCATED:")][0])
    return trace


# --------------------------------------------------------------------------- TLC
def java_opts(heap_gb, xss_mb=64):
    # Measured in this sandbox (DESIGN 2.4): first touch of never-used guest memory costs ~12 s/GB and
    # concurrent page faults are far worse, so heaps are kept small (pages get recycled between runs),
    # the young generation is fixed and small, and thread counts are modest.
    return ["-XX:+UseParallelGC", "-XX:ParallelGCThreads=4", "-Xss%dm" % xss_mb,
            "-Xmx%dg" % heap_gb, "-Xmn512m"]


_STAT = re.compile(r"(\d+) states generated, (\d+) distinct states found")


def tlc(ctx, module, cfg, env=None, workers=6, heap_gb=3, timeout=900, extra=None, what="", ok_codes=(0,)):
    """Run TLC; return (exitcode, output).  Timeout / crash => Broken."""
    meta = ctx.fresh("tlc")
    # TLC makes one temporary directory per run under java.io.tmpdir: keep them inside this run's directory (removed with
    # it) instead of littering /tmp
    jtmp = os.path.join(ctx.run, "jtmp")
    os.makedirs(jtmp, exist_ok=True)
    cmd = ["java", "-Djava.io.tmpdir=" + jtmp] + java_opts(heap_gb) + ["-cp", CP, "tlc2.TLC", "-metadir", meta, "-noGenerateSpecTE",
                                           "-fpmem", "0.02", "-workers", str(workers),
                                           "-config", os.path.join(SPEC, cfg)] + (extra or []) + \
          [os.path.join(SPEC, module)]
    e = dict(os.environ)
    e.pop("JAVA_TOOL_OPTIONS", None)
    if env:
        e.update(env)
    t0 = time.time()
    try:
        p = subprocess.run(cmd, cwd=ctx.run, env=e, timeout=timeout, stdout=subprocess.PIPE,
                           stderr=subprocess.STDOUT, text=True)
    except subprocess.TimeoutExpired:
        subprocess.run(["pkill", "-f", meta], check=False)
        raise Broken("TLC %s/%s timed out after %ds" % (module, cfg, timeout))
    finally:
        shutil.rmtree(meta, ignore_errors=True)
    out = p.stdout
    m = _STAT.findall(out)
    gen, dist = (int(m[-1][0]), int(m[-1][1])) if m else (0, 0)
    ctx.states += dist
    ctx.transitions += gen
    ctx.tlc_runs.append({"module": module, "cfg": cfg, "what": what, "exit": p.returncode,
                         "generated": gen, "distinct": dist, "wall_s": round(time.time() - t0, 1)})
    if p.returncode not in ok_codes:
        if "java.lang.OutOfMemoryError" in out or "StackOverflowError" in out:
            raise Broken("TLC %s/%s ran out of memory/stack:\n%s" % (module, cfg, out[-2000:]))
    return p.returncode, out


def mc(ctx, module, cfg, workers=8, heap_gb=3, timeout=1500, what=""):
    """M: exhaustive model check of a spec-level module.  It does not look at /repo, so a failure
    here is a defect of the specification (check broken), never a violation of the code."""
    code, out = tlc(ctx, module, cfg, workers=workers, heap_gb=heap_gb, timeout=timeout, what="M " + what)
    if code != 0 or "Model checking completed. No error has been found." not in out:
        raise Broken("model check %s/%s failed (exit %d):\n%s" % (module, cfg, code, tail_errors(out)))
    r = ctx.tlc_runs[-1]
    log("  M %-28s %-30s %9d states %6.1fs  %s" % (module, cfg, r["distinct"], r["wall_s"], what))


def gen(ctx, module, cfg, out, heap_gb=3, timeout=900, what=""):
    """G: TLC evaluates the specification to emit vectors."""
    code, o = tlc(ctx, module, cfg, env={"OUT_FILE": out}, workers=1, heap_gb=heap_gb, timeout=timeout,
                  what="G " + what)
    if code != 0 or not os.path.exists(out):
        raise Broken("generator %s/%s failed (exit %d):\n%s" % (module, cfg, code, tail_errors(o)))
    n = count_lines(out)
    log("  G %-28s %-30s %9d vectors %5.1fs  %s" % (module, cfg, n, ctx.tlc_runs[-1]["wall_s"], what))
    return out


def tlaps(ctx, relpath, timeout=900):
    """Optional strengthening: discharge a TLAPS proof (in a scratch copy: tlapm writes a cache next to the file).
    A proof that does not go through is recorded as a note; it is never a verdict about the code."""
    src = os.path.join(SPEC, relpath)
    work = ctx.fresh("tlaps")
    os.makedirs(work)
    shutil.copy(src, work)
    t0 = time.time()
    try:
        p = subprocess.run(["tlapm", "--threads", "8", os.path.basename(src)], cwd=work, timeout=timeout,
                           stdout=subprocess.PIPE, stderr=subprocess.STDOUT, text=True)
        out = p.stdout
    except (subprocess.TimeoutExpired, OSError) as e:
        out = "tlapm did not finish: %s" % e
    shutil.rmtree(work, ignore_errors=True)
    m = re.search(r"All (\d+) obligations proved", out)
    res = {"module": relpath, "proved": bool(m), "obligations": int(m.group(1)) if m else 0,
           "wall_s": round(time.time() - t0, 1)}
    ctx.extra.setdefault("tlaps", []).append(res)
    if m:
        log("  P %-28s %d proof obligations discharged by TLAPS  %5.1fs" % (relpath, res["obligations"], res["wall_s"]))
    else:
        ctx.notes.append("TLAPS proof %s did not go through: %s" % (relpath, out.strip().splitlines()[-1:] or out))
        log("  P %-28s NOT proved (recorded as a note)" % relpath)
    return res


def apalache(ctx, relpath, steps, timeout=600):
    """Optional strengthening by a third engine: Apalache (symbolic, SMT) checks an inductive invariant of a typed module.
    `steps` = [(init, inv, length), ...].  Runs in a scratch copy (apalache writes _apalache-out next to the file).
    A step that does not go through is a note, never a verdict about the code."""
    src = os.path.join(SPEC, relpath)
    work = ctx.fresh("apalache")
    os.makedirs(work)
    shutil.copy(src, work)
    t0 = time.time()
    done = []
    for init, inv, length in steps:
        try:
            p = subprocess.run(["apalache-mc", "check", "--cinit=ConstInit", "--init=" + init, "--inv=" + inv, "--length=%d" % length,
                                os.path.basename(src)], cwd=work, timeout=timeout, stdout=subprocess.PIPE, stderr=subprocess.STDOUT, text=True)
            ok = "The outcome is: NoError" in p.stdout
        except (subprocess.TimeoutExpired, OSError) as e:
            ok = False
        done.append({"init": init, "inv": inv, "length": length, "ok": ok})
    shutil.rmtree(work, ignore_errors=True)
    res = {"module": relpath, "steps": done, "all_ok": all(d["ok"] for d in done), "wall_s": round(time.time() - t0, 1)}
    ctx.extra.setdefault("apalache", []).append(res)
    if res["all_ok"]:
        log("  A %-28s inductive invariant checked by Apalache (%d steps)  %5.1fs" % (relpath, len(done), res["wall_s"]))
    else:
        ctx.notes.append("Apalache check %s did not go through: %s" % (relpath, [d for d in done if not d["ok"]]))
        log("  A %-28s NOT checked (recorded as a note)" % relpath)
    return res


def tail_errors(out):
    lines = [l for l in out.splitlines() if not l.startswith(("Parsing file", "Semantic processing", "Linting"))]
    return "\n".join(lines[-40:])


def count_lines(path):
    n = 0
    with open(path, "rb") as f:
        for _ in f:
            n += 1
    return n


# --------------------------------------------------------------------------- V: trace validation
_STATE = re.compile(r"^State \d+:", re.M)


def parse_dump(path):
    """Yield dicts of the TLA+ variable values (as raw text) for every dumped state."""
    with open(path) as f:
        txt = f.read()
    for block in _STATE.split(txt)[1:]:
        flat = " ".join(block.split())
        yield flat


_V_OK = re.compile(r'\bok \|-> (TRUE|FALSE)')
_V_CLASS = re.compile(r'\bclass \|-> "([^"]*)"')
_V_WHY = re.compile(r'\bwhy \|-> "([^"]*)"')


class _Verdict:
    def __init__(self, ok, cls, why):
        self.g = (None, ok, cls, why)

    def group(self, i):
        return self.g[i]


class _VerdictRe:
    """TLC prints record fields in an order that depends on string interning: match each field."""
    @staticmethod
    def search(flat):
        i = flat.find("verdict = [")
        if i < 0:
            return None
        part = flat[i:]
        a, b, c = _V_OK.search(part), _V_CLASS.search(part), _V_WHY.search(part)
        if not (a and b and c):
            return None
        return _Verdict(a.group(1), b.group(1), c.group(1))


_VERDICT = _VerdictRe
_L = re.compile(r"/\\ l = (\d+)")


def validate(ctx, module, cfg, trace, workers=6, heap_gb=3, timeout=1800, what="", env=None,
             chunk=20000, header=0, chunk_bytes=12000000, stateful_ev=None):
    """V: TLC evaluates Judge on every trace line.  Returns {line_no: (ok, class, why)}.
    Big traces are validated in chunks (a 20 MB trace is >1 GB of TLC values); the first `header`
    lines (shared context such as a domain) are repeated at the top of every chunk."""
    n = count_lines(trace)
    size = os.path.getsize(trace)
    if stateful_ev or (n <= chunk + header and size <= chunk_bytes):
        return _validate1(ctx, module, cfg, trace, workers, heap_gb, timeout, what, env, stateful_ev)
    verdicts = {}
    with open(trace) as f:
        lines = f.readlines()
    head = lines[:header]
    body = lines[header:]
    start = 0
    while start < len(body):
        end, nbytes = start, 0
        while end < len(body) and end - start < chunk and (nbytes + len(body[end]) <= chunk_bytes or end == start):
            nbytes += len(body[end])
            end += 1
        part = ctx.fresh("chunk") + ".ndjson"
        with open(part, "w") as f:
            f.writelines(head)
            f.writelines(body[start:end])
        v = _validate1(ctx, module, cfg, part, workers, heap_gb, timeout,
                       what + " [lines %d..%d]" % (header + start + 1, header + end), env)
        os.remove(part)
        for j, verdict in v.items():
            verdicts[j if j <= header else start + j] = verdict
        start = end
    if len(verdicts) != n:
        raise Broken("chunked validation judged %d of %d lines" % (len(verdicts), n))
    return verdicts


def _validate1(ctx, module, cfg, trace, workers, heap_gb, timeout, what, env, stateful_ev=None):
    dump = ctx.fresh("dump")
    e = {"TRACE_FILE": trace}
    if env:
        e.update(env)
    code, out = tlc(ctx, module, cfg, env=e, workers=workers, heap_gb=heap_gb,
                    timeout=timeout, extra=["-dump", dump], what="V " + what)
    if code != 0 or "Model checking completed. No error has been found." not in out:
        raise Broken("trace validation %s on %s failed (exit %d):\n%s" % (module, trace, code, tail_errors(out)))
    verdicts = {}
    for flat in parse_dump(dump + ".dump"):
        ml = _L.search(flat)
        mv = _VERDICT.search(flat)
        if not ml or not mv:
            raise Broken("unparsable dump state: %s" % flat[:300])
        if mv.group(2) == "pending":
            continue
        verdicts[int(ml.group(1))] = (mv.group(1) == "TRUE", mv.group(2), mv.group(3))
    os.remove(dump + ".dump")
    n = count_lines(trace)
    if stateful_ev:
        # lines whose ev is in stateful_ev are stepped through a state machine: TLC leaves ONE verdict for the
        # whole run, at the line where it stopped (or one past the end): spread it over those lines
        st_lines = [i for i, line in read_trace(trace) if json.loads(line).get("ev") in stateful_ev]
        final = [l for l in verdicts if l > n or l in st_lines]
        if st_lines:
            if len(final) != 1:
                raise Broken("stateful validation left %d final verdicts" % len(final))
            fv = verdicts.pop(final[0])
            where = final[0] if final[0] in st_lines else st_lines[-1]
            for i in st_lines:
                verdicts[i] = fv if i == where else (True, "aux", "")
    if len(verdicts) != n:
        raise Broken("TLC judged %d of %d trace lines (%s)" % (len(verdicts), n, trace))
    r = ctx.tlc_runs[-1]
    log("  V %-28s %-30s %9d lines  %6.1fs  %s" % (module, os.path.basename(trace), n, r["wall_s"], what))
    return verdicts


TRIVIAL_CLASSES = {"aux", "unspecified", "unspecified-accepted", "unspecified-rejected", "trivial"}


def read_trace(path):
    with open(path) as f:
        for i, line in enumerate(f, 1):
            yield i, line


def absorb(ctx, trace, verdicts, replay_vector=None, max_samples=3):
    """Fold the verdicts of one trace into the context: counts, samples, violations."""
    lines = {}
    bad = [l for l, v in verdicts.items() if not v[0]]
    want = set(bad)
    aux_needed = set()
    per_class_seen = {}
    for i, line in read_trace(trace):
        ok, cls, why = verdicts[i]
        if cls != "aux":
            ctx.judged += 1
            ctx.classes[cls] = ctx.classes.get(cls, 0) + 1
            if cls not in TRIVIAL_CLASSES:
                ctx.nontrivial.add(hashlib.sha1(line.encode()).digest()[:8])
            if per_class_seen.get(cls, 0) < max_samples and len(ctx.samples) < 12 and ok:
                per_class_seen[cls] = per_class_seen.get(cls, 0) + 1
                ctx.samples.append({"class": cls, "line": compact(json.loads(line))})
        if i in want or cls == "aux":
            lines[i] = line
    for l in sorted(bad):
        rec = json.loads(lines[l])
        vec = rec.get("in")
        if replay_vector:
            vec = replay_vector(rec, lambda n: json.loads(lines[n]))
        elif "domline" in rec and rec["domline"] in lines:
            vec = dict(vec, dom=json.loads(lines[rec["domline"]])["dom"])
        ok, cls, why = verdicts[l]
        ctx.violations.append({"ev": rec.get("ev"), "class": cls, "why": why, "vector": vec,
                               "rec": rec, "trace": os.path.basename(trace), "line": l})


def compact(rec, limit=600):
    """Readable form of a trace record for evidence samples: byte arrays become strings."""
    def conv(x):
        if isinstance(x, list) and x and all(isinstance(v, int) and 0 <= v < 256 for v in x):
            try:
                s = bytes(x).decode("ascii")
                if all(32 <= c < 127 or c in (9, 10, 13) for c in x):
                    return s
            except UnicodeDecodeError:
                pass
            return x
        if isinstance(x, list):
            return [conv(v) for v in x[:8]] + (["...+%d" % (len(x) - 8)] if len(x) > 8 else [])
        if isinstance(x, dict):
            return {k: conv(v) for k, v in x.items()}
        return x
    out = conv(rec)
    s = json.dumps(out)
    if len(s) > limit:
        return s[:limit] + "..."
    return out


# --------------------------------------------------------------------------- findings, replay, evidence
def load_known():
    p = os.path.join(ROOT, "known_findings.json")
    if not os.path.exists(p):
        return []
    with open(p) as f:
        return json.load(f)


def get_path(obj, dotted):
    cur = obj
    for part in dotted.split("."):
        if isinstance(cur, dict) and part in cur:
            cur = cur[part]
        else:
            return None
    return cur


def matches(finding, prop, viol):
    """A known finding suppresses a violation only if every key of its signature equals the
    corresponding attribute of the violating observation, including the mismatch TLC computed."""
    if finding.get("status") != "known" or finding.get("property") != prop:
        return False
    sig = finding.get("signature", {})
    if not sig:
        return False
    for k, want in sig.items():
        if k == "why":
            have = viol["why"]
        elif k == "ev":
            have = viol["ev"]
        elif k == "class":
            have = viol["class"]
        else:
            have = get_path(viol["rec"], k)
        if isinstance(want, dict) and "bytes" in want:
            want = list(want["bytes"].encode("latin-1"))
        if have != want:
            return False
    return True


def write_replay(ctx, viol):
    os.makedirs(os.path.join(ROOT, "replays"), exist_ok=True)
    body = {"property": ctx.prop, "vector": viol["vector"], "ev": viol["ev"], "class": viol["class"],
            "why": viol["why"], "observed": viol["rec"]}
    h = hashlib.sha1(json.dumps(body["vector"], sort_keys=True).encode()).hexdigest()[:12]
    path = os.path.join(ROOT, "replays", "%s-%s.json" % (ctx.prop, h))
    if viol.get("history"):
        # the violation needs the calls made before it: keep the whole vector sequence next to the replay file
        hfile = "%s-%s.history.ndjson" % (ctx.prop, h)
        shutil.copyfile(viol["history"][0], os.path.join(ROOT, "replays", hfile))
        body["history"] = {"file": hfile, "line": viol["history"][1]}
    with open(path, "w") as f:
        json.dump(body, f)
    return path


def finish(ctx, level="model_checking", rule="", confirm=None):
    """Classify violations (known finding / confirmed violation), write evidence, exit."""
    known = load_known()
    reported = []
    seen_sig = {}
    confirmed, tried = {}, {}
    ctx.violations.sort(key=lambda v: 0 if isinstance(v.get("vector"), dict) and str(v["vector"].get("k", "")).endswith("_seq") else 1)
    for v in ctx.violations:
        kf = next((k for k in known if matches(k, ctx.prop, v)), None)
        if kf:
            ctx.known.append((kf, v))
            continue
        sig = (v["ev"], v["why"])
        seen_sig[sig] = seen_sig.get(sig, 0) + 1
        if confirmed.get(sig, 0) >= 3 or tried.get(sig, 0) >= 12:     # enough witnesses of this kind
            continue
        tried[sig] = tried.get(sig, 0) + 1
        if confirm is not None:
            # verdicts only from real-code behaviour: re-execute that single case
            try:
                again = confirm(v)
            except Broken as e:
                log("  replay of a violating case could not run: %s" % e)
                again = True
            if not again:
                ctx.unreproduced += 1
                ctx.notes.append("unreproduced: %s / %s" % sig)
                log("  NOTE unreproduced on replay (not reported): %s %s" % sig)
                continue
        confirmed[sig] = confirmed.get(sig, 0) + 1
        reported.append(v)
    printed = set()
    for kf, v in ctx.known:
        if kf["id"] not in printed:
            printed.add(kf["id"])
            print("KNOWN-FINDING: property=%s %s [%s]" % (ctx.prop, kf["summary"], kf["id"]), flush=True)
    for v in reported:
        path = write_replay(ctx, v)
        log("  violation: ev=%s class=%s why=%s" % (v["ev"], v["class"], v["why"]))
        print("VIOLATION property=%s replay=%s" % (ctx.prop, path), flush=True)
    total_unlisted = sum(seen_sig.values())
    write_evidence(ctx, level, rule, total_unlisted)
    wall = time.time() - ctx.t0
    log("%s %s seed=%d: %d states, %d transitions, %d observations judged, %d unlisted violations, %d known, %.1fs"
        % (ctx.prop, ctx.tier, ctx.seed, ctx.states, ctx.transitions, ctx.judged, total_unlisted,
           len(ctx.known), wall))
    shutil.rmtree(ctx.run, ignore_errors=True)
    if not reported and (ctx.truncated or ctx.unreproduced):
        # never a pass and never a violation: a run that was cut short, or a rejected observation that a fresh
        # execution does not show again, decides nothing
        print("CHECK-BROKEN property=%s: %s" % (ctx.prop, "run cut short after calls that did not return" if ctx.truncated
              else "%d rejected observation(s) did not reproduce on replay" % ctx.unreproduced), flush=True)
        sys.exit(2)
    sys.exit(1 if reported else 0)


def evidence_dir():
    # evidence describes /repo itself; a run pointed at another tree (VERIF_REPO: seeded changes, snapshots) keeps its
    # evidence with its scratch files
    return os.path.join(ROOT, "evidence") if REPO == "/repo" else os.path.join(ROOT, "run", "evidence-other-tree")


def write_evidence(ctx, level, rule, nviol):
    os.makedirs(evidence_dir(), exist_ok=True)
    cov = {
        "states": ctx.states,
        "transitions": ctx.transitions,
        "traces_validated_against_impl": ctx.judged,
        "samples": ctx.samples[:12] or [{"note": "no observation sampled"}],
        "evaluations": ctx.judged,
        "distinct_nontrivial": len(ctx.nontrivial),
        "rule": rule + " Non-trivial = distinct trace lines whose TLC class is not one of %s."
                % sorted(TRIVIAL_CLASSES),
        "exhaustive": ctx.exhaustive,
        "classes": ctx.classes,
        "tlc_runs": ctx.tlc_runs,
        "known_findings_hit": sorted({k["id"] for k, _ in ctx.known}),
        "notes": ctx.notes,
    }
    cov.update(ctx.extra)
    ev = {"property_id": ctx.prop, "tier": ctx.tier, "seed": ctx.seed, "level": level, "coverage": cov,
          "assumptions": ctx.assumptions, "wall_s": round(time.time() - ctx.t0, 1), "violations": nviol}
    with open(os.path.join(evidence_dir(), ctx.prop + ".json"), "w") as f:
        json.dump(ev, f, indent=1)


def write_vectors(path, vectors):
    with open(path, "w") as f:
        for v in vectors:
            f.write(json.dumps(v) + "\n")
    return path


def cat(out, *paths):
    with open(out, "wb") as o:
        for p in paths:
            with open(p, "rb") as f:
                shutil.copyfileobj(f, o)
    return out
