"""Per-property pipelines: which TLC runs (M/G/V) and which harness drivers decide each property."""
import json
import os

import vf
from vf import mc, gen, validate, hgen, hexec, absorb, Broken

PROPS = {}


def prop(pid, tracemod, rule):
    def deco(fn):
        PROPS[pid] = {"run": fn, "trace": tracemod, "rule": rule}
        return fn
    return deco


EXTRA_TRACE = {"GROW": "GrowthTrace"}      # pipelines outside the twenty properties (lib/growth.py)


def tracemod_of(pid):
    return PROPS[pid]["trace"] if pid in PROPS else EXTRA_TRACE[pid]


def judge(ctx, pid, vectors, what="", exec_prop=None, reverse=False, **kw):
    """vectors -> real code -> trace -> TLC verdicts, folded into ctx.
    reverse=True: the same vectors are also executed in reverse order in a fresh process - whatever the library
    remembers from earlier calls (caches keyed too coarsely, pooled state) then meets the inputs in another order."""
    trace = ctx.fresh("trace") + ".ndjson"
    hexec(ctx, exec_prop or pid, vectors, trace)
    mod = tracemod_of(pid)
    verdicts = validate(ctx, mod + ".tla", mod + ".cfg", trace, what=what, **kw)
    absorb(ctx, trace, verdicts)
    ctx.trace_src[os.path.basename(trace)] = (vectors, exec_prop or pid)
    os.remove(trace)
    if reverse:
        rev = ctx.fresh("reversed") + ".ndjson"
        with open(vectors) as f:
            lines = f.readlines()
        keep = kw.get("header", 0)       # shared context vectors (a domain) stay at the top: trace lines refer to them
        with open(rev, "w") as f:
            f.writelines(lines[:keep])
            f.writelines(reversed(lines[keep:]))
        trace = ctx.fresh("trace") + ".ndjson"
        hexec(ctx, exec_prop or pid, rev, trace)
        verdicts = validate(ctx, mod + ".tla", mod + ".cfg", trace, what=what + " (reverse order, fresh process)", **kw)
        absorb(ctx, trace, verdicts)
        ctx.trace_src[os.path.basename(trace)] = (rev, exec_prop or pid)
        os.remove(trace)


def _judge_one_line(ctx, pid, trace, line_no):
    """Validate the single trace line `line_no` (plus the domain line it may refer to)."""
    with open(trace) as f:
        lines = f.readlines()
    if line_no > len(lines):
        return False
    rec = json.loads(lines[line_no - 1])
    one = ctx.fresh("oneline") + ".ndjson"
    with open(one, "w") as f:
        if "domline" in rec:
            f.write(lines[rec["domline"] - 1])
            rec["domline"] = 1
            f.write(json.dumps(rec) + "\n")
        else:
            f.write(lines[line_no - 1])
    mod = tracemod_of(pid)
    verdicts = validate(ctx, mod + ".tla", mod + ".cfg", one, workers=2, heap_gb=2, what="replay")
    return any(not v[0] for v in verdicts.values())


def confirm(ctx, viol):
    """Re-execute one violating case on the real code and let TLC judge it again: first the single vector in a
    fresh process; if that does not reproduce it, the whole vector sequence it was part of (a violation may need
    the calls made before it - a cache, a pooled object, a reused receiver), judging the same trace line."""
    if viol.get("vector") is None:
        return True
    vec = ctx.fresh("replayvec") + ".ndjson"
    vf.write_vectors(vec, [viol["vector"]])
    trace = ctx.fresh("replaytrace") + ".ndjson"
    hexec(ctx, ctx.prop, vec, trace)
    mod = tracemod_of(ctx.prop)
    verdicts = validate(ctx, mod + ".tla", mod + ".cfg", trace, workers=2, heap_gb=2, what="replay")
    if any(not v[0] for v in verdicts.values()):
        return True
    src = ctx.trace_src.get(viol.get("trace"))
    if not src or not os.path.exists(src[0]):
        return False
    trace = ctx.fresh("replayhistory") + ".ndjson"
    hexec(ctx, src[1], src[0], trace)
    if _judge_one_line(ctx, ctx.prop, trace, viol["line"]):
        viol["history"] = (src[0], viol["line"])
        return True
    return False


def replay(pid, path):
    with open(path) as f:
        body = json.load(f)
    ctx = vf.Ctx(pid, "quick", 0, clean_replays=False)
    ctx.run = ctx.run + ".replay"
    os.makedirs(ctx.run, exist_ok=True)
    if body.get("history"):
        # the recorded case needs the calls made before it: run the recorded sequence, judge the recorded line
        hist = os.path.join(os.path.dirname(path), body["history"]["file"])
        trace = ctx.fresh("replayhistory") + ".ndjson"
        hexec(ctx, pid, hist, trace)
        bad = _judge_one_line(ctx, pid, trace, body["history"]["line"])
    else:
        bad = confirm(ctx, {"vector": body["vector"]})
    import shutil
    shutil.rmtree(ctx.run, ignore_errors=True)
    if bad:
        print("VIOLATION property=%s replay=%s" % (pid, path), flush=True)
        return 1
    print("replay %s: the recorded case is now judged OK" % path)
    return 0


def T(ctx, quick, thorough):
    return quick if ctx.tier == "quick" else thorough


# =========================================================================== version (C01-C03)
@prop("C01", "C01Trace",
      "TLC enumerates all part strings up to the bound (every ordered pair is compared by the real code, as "
      "upstream part and as revision), all structured (epoch, upstream, revision) pairs, and judges "
      "seeded random/mutated pairs up to 64 bytes with digit runs up to 24 digits.")
def c01(ctx):
    t = ctx.tier
    mc(ctx, "VerRevCmpMC.tla", "VerRevCmpMC_%s.cfg" % t, what="verrevcmp machine refines PolicyCmp, terminates")
    mc(ctx, "DebVersionLaws.tla", "DebVersionLaws_pairs_%s.cfg" % t, what="PolicyCmp = Key order, antisymmetric")
    mc(ctx, "DebVersionLaws.tla", "DebVersionLaws_digits.cfg", what="digit-string order = integer order")
    g1 = gen(ctx, "VersionGen.tla", "VersionGen_domain_%s.cfg" % t, ctx.path("dom.ndjson"), what="part-string domain")
    g2 = gen(ctx, "VersionGen.tla", "VersionGen_cmp_%s.cfg" % t, ctx.path("cmp.ndjson"), what="structured pairs")
    r = hgen(ctx, "C01", ctx.path("rand.ndjson"))
    judge(ctx, "C01", vf.cat(ctx.path("vec.ndjson"), g1, g2, r), what="Compare vs Policy order")
    ctx.exhaustive = True
    ctx.assumptions += ["data independence: verrevcmp branches only on character class, so a representative "
                        "alphabet {0,1,9,a,Z,~,+,.} stands for the whole Policy alphabet",
                        "TLC 32-bit integers are never used for version numbers: digit runs are compared as strings"]


@prop("C02", "C01Trace",
      "Laws are checked by TLC on the spec for all triples up to the bound, and on the signs logged from the "
      "real Compare for seeded near-equal triples; sort.Sort(version.Slice) results are checked for bag "
      "equality and order under the spec. "
      "Upstream parts containing '-' and ':' go through the same rows; the whole vector list is executed a second time in a fresh process in reverse order.")
def c02(ctx):
    t = ctx.tier
    mc(ctx, "DebVersionLaws.tla", "DebVersionLaws_triples_%s.cfg" % t, what="reflexive, transitive, congruent")
    mc(ctx, "DebVersionLaws.tla", "DebVersionLaws_pairs_%s.cfg" % t, what="PolicyCmp = Key order (total preorder)")
    g1 = gen(ctx, "VersionGen.tla", "VersionGen_domain_%s.cfg" % t, ctx.path("dom.ndjson"), what="part-string domain")
    g2 = gen(ctx, "VersionGen.tla", "VersionGen_cmp_%s.cfg" % t, ctx.path("cmp.ndjson"), what="structured pairs (hyphens/colons inside upstream parts)")
    r = hgen(ctx, "C02", ctx.path("rand.ndjson"))
    judge(ctx, "C02", vf.cat(ctx.path("vec.ndjson"), g1, g2, r), what="laws on logged signs, sort results", reverse=True, header=1)
    ctx.assumptions += ["total preorder on the unbounded domain follows from the Key embedding only where the "
                        "embedding was checked (bounded domain) plus the per-triple checks on real signs"]


@prop("C03", "C01Trace",
      "TLC enumerates every string over {0,1,a,:,-,.,~,space,_} up to the bound with its grammar class; the "
      "real parser's result, all four renderings and their re-parses are judged; plus seeded grammar-derived "
      "versions and near-miss edits.")
def c03(ctx):
    t = ctx.tier
    mc(ctx, "DebVersionLaws.tla", "DebVersionLaws_parse_%s.cfg" % t, what="ImplParse refines Classify; render fixpoint")
    g1 = gen(ctx, "VersionGen.tla", "VersionGen_parse_%s.cfg" % t, ctx.path("parse.ndjson"), what="all short strings")
    r = hgen(ctx, "C03", ctx.path("rand.ndjson"))
    judge(ctx, "C03", vf.cat(ctx.path("vec.ndjson"), g1, r), what="Parse / render / re-parse")
    ctx.exhaustive = True


# =========================================================================== control files (C07, C08)
@prop("C07", "C07Trace",
      "TLC enumerates every document made of up to N line tokens (12 line shapes: fields, empty first line, repeated "
      "name, space/tab continuation, ' .', ' ..', white-space-only, comment, blank, colon-less, extra colon) x LF/CRLF x "
      "final newline, and every byte string over {A,:,space,LF,#,.,CR} up to the bound; the four read paths of the "
      "real reader are judged against the byte-level reference reader; plus seeded model documents <= 250 bytes.")
def c07(ctx):
    t = ctx.tier
    mc(ctx, "Deb822ReaderMC.tla", "Deb822ReaderMC_%s.cfg" % t, what="Next() machine refines RefRead, invariant, terminates")
    g1 = gen(ctx, "Deb822Gen.tla", "Deb822Gen_read_tok_%s.cfg" % t, ctx.path("tok.ndjson"), what="token documents")
    g2 = gen(ctx, "Deb822Gen.tla", "Deb822Gen_read_bytes_%s.cfg" % t, ctx.path("bytes.ndjson"), what="byte strings")
    r = hgen(ctx, "C07", ctx.path("rand.ndjson"))
    gl = gen(ctx, "LongGen.tla", "LongGen_read.cfg", ctx.path("long.ndjson"), what="lines around and beyond the read buffer size")
    judge(ctx, "C07", vf.cat(ctx.path("vec.ndjson"), g1, g2, r, gl), what="four read paths vs RefRead")
    ctx.exhaustive = True


@prop("C08", "C07Trace",
      "TLC enumerates paragraphs whose values are line sequences over {'', 'a', ' b'} (<=3 lines, trailing newline or "
      "not, 1-2 fields, 1-3 paragraphs) and all token documents / short byte strings as reader input; written bytes "
      "are judged by the reference reader, re-read by the real reader, and cycled three times.")
def c08(ctx):
    t = ctx.tier
    mc(ctx, "Deb822WriterMC.tla", "Deb822WriterMC_write_%s.cfg" % t, what="WriteTo model: written bytes denote the paragraph (reference reader)")
    mc(ctx, "Deb822WriterMC.tla", "Deb822WriterMC_encoder.cfg", what="Encoder model: field-less paragraphs do not eat separators")
    g1 = gen(ctx, "Deb822Gen.tla", "Deb822Gen_paras.cfg", ctx.path("paras.ndjson"), what="paragraph models")
    g2 = gen(ctx, "Deb822Gen.tla", "Deb822Gen_rw_tok_%s.cfg" % t, ctx.path("tok.ndjson"), what="token documents")
    g3 = gen(ctx, "Deb822Gen.tla", "Deb822Gen_rw_bytes_%s.cfg" % t, ctx.path("bytes.ndjson"), what="byte strings")
    r = hgen(ctx, "C08", ctx.path("rand.ndjson"))
    gl = gen(ctx, "LongGen.tla", "LongGen_write.cfg", ctx.path("long.ndjson"), what="lines around and beyond the read buffer size")
    judge(ctx, "C08", vf.cat(ctx.path("vec.ndjson"), g1, g2, g3, r, gl), what="write/read laws")
    ctx.exhaustive = True


# =========================================================================== ar (C13, C15 ar level)
@prop("C13", "C13Trace",
      "TLC renders every archive of up to 2 members drawn from 5 name shapes (1, 15, 16 bytes, inner space, "
      "debian-binary) x sizes (0, odd, even) x blank numeric columns x BSD/GNU naming; the real iterator's steps "
      "(header offset via SectionReader.Outer, metadata, bytes, re-reads, late re-reads) are judged for exact "
      "agreement; plus seeded archives with members up to 70 KB of random binary data (digest-compared).")
def c13(ctx):
    t = ctx.tier
    mc(ctx, "ArMC.tla", "ArMC_%s.cfg" % t, what="Ar.Next machine: exact on clean archives, safe on damaged ones")
    g1 = gen(ctx, "ArGen.tla", "ArGen_wellformed_%s.cfg" % t, ctx.path("wf.ndjson"), what="well-formed archives")
    r = hgen(ctx, "C13", ctx.path("rand.ndjson"))
    judge(ctx, "C13", vf.cat(ctx.path("vec.ndjson"), g1, r), what="iteration vs member model", chunk=4000)
    ctx.exhaustive = True
    ctx.assumptions += ["contents of members larger than 4 KiB are compared by SHA-256 in the harness (a fact TLA+ cannot compute)"]


@prop("C15", "C15Trace",
      "TLC corrupts spec-rendered archives: every header column of every member set to each hostile text (negative, "
      "-60, -61, -62, huge, blank, junk, signed, 60, -0), each magic byte, each global-magic byte, truncation at every "
      "offset; the real iterator is run twice under a step budget and a panic guard and every step is judged for the "
      "safety conditions; plus seeded multi-fault damage and (thorough) coverage-guided fuzzing whose corpus is "
      "replayed through the tracer.")
def c15(ctx):
    t = ctx.tier
    mc(ctx, "ArMC.tla", "ArMC_%s.cfg" % t, what="Ar.Next machine: safe and bounded on damaged archives")
    g1 = gen(ctx, "ArGen.tla", "ArGen_corrupt_%s.cfg" % t, ctx.path("corrupt.ndjson"), what="corrupted archives")
    r = hgen(ctx, "C15", ctx.path("rand.ndjson"))
    parts = [g1, r]
    if t == "thorough":
        parts.append(vf.fuzz(ctx, "FuzzAr", "ar", 90, ctx.path("fuzz-ar.ndjson")))
        parts.append(vf.fuzz(ctx, "FuzzDeb", "deb", 90, ctx.path("fuzz-deb.ndjson")))
    judge(ctx, "C15", vf.cat(ctx.path("vec.ndjson"), *parts), what="iteration safety on damaged archives")
    ctx.exhaustive = True
    ctx.assumptions += ["behaviour of the third-party xz/lzma/bzip2/zstd decoders on hostile streams is outside the claim "
                        "(the property's own quantifier): damaged packages use stored or gzip members"]


# =========================================================================== .deb (C14, C16)
@prop("C14", "C14Trace",
      "TLC enumerates package shapes: all 6x6 control/data compression pairs, control-tar layouts (./control first, "
      "middle, last, bare 'control', './x/../control'), 0-3 data files, extra members, debian-binary texts (2.0, 2.1, "
      "3.0, 1.0, no newline, empty, trailing junk), missing members, member orders, ambiguous candidates; the harness "
      "builds each as a real .deb (tar, gzip/xz/bzip2/lzma/zstd, ar) and every load is judged against the shape. "
      "Also 2 MiB single-byte payloads under every encoding, two loads of the same bytes open at once, and 576 operation sequences over 5 handles of 3 signed packages (load, read, check, close once/twice/never, every order for two open packages).")
def c14(ctx):
    t = ctx.tier
    mc(ctx, "DebLoadMC.tla", "DebLoadMC_%s.cfg" % t, what="loader machine: outcome is a function of the shape")
    g1 = gen(ctx, "DebGen.tla", "DebGen_c14_%s.cfg" % t, ctx.path("shapes.ndjson"), what="package shapes")
    r = hgen(ctx, "C14", ctx.path("rand.ndjson"))
    judge(ctx, "C14", vf.cat(ctx.path("vec.ndjson"), g1, r), what="deb.Load vs package shape", chunk=500)
    ctx.exhaustive = True
    ctx.assumptions += ["tar framing, compression and ar framing of the packages are produced by Go's standard library, "
                        "klauspost/zstd and the installed xz/bzip2 tools (ground truth, not judged)"]


@prop("C16", "C14Trace",
      "TLC enumerates signed package shapes x asked role x keyring composition, signatures over the wrong member "
      "order/subset, decoy control/data members before/after covered or not by the signature, and a byte flipped in "
      "each of the four members at seven relative positions; the harness signs with real OpenPGP keys; plus every "
      "byte position (stride-sampled in quick) of the signed members and the signature flipped. Each case is loaded "
      "and checked repeatedly. "
      "Also repeated CheckDebsig calls with other keyrings on one loaded package and the 576 package lifecycle sequences of C14.")
def c16(ctx):
    t = ctx.tier
    mc(ctx, "DebLoadMC.tla", "DebLoadMC_%s.cfg" % t, what="debsig machine: verified members = loaded members")
    g1 = gen(ctx, "DebGen.tla", "DebGen_c16_%s.cfg" % t, ctx.path("shapes.ndjson"), what="signed package shapes")
    r = hgen(ctx, "C16", ctx.path("rand.ndjson"))
    judge(ctx, "C16", vf.cat(ctx.path("vec.ndjson"), g1, r), what="CheckDebsig vs ideal signature", chunk=500)
    ctx.assumptions += ["OpenPGP signing/verification by golang.org/x/crypto/openpgp is ground truth; signatures are "
                        "modelled as ideal (key, signed member list) in the specification"]


# =========================================================================== dependency (C04-C06)
@prop("C04", "C04Trace",
      "TLC renders every dependency model of the bounded domain (2 names x 3 qualifiers x 6 version forms x 4 arch lists "
      "x 4 profile forms + substvars, and 2-/3-relation combinations of a representative subset) in four spacing styles "
      "(minimal, canonical, wide with tabs/newlines, folded as a control field delivers it) and several clause orders; "
      "plus seeded single-byte delete/duplicate/delimiter-substitute corruptions of those, each classified by the reference "
      "parser as accept(AST) / reject / unspecified.")
def c04(ctx):
    t = ctx.tier
    mc(ctx, "DepLaws.tla", "DepLaws_%s.cfg" % t, what="RefParse(Render(model)) = model; arch names bijective")
    mc(ctx, "DepParserMC.tla", "DepParserMC_%s.cfg" % t, what="transcribed parser.go refines RefParse, never hangs (all short strings)")
    g1 = gen(ctx, "DepGen.tla", "DepGen_dep_%s.cfg" % t, ctx.path("dep.ndjson"), what="rendered dependency models")
    r = hgen(ctx, "C04", ctx.path("rand.ndjson"), base=g1)
    judge(ctx, "C04", vf.cat(ctx.path("vec.ndjson"), g1, r), what="Parse vs reference parser")
    ctx.exhaustive = True


@prop("C05", "C04Trace",
      "Every accepted input of the C04 domain, seeded mutations and raw byte strings are rendered with String()/"
      "MarshalControl and re-parsed by the real parser and by the reference parser; all 584 architecture names "
      "built from {any, all, linux, kfreebsd, gnu, musl, amd64, i386} in 1-, 2- and 3-part form plus real names. "
      "Also 256 four-part names and names with empty components ('--', '-amd64', 'any--amd64').")
def c05(ctx):
    t = ctx.tier
    mc(ctx, "DepLaws.tla", "DepLaws_%s.cfg" % t, what="reference renderer/parser consistent")
    g1 = gen(ctx, "DepGen.tla", "DepGen_deprt_%s.cfg" % t, ctx.path("dep.ndjson"), what="rendered dependency models")
    g2 = gen(ctx, "DepGen.tla", "DepGen_arch.cfg", ctx.path("arch.ndjson"), what="architecture names")
    r = hgen(ctx, "C05", ctx.path("rand.ndjson"), base=g1)
    judge(ctx, "C05", vf.cat(ctx.path("vec.ndjson"), g1, g2, r), what="render / re-parse fixpoint")
    ctx.exhaustive = True


@prop("C06", "C04Trace",
      "Exactly the property's domain: 'all' plus {any,x,y,z}^3 = 65 architectures, all 4225 ordered pairs (built as "
      "structs and through ParseArch of their canonical names), all lists of <=1 entry and 2-entry lists x negation x 28 "
      "non-wildcard targets, all dependency shapes of <=2 relations x <=N alternatives of kinds {empty list, positive, "
      "negated, substvar} x 2 targets (as structs and through Parse), all (op, N, V) over 9 operators x 15 N x 10 V.")
def c06(ctx):
    t = ctx.tier
    mc(ctx, "DepLaws.tla", "DepLaws_quick.cfg", what="Match symmetric where pinned; arch names bijective")
    g1 = gen(ctx, "DepGen.tla", "DepGen_c06_%s.cfg" % t, ctx.path("c06.ndjson"), what="pairs, lists, selections, constraints")
    r = hgen(ctx, "C06", ctx.path("rand.ndjson"))
    judge(ctx, "C06", vf.cat(ctx.path("vec.ndjson"), g1, r), what="Is / Matches / GetPossibilities / SatisfiedBy", reverse=True)
    ctx.exhaustive = True


# =========================================================================== changelog (C17)
@prop("C17", "C17Trace",
      "TLC renders changelogs of 1..N entries drawn from 4 representative entries (1-2 distributions, 1-2 options, 4 body "
      "shapes incl. blank/continued/' .' lines, ASCII and UTF-8 maintainers, 4 dates x zones) x leading blank lines x "
      "blank-run length x final newline; the real parser is run on the full text, on EVERY prefix and by repeated "
      "ParseOne, and on seeded single-byte corruptions.")
def c17(ctx):
    t = ctx.tier
    mc(ctx, "ChangelogMC.tla", "ChangelogMC_%s.cfg" % t, what="ParseOne/Parse line machine: all entries or an error")
    g1 = gen(ctx, "ChangelogGen.tla", "ChangelogGen_%s.cfg" % t, ctx.path("cl.ndjson"), what="rendered changelogs")
    r = hgen(ctx, "C17", ctx.path("rand.ndjson"), base=g1)
    gl = gen(ctx, "LongGen.tla", "LongGen_changelog.cfg", ctx.path("long.ndjson"), what="change lines beyond the read buffer size")
    judge(ctx, "C17", vf.cat(ctx.path("vec.ndjson"), g1, r, gl), what="Parse on full text, every prefix, corruptions")
    ctx.exhaustive = True


# =========================================================================== upload (C20)
@prop("C20", "C20Trace",
      "TLC model-checks Copy/Move/Remove at system-call granularity with one injected failure at any step (every "
      "reachable state is a crash state / a watcher's view) and enumerates the scenarios: operation x .dsc/.changes x "
      "0..N listed files x failure {missing source, source is a directory (fails after the destination was created), "
      "destination occupied, failpoint after the data was written} at each listed file and at the control file, and "
      "listed names '../x', absolute, 'sub/x'. Each scenario runs on a real temporary tree observed with raw inotify. "
      "Also stale destination files, control files with partial lists, and every valid sequence of 2-3 operations {copy a, copy b, move a, move b, remove} on ONE handle with all directories snapshotted after every step.")
def c20(ctx):
    t = ctx.tier
    mc(ctx, "Upload.tla", "Upload_%s.cfg" % t, what="ControlLast, ErrorMeansAbsent, RemoveLast, SuccessPost, Confined in every state")
    vf.tlaps(ctx, "proofs/UploadProof.tla")      # ControlLast / ErrorMeansAbsent for an arbitrary number of listed files
    vf.tlaps(ctx, "proofs/RemoveProof.tla")      # RemoveLast / ErrorKeepsControl / OkMeansAllGone (Move, Remove), arbitrary N
    # a third engine: the Copy machine's inductive invariant incl. SuccessPost / FailureReported, every N <= 8 at once
    vf.apalache(ctx, "apalache/UploadApa.tla", [("Init", "Inv", 0), ("InvInit", "Inv", 1), ("InvInit", "Post", 0)])
    # the Move machine over both directories: every file in exactly one place in every state
    vf.apalache(ctx, "apalache/MoveApa.tla", [("Init", "Inv", 0), ("InvInit", "Inv", 1), ("InvInit", "Post", 0)])
    g1 = gen(ctx, "UploadGen.tla", "UploadGen_%s.cfg" % t, ctx.path("up.ndjson"), what="upload scenarios")
    judge(ctx, "C20", g1, what="inotify traces vs upload model")
    ctx.exhaustive = True
    ctx.assumptions += ["the kernel's inotify queue orders events of the watched directories as they happened",
                        "crash points are the prefixes of the observed system-call sequence (no process is actually killed)"]


# =========================================================================== hashio (C12)
@prop("C12", "C12Trace",
      "TLC enumerates all 64 ordered lists of distinct algorithms x chunkings (sizes 0, 1, 2, 63, 64, 65) for writers, "
      "x read-buffer sequences x stream lengths for readers (singular and plural constructors), and verifier scenarios: "
      "entry source {Checksums-Sha256 of a .dsc, best-checksum selector for sha256/sha512, FileHashFromHasher for all four} "
      "x recorded hash {equal, upper-case, unequal, truncated odd/even, digest of empty content, digest under each other "
      "algorithm} x content length x chunking; plus seeded streams up to 3 MiB. "
      "Also sources that deliver data together with EOF, and sequences of verifiers for one entry (rejected stream, then the recorded stream).")
def c12(ctx):
    t = ctx.tier
    mc(ctx, "HashIOMC.tla", "HashIOMC_%s.cfg" % t, what="ideal-digest plumbing: pass-through, sizes, sums, verifier iff")
    g1 = gen(ctx, "HashIOGen.tla", "HashIOGen_%s.cfg" % t, ctx.path("hio.ndjson"), what="behaviours and verifier scenarios")
    r = hgen(ctx, "C12", ctx.path("rand.ndjson"))
    judge(ctx, "C12", vf.cat(ctx.path("vec.ndjson"), g1, r), what="hashing pipelines and verifiers")
    ctx.exhaustive = True
    ctx.assumptions += ["whether bytes are the true MD5/SHA-1/SHA-256/SHA-512 of a stream is ground truth from Go's crypto "
                        "packages, logged as the fact sum_is / hash_is; the specification uses ideal (injective) digests"]


# =========================================================================== clearsign (C11)
@prop("C11", "C11Trace",
      "TLC model-checks the NewParagraphReader flow over all abstract scenarios (armor at start x block x text changed / "
      "canon-preserved x signature intact x signer x keyring in {nil, empty, k1, k2, both} x foreign text before/after) "
      "and generates documents x signing key x keyring x structural mutations (splices before / inside / after, second "
      "block, dropped signature, relative-position edits); the harness signs with real OpenPGP keys and adds single-byte "
      "substitution, deletion, insertion and truncation at (stride-sampled / every) byte position of the armored file. "
      "Also keyring sequences on one document, and 36 operation sequences over three ParagraphReaders alive in one process (a drained reader polled again, two readers open at once in three interleavings) judged step by step against the per-reader abstract state.")
def c11(ctx):
    mc(ctx, "Clearsign.tla", "Clearsign.cfg", what="signer => verified; accepted => verified block only; nothing after the block")
    g1 = gen(ctx, "ClearsignGen.tla", "ClearsignGen.cfg", ctx.path("cs.ndjson"), what="documents x keys x keyrings x mutations")
    r = hgen(ctx, "C11", ctx.path("rand.ndjson"))
    gl = gen(ctx, "LongGen.tla", "LongGen_signed.cfg", ctx.path("long.ndjson"), what="signed documents with lines around and beyond the read buffer size")
    judge(ctx, "C11", vf.cat(ctx.path("vec.ndjson"), g1, r, gl), what="clearsigned input vs ideal-signature rules")
    ctx.assumptions += ["OpenPGP signing, armor decoding and RFC 4880 canonicalisation by golang.org/x/crypto are ground "
                        "truth used to CLASSIFY damaged inputs (never to decide acceptance)"]


# =========================================================================== build order (C19)
@prop("C19", "C19Trace",
      "TLC enumerates every build-dependency graph over 2 sources (each ordered pair labelled none / dep on the SECOND binary / "
      "arch-restricted dep / dep only through a non-selected alternative / dep for another architecture / dep after a substvar / "
      "fallback alternative) and over 3 sources (3 or 5 labels), spread over Build-Depends, -Arch and -Indep, rendered by the "
      "specification as ordinary two-binary .dsc files (single-line and folded lists); plus seeded graphs over 1..12 sources "
      "with 1..4 binaries whose rendering TLC re-checks. Each is ordered five times.")
def c19(ctx):
    t = ctx.tier
    g1 = gen(ctx, "BuildOrderGen.tla", "BuildOrderGen_n2.cfg", ctx.path("n2.ndjson"), what="all 2-source graphs")
    g2 = gen(ctx, "BuildOrderGen.tla", "BuildOrderGen_n3_%s.cfg" % t, ctx.path("n3.ndjson"), what="3-source graphs")
    g3 = gen(ctx, "BuildOrderGen.tla", "BuildOrderGen_n3_fill3.cfg", ctx.path("n3f.ndjson"), what="3-source graphs, longer Build-Depends")
    r = hgen(ctx, "C19", ctx.path("rand.ndjson"))
    judge(ctx, "C19", vf.cat(ctx.path("vec.ndjson"), g1, g2, g3, r), what="OrderDSCForBuild vs graph model", chunk=1500)
    ctx.exhaustive = True


# =========================================================================== struct marshalling (C09)
@prop("C09", "C09Trace",
      "Probe struct types P1-P5 cover every supported kind x tag (string, renamed, required, skipped, multiline; int, uint, "
      "bool; lists with delimiters/strip incl. required and int lists; version, dependency, arch, arch list, checksum list; "
      "embedded Paragraph). TLC enumerates all values over small per-field domains (835 values), all interleavings of known "
      "and unknown fields (single-line, multi-line, empty) for the pass-through law, and documents with/without required "
      "fields; the probe types' reflected descriptors are checked against the specification's table. Every value is also "
      "decoded twice into one struct, and every value is decoded into a struct that holds a fully populated other value "
      "(one receiver, two documents); the list is run again in reverse order in a fresh process.")
def c09(ctx):
    g1 = gen(ctx, "StructGen.tla", "StructGen.cfg", ctx.path("st.ndjson"), what="probe values, documents")
    gl = gen(ctx, "LongGen.tla", "LongGen_struct.cfg", ctx.path("long.ndjson"), what="fields whose line is around and beyond the read buffer size")
    judge(ctx, "C09", vf.cat(ctx.path("vec.ndjson"), g1, gl), what="Marshal/Unmarshal vs descriptor algebra", reverse=True)
    ctx.exhaustive = True
    ctx.assumptions += ["'optional zero fields are omitted' is read as 'fields whose text is empty': int 0 / bool false are written "
                        "as 0 / no by design", "pointer fields are not among the supported kinds"]


# =========================================================================== typed documents (C10)
@prop("C10", "C10Trace",
      "Field tables for .dsc, .changes, debian/control source and binary paragraphs, Packages and Sources stanzas live in "
      "the specification (DebDocsTables). TLC renders document models one factor at a time: every field absent once, every "
      "list with 1/2/3 elements, folded and single-line lists, checksum/file lists of 1-3 entries; the typed parsers' results "
      "are flattened (the harness's key set is checked against the table) and every field and derived accessor is judged.")
def c10(ctx):
    g1 = gen(ctx, "DebDocsGen.tla", "DebDocsGen.cfg", ctx.path("docs.ndjson"), what="document models per kind")
    gl = gen(ctx, "LongGen.tla", "LongGen_doc.cfg", ctx.path("long.ndjson"), what="Depends lines around and beyond the read buffer size")
    judge(ctx, "C10", vf.cat(ctx.path("vec.ndjson"), g1, gl), what="typed parsers vs document model", reverse=True)
    ctx.exhaustive = True


# =========================================================================== totality, determinism, concurrency (C18)
@prop("C18", "C18Trace",
      "Ten parser entry points (version, architecture, dependency, paragraphs, .dsc, .changes, debian/control, Packages, "
      "Sources, changelog) x seeded inputs (grammar-derived seeds, byte-level mutations, raw bytes, documents grown to 64 KiB) "
      "called twice under a watchdog; then 16 goroutines x N calls on independent inputs in a race-detector build, the "
      "begin/end events ordered by a global atomic ticket and stepped by TLC through the ParserCalls machine.")
def c18(ctx):
    mc(ctx, "ParserCallsMC.tla", "ParserCallsMC.cfg", what="no shared variable: every interleaving ends calls with their baseline outcome")
    vec = hgen(ctx, "C18", ctx.path("vec.ndjson"))
    seq, conc = ctx.path("seq.ndjson"), ctx.path("conc.ndjson")
    with open(vec) as f, open(seq, "w") as a, open(conc, "w") as b:
        for line in f:
            (b if '"k":"conc"' in line else a).write(line)
    if ctx.tier == "thorough":
        fz = vf.fuzz(ctx, "FuzzParsers", "parsers", 180, ctx.path("fuzz-parsers.ndjson"))
        with open(seq, "a") as a, open(fz) as f:      # (before the final "recheck" vector would be nicer; order does not matter)
            a.write(f.read())
    judge(ctx, "C18", seq, what="totality, value xor error, determinism")
    # concurrent part: race-enabled build, stateful validation
    trace = ctx.path("conc-trace.ndjson")
    # several fresh processes: each one meets the library cold exactly once
    raced, out = False, ""
    for attempt in range(3 if ctx.tier == "quick" else 10):
        o, r = vf.harness_race(ctx, ["exec", "C18", conc, trace])
        raced, out = raced or r, out + o
        if r:
            break
    if os.path.exists(trace) and os.path.getsize(trace) > 0 and "fatal error: concurrent map" not in out:
        verdicts = validate(ctx, "C18Trace.tla", "C18Trace.cfg", trace, workers=2, what="goroutine events vs ParserCalls machine",
                            stateful_ev=("begin", "end"))
        absorb(ctx, trace, verdicts, replay_vector=lambda rec, get: json.loads(open(conc).readline()))
    # (a process that the runtime aborted for concurrent map access leaves no complete trace: the abort is the observation)
    ctx.extra["race_detector"] = "data race reported" if raced else "no data race reported"
    if raced:
        ctx.violations.append({"ev": "race", "class": "concurrent", "why": "the Go race detector reported a data race",
                               "vector": json.loads(open(conc).readline()), "rec": {"output": out[-3000:]}, "trace": "conc", "line": 0})
    ctx.assumptions += ["data-race freedom is observed with the Go race detector (outside TLA+); TLC judges outcomes and the nesting of events",
                        "above 256 bytes only totality, value-xor-error and determinism are judged (no functional oracle)"]
