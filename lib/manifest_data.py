HOOKS = {
    "guard": "verif",
    "enable": "go build -tags verif (the harness in /verif/harness is always built with -tags verif against /repo's working tree)",
    "baseline_off_cmd": "cd /repo && GOFLAGS=-mod=mod GOPROXY=off GOSUMDB=off GOTOOLCHAIN=local go test -vet=off -count=1 -timeout 25m ./...",
    "source_commits": [],
    "add_only": True,
}

NOTES = ("Every verdict is TLC evaluating the TLA+ specification on an observation of the real code "
         "(harness/ never compares). M-mode runs check the specification itself and are reported as "
         "check-broken (exit 2), never as violations. known_findings.json lists genuine defects that are "
         "recorded rather than repaired, and the fix: commits made in /repo.")

_TB = ("Trusted: TLC/SANY/CommunityModules Json+IOUtils, the JVM, my transcription of Debian Policy into the Ref "
       "layer (cross-checked by spec-level laws in M mode), the harness's projection of Go values to JSON. "
       "Exhaustive only up to the stated bounds over representative alphabets (data independence argued from "
       "the code's character classes).")

CLAIMED = {
    "C01": {"text": "TLC model-checks the verrevcmp state machine (Impl layer) against a Policy-5.6.12 reference order written independently of the Go code, for all pairs of part strings up to the bound, and TLC judges the sign returned by the real version.Compare for every ordered pair of that domain, all structured (epoch, upstream, revision) pairs and seeded random/mutated pairs. A for-all-pairs statement over a small representative alphabet is exactly what explicit-state enumeration decides.",
            "design_ref": "3/C01", "note": _TB,
            "technique": "TLA+ reference order + TLC exhaustive enumeration; TLC trace validation of real Compare results"},
    "C02": {"text": "TLC checks reflexivity, antisymmetry, transitivity and congruence of the reference order on all triples up to the bound and that it coincides with a lexicographic Key embedding (hence a total preorder); the same laws are then checked by TLC on the signs logged from the real Compare for near-equal triples, and sort.Sort(version.Slice) outputs are checked for permutation + monotonicity.",
            "design_ref": "3/C02", "note": _TB,
            "technique": "TLC law checking on spec and on logged comparison matrices; sort-result validation"},
    "C03": {"text": "TLC classifies every string over a 9-character representative alphabet up to the bound as well-formed (with parts) / must-reject / unspecified from the property's grammar, and judges the real parser's outcome, all four renderings (String, MarshalControl, MarshalText, JSON) and their re-parses; an Impl-layer model of parseInto/String is model-checked against the same grammar.",
            "design_ref": "3/C03", "note": _TB,
            "technique": "TLA+ grammar classifier + TLC bounded-exhaustive string enumeration; trace validation of parse/render/re-parse"},
}

CLAIMED["C07"] = {"text": "A byte-level reference reader (RefRead) written from deb822(5)/Policy 5.1 classifies every document as well-formed (with its paragraphs, field names and logical lines) or not; TLC model-checks the ParagraphReader.Next state machine (Impl layer, one action per line, locals reset per call) against it over all token documents, and judges the real reader's four read paths (Next loop, All, Unmarshal into a slice, repeated Decode) on every document of the bounded-exhaustive token/byte domains plus seeded model documents. The per-paragraph invariant is demanded for arbitrary bytes.",
                  "design_ref": "3/C07", "note": _TB,
                  "technique": "TLA+ reference reader + TLC model checking of the reader machine; trace validation of four read paths"}
CLAIMED["C08"] = {"text": "The bytes written by Paragraph.WriteTo / Encoder are judged by the reference reader (so a writer/reader pair that is consistently wrong is still caught), re-read by the real reader, and cycled three times; TLC enumerates paragraph models with values drawn from line sequences (empty lines, runs of empty lines, indented lines, trailing newline or not) and uses every token/byte document the reader accepts as reader-produced input.",
                  "design_ref": "3/C08", "note": _TB + " Values whose first line is empty but which have further lines are a formatting request of the multiline convention, not content (DESIGN 3/C08).",
                  "technique": "TLC judges written bytes with the TLA+ reference reader; write/read cycle traces validated"}

NOT_APPLICABLE = {}
