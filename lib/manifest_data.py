HOOKS = {
    "guard": "verif",
    "enable": "go build -tags verif (the harness in /verif/harness is always built with -tags verif against /repo's working tree)",
    "baseline_off_cmd": "cd /repo && GOFLAGS=-mod=mod GOPROXY=off GOSUMDB=off GOTOOLCHAIN=local go test -vet=off -count=1 -timeout 25m ./...",
    "source_commits": ["0a60dfa", "269446f"],
    "add_only": True,
}

NOTES = ("Every verdict is TLC evaluating the TLA+ specification on an observation of the real code "
         "(harness/ never compares). M-mode runs check the specification itself and are reported as "
         "check-broken (exit 2), never as violations. known_findings.json lists genuine defects that are "
         "recorded rather than repaired, and the fix: commits made in /repo.")

_TB = ("Trusted: TLC/SANY/CommunityModules Json+IOUtils, the JVM, my transcription of Debian Policy into the Ref "
       "layer (cross-checked by spec-level laws in M mode), the harness's projection of Go values to JSON. "
       "Exhaustive only up to the stated bounds over representative alphabets (data independence argued from "
       "the code's character classes).")

CLAIMED = {
    "C01": {"text": "TLC model-checks the verrevcmp state machine (Impl layer) against a Policy-5.6.12 reference order written independently of the Go code, for all pairs of part strings up to the bound, and TLC judges the sign returned by the real version.Compare for every ordered pair of that domain, all structured (epoch, upstream, revision) pairs and seeded random/mutated pairs. A for-all-pairs statement over a small representative alphabet is exactly what explicit-state enumeration decides.",
            "design_ref": "3/C01", "note": _TB,
            "technique": "TLA+ reference order + TLC exhaustive enumeration; TLC trace validation of real Compare results"},
    "C02": {"text": "TLC checks reflexivity, antisymmetry, transitivity and congruence of the reference order on all triples up to the bound and that it coincides with a lexicographic Key embedding (hence a total preorder); the same laws are then checked by TLC on the signs logged from the real Compare for near-equal triples, and sort.Sort(version.Slice) outputs are checked for permutation + monotonicity.",
            "design_ref": "3/C02", "note": _TB,
            "technique": "TLC law checking on spec and on logged comparison matrices; sort-result validation"},
    "C03": {"text": "TLC classifies every string over a 9-character representative alphabet up to the bound as well-formed (with parts) / must-reject / unspecified from the property's grammar, and judges the real parser's outcome, all four renderings (String, MarshalControl, MarshalText, JSON) and their re-parses; an Impl-layer model of parseInto/String is model-checked against the same grammar.",
            "design_ref": "3/C03", "note": _TB,
            "technique": "TLA+ grammar classifier + TLC bounded-exhaustive string enumeration; trace validation of parse/render/re-parse"},
}

CLAIMED["C07"] = {"text": "A byte-level reference reader (RefRead) written from deb822(5)/Policy 5.1 classifies every document as well-formed (with its paragraphs, field names and logical lines) or not; TLC model-checks the ParagraphReader.Next state machine (Impl layer, one action per line, locals reset per call) against it over all token documents, and judges the real reader's four read paths (Next loop, All, Unmarshal into a slice, repeated Decode) on every document of the bounded-exhaustive token/byte domains plus seeded model documents. The per-paragraph invariant is demanded for arbitrary bytes.",
                  "design_ref": "3/C07", "note": _TB,
                  "technique": "TLA+ reference reader + TLC model checking of the reader machine; trace validation of four read paths"}
CLAIMED["C08"] = {"text": "The bytes written by Paragraph.WriteTo / Encoder are judged by the reference reader (so a writer/reader pair that is consistently wrong is still caught), re-read by the real reader, and cycled three times; TLC enumerates paragraph models with values drawn from line sequences (empty lines, runs of empty lines, indented lines, trailing newline or not) and uses every token/byte document the reader accepts as reader-produced input.",
                  "design_ref": "3/C08", "note": _TB + " Values whose first line is empty but which have further lines are a formatting request of the multiline convention, not content (DESIGN 3/C08).",
                  "technique": "TLC judges written bytes with the TLA+ reference reader; write/read cycle traces validated"}

CLAIMED["C13"] = {"text": "The ar format is specified in TLA+ (member model, RenderAr, header offsets). TLC renders every archive up to the bound and judges the real iterator's complete step trace (offsets via SectionReader.Outer, metadata, bytes, re-reads while and after iterating); the Ar.Next machine (Impl layer) is model-checked for exactness on clean archives. Large random binary members are covered by digest comparison.",
                  "design_ref": "3/C13", "note": _TB,
                  "technique": "TLA+ archive renderer + TLC model checking of the iterator machine; iteration traces validated by TLC"}
CLAIMED["C15"] = {"text": "The same iterator machine is model-checked with a fault model (any header column of any member overwritten by hostile text, truncation at any offset) for safety, boundedness and termination; TLC generates those corruptions of spec-rendered archives and judges the real iterator's steps (run twice, budgeted, panic-guarded) against the safety conditions evaluated on the actual bytes; real .deb files with stored/gzip members are damaged (byte flips, truncation, header columns) and each loaded three times under a watchdog.",
                  "design_ref": "3/C15", "note": _TB + " xz/lzma/bzip2/zstd decoders on hostile input are outside the claim (per the property).",
                  "technique": "TLC model checking with fault actions; TLC-generated structured corruption replayed into the real reader; trace validation"}
CLAIMED["C14"] = {"text": "Package shapes (members, order, names, encodings, control-tar layout, data files, debian-binary text) are enumerated by TLC; the harness builds each shape as a real .deb with real tar/compression/ar; TLC judges the loaded Control (typed fields and raw paragraph via the Deb822 reference reader), extensions, ar index, data tar listing, rejection rules and repeat-load determinism. The loader is also model-checked as a machine in which Go map iteration is nondeterministic: the outcome must be a function of the shape.",
                  "design_ref": "3/C14", "note": _TB + " Compression/tar/ar encoders are ground truth.",
                  "technique": "TLC-enumerated package shapes built into real .deb files; load traces validated by TLC; loader machine with map-order nondeterminism model-checked"}
CLAIMED["C16"] = {"text": "Ideal-signature model (key, list of signed members) in TLA+; TLC enumerates roles x keyrings x signed-member lists x decoy members x tampered member, the harness signs with real OpenPGP keys and flips real bytes, each case loaded and checked repeatedly (map order). TLC demands: success only if the signature covers exactly the unique loaded binary/control/data members with a keyring key and nothing signed was altered; the positive path must succeed with the right signer. The CheckDebsig machine with its own nondeterministic member selection is model-checked against the loader's.",
                  "design_ref": "3/C16", "note": _TB + " OpenPGP is ground truth (x/crypto).",
                  "technique": "TLC model checking of loader+debsig machine with nondeterministic selection; fault enumeration judged by TLC against an ideal-signature spec"}

CLAIMED["C04"] = {"text": "An independent recursive-descent reference parser for Policy 7.1 relationship fields is written in TLA+ (accept with AST / reject for exactly the malformations the property lists / unspecified otherwise) together with a renderer; TLC checks RefParse(Render(model)) = model for the whole bounded model domain in four spacing styles and several clause orders, then judges the real Parse and UnmarshalControl on every such rendering and on seeded single-byte corruptions of them.",
                  "design_ref": "3/C04", "note": _TB,
                  "technique": "TLA+ reference parser/renderer, self-consistency model-checked by TLC; real parser outputs validated by TLC"}
CLAIMED["C05"] = {"text": "For every input the real parser accepts (bounded-exhaustive renderings, mutations, raw bytes) TLC checks that String()/MarshalControl output is accepted again, parses to the identical structure, and is read as that same structure by the TLA+ reference parser; every architecture name built from 8 components in 1-, 2- and 3-part form is checked for the (abi, os, cpu) fixpoint and against the reference triple.",
                  "design_ref": "3/C05", "note": _TB,
                  "technique": "TLC validation of render/re-parse traces against the TLA+ reference parser; exhaustive architecture-name enumeration"}
CLAIMED["C06"] = {"text": "Match / SetAdmits / Select / Satisfied are specified in TLA+ from the property; TLC enumerates exactly the property's domain ('all' plus {any,x,y,z}^3: all 4225 ordered pairs; lists x negation x targets; dependency shapes x targets; operators x versions) and judges Arch.Is (both operand orders, struct-built and parsed), ArchSet.Matches, GetPossibilities/GetAllPossibilities/GetSubstvars and SatisfiedBy.",
                  "design_ref": "3/C06", "note": _TB + " Wildcard-vs-wildcard matches are only required to be symmetric.",
                  "technique": "TLC exhaustive enumeration of the stated finite domain; results of the real predicates validated by TLC"}

CLAIMED["C17"] = {"text": "The dpkg changelog format is specified in TLA+ (entry model, renderer with entry end offsets, expected parse, and the relation AllowedCut saying what parsing a prefix may return: exactly k entries at an entry boundary, all-or-error when only the final newline is missing, an error inside an entry). TLC renders all changelogs of the bounded model; the real Parse runs on the full text and on every prefix, ParseOne repeatedly, and on single-byte corruptions; the ParseOne/Parse line machine is model-checked for 'all entries or an error'.",
                  "design_ref": "3/C17", "note": _TB + " Timestamps are compared as civil fields plus zone offset (no epoch arithmetic in TLC).",
                  "technique": "TLA+ changelog renderer + truncation relation; every-prefix fault enumeration judged by TLC; line machine model-checked"}

CLAIMED["C20"] = {"text": "Copy/Move/Remove are specified as a TLA+ state machine at system-call granularity (open/create/write/close per copied file, one rename or unlink per moved/removed file, validation first, cleanup of a failed control-file copy) with one injected failure at any step; TLC checks ControlLast, ErrorMeansAbsent, RemoveLast, SuccessPost and Confined in every reachable state (each is a possible crash state and a possible watcher's view). Every scenario is then executed on a real temporary tree; the kernel's inotify event order, the returned error, the handle and before/after snapshots are validated by TLC on every prefix of the event sequence.",
                  "design_ref": "3/C20", "note": _TB + " Failure injection uses natural faults plus one verif-tagged failpoint in internal.Copy; crash points are prefixes of the observed event sequence.",
                  "technique": "TLC model checking of a syscall-level fault model; inotify traces of real runs validated by TLC on every prefix"}

CLAIMED["C12"] = {"text": "Hashing writers/readers and checksum verifiers are specified in TLA+ over ideal (injective) digests; TLC model-checks pass-through, reported size, digest and the verifier's accept-iff rule over all chunkings and algorithm lists, then generates behaviours (algorithm lists x chunkings x read buffers) and verifier scenarios (entry source x recorded-hash kind x length x chunking) that the real hashio / FileHash code executes step by step; after every step the observed sizes, passed-through bytes and the ground-truth fact 'whose true digest is this' are validated by TLC.",
                  "design_ref": "3/C12", "note": _TB + " Concrete digests are ground truth from Go crypto.",
                  "technique": "TLC model checking over ideal digests; TLC-generated behaviours replayed into hashio, step traces validated by TLC"}

CLAIMED["C11"] = {"text": "The NewParagraphReader accept/reject flow is a TLA+ state machine over ideal signatures (key, signed text) with one action per step of the code (Peek, Decode, NilBypass, Verify, Read); TLC checks 'signer => verified', 'accepted with a keyring => verified block only' and 'nothing after the block is returned' over all abstract scenarios. Real documents are clearsigned with real keys and damaged: every (sampled) byte position x {substitute, delete, insert, truncate}, splices before/inside/after, a second block, a dropped signature, all keyring compositions; ground truth about the damaged bytes (armor decodes? canonical text unchanged? signature packet unchanged?) is computed independently of go-debian and TLC applies the acceptance rules, including the mandatory positive path.",
                  "design_ref": "3/C11", "note": _TB + " x/crypto OpenPGP is ground truth for classification.",
                  "technique": "TLC model checking of the verification flow over ideal signatures; byte-level fault enumeration on real clearsigned files judged by TLC"}

CLAIMED["C19"] = {"text": "Sources, binaries and the three build-dependency fields are modelled in TLA+; Edges follows the property (first applicable non-substvar alternative per relation), cycles are computed by reachability, and AllowedOutcome says: a cycle through two or more sources => error, otherwise a permutation placing every source after the sources whose binaries it selects. TLC enumerates all labelled graphs over 2 and 3 sources, renders them as real multi-binary .dsc text (single-line and folded), the real ParseDsc + OrderDSCForBuild run five times each, and TLC judges the outcome; seeded graphs up to 12 sources x 4 binaries are judged the same way.",
                  "design_ref": "3/C19", "note": _TB + " A source build-depending on its own binary (and in no longer cycle) is unspecified.",
                  "technique": "TLC-enumerated dependency graphs rendered to .dsc by the TLA+ spec; outcomes validated by TLC with reachability-based cycle oracle"}

CLAIMED["C09"] = {"text": "Marshal/Unmarshal are specified as a field-descriptor algebra in TLA+ (kinds, renamed / required / skipped / multiline flags, list delimiters and strip sets, Paragraph.Update for the embedded raw paragraph). The harness's probe struct types are reflected and TLC checks them against the specification's descriptor table; TLC enumerates every value of the probe types over small per-field domains and every interleaving of known and unknown fields, and judges the marshalled paragraph (fields, order, omission, presence), the written bytes (through the Deb822 reference reader), the decoded value, required-field errors and recovered panics.",
                  "design_ref": "3/C09", "note": _TB,
                  "technique": "TLA+ descriptor algebra; TLC-enumerated struct values replayed through Marshal/Unmarshal and validated by TLC"}

CLAIMED["C10"] = {"text": "Field tables for six document kinds (Debian field name, key of the typed view, value kind) are part of the TLA+ specification; RenderDoc writes a document model in the real Debian layout (folded and single-line lists, multi-line checksum/file lists) and Expected gives the typed view. TLC enumerates models one factor at a time (each field absent, list lengths 1-3, folded or not) for every kind; the real ParseDsc / ParseChanges / ParseControl / ParseBinaryIndex / ParseSourceIndex results are flattened by explicit accessor code whose key set TLC checks against the table, and every field plus the derived accessors (Maintainers, HasArchAll, AbsFiles, DebianSource, SourcePackage, on-demand dependency fields) is judged.",
                  "design_ref": "3/C10", "note": _TB + " The mapping from Go struct field to flat key is harness knowledge (checked for key-set agreement with the table).",
                  "technique": "TLA+ field tables and document renderer; TLC-enumerated document models parsed by the real typed parsers and validated by TLC"}

CLAIMED["C18"] = {"text": "ParserCalls.tla has goroutines doing Begin/End with no shared variable, so its only behaviours end every call with the baseline outcome of (call, input); TLC explores all interleavings of the small model, and validates the real event trace of 16 goroutines x N calls (ordered by a global atomic ticket, per-goroutine sequence numbers) by stepping it through that machine - a disabled End (outcome differs from the call made alone) or ill-nested events reject the trace, and a run without overlapping calls is rejected as vacuous. The concurrent driver is built with the Go race detector; sequentially every entry point is called twice under a watchdog on seeded inputs up to 64 KiB (totality, value xor error, determinism).",
                  "design_ref": "3/C18", "note": _TB + " Data-race freedom itself is decided by the Go race detector, not by TLC.",
                  "technique": "TLA+ spec without shared state; stateful TLC trace validation of concurrent call events; race-detector build; watchdog-guarded repeat calls"}

NOT_APPLICABLE = {}
