"""./check growth : the specification beyond the twenty listed properties (spec/Growth.tla, DESIGN section 7).

Model-checks the growth modules (DebFile, Registry under both disciplines), generates vectors from GrowthGen,
runs the real code, lets TLC judge the observations (GrowthTrace), and binds the Registry model to the code with
the race detector.  Deviations are findings about the library that no listed property covers: they are printed
(`GROWTH-FINDING` when listed in growth_findings.json, `DEVIATION` otherwise) and never become a VIOLATION of a
property.  Exit 0: nothing unlisted; 1: an unlisted deviation; 2: the pipeline itself is broken."""
import json
import os
import shutil
import sys

import vf
import props


def main(tier):
    ctx = vf.Ctx("GROW", tier, int(os.environ.get("VERIF_SEED", "1")))
    try:
        vf.mc(ctx, "DebFile.tla", "DebFile.cfg", what="LoadFile: descriptors held = open handles")
        vf.mc(ctx, "Registry.tla", "Registry_lock.cfg", what="decompressor table: no race when callers serialise")
        # the reader over a source that fails once: reported when the look-ahead's error is checked, lost as written (GF-6)
        vf.mc(ctx, "ReaderSource.tla", "ReaderSource_checked.cfg", what="source error reported when the look-ahead checks it")
        code2, out2 = vf.tlc(ctx, "ReaderSource.tla", "ReaderSource_aswritten.cfg", what="M ReaderSource (as written)")
        lost = "Invariant ErrorReported is violated" in out2
        vf.log("  M %-28s %-30s ErrorReported %s as the constructor is written" % ("ReaderSource.tla", "ReaderSource_aswritten.cfg",
                                                                                  "is VIOLATED" if lost else "holds"))
        if code2 == 0 or not lost:
            raise vf.Broken("ReaderSource model: the look-ahead as written was expected to lose an error")
        vf.mc(ctx, "ChangelogHeaderMC.tla", "ChangelogHeaderMC.cfg", what="changelog header: scanner vs dpkg's grammar")
        code, out = vf.tlc(ctx, "Registry.tla", "Registry_none.cfg", what="M Registry (no discipline)")
        model_race = "Invariant NoRace is violated" in out
        vf.log("  M %-28s %-30s NoRace %s without caller discipline" % ("Registry.tla", "Registry_none.cfg",
                                                                        "is VIOLATED" if model_race else "holds"))
        if code == 0 or not model_race:
            raise vf.Broken("Registry model: a race was expected to be reachable without discipline")
        g = vf.gen(ctx, "GrowthGen.tla", "GrowthGen.cfg", ctx.path("growth.ndjson"), what="growth vectors")
        gd = vf.gen(ctx, "DebDocsGen.tla", "DebDocsGen.cfg", ctx.path("docs.ndjson"), what="typed documents (to be marshalled again)")
        props.judge(ctx, "GROW", vf.cat(ctx.path("growth-all.ndjson"), g, gd), what="public API beyond the listed properties")
        # the Registry model against the code: the race detector on SetXZMaxDict || Load, with and without a lock
        out1, race1 = vf.harness_race(ctx, ["xzrace", "unsync"])
        out2, race2 = vf.harness_race(ctx, ["xzrace", "locked"])
        vf.log("  R xzrace unsync: race reported=%s ; locked: race reported=%s" % (race1, race2))
        if race2:
            ctx.violations.append({"ev": "xzrace", "class": "locked", "why": "data race although callers serialise (the model says none)",
                                   "line": 0, "trace": "", "vector": None})
        if race1:
            ctx.violations.append({"ev": "xzrace", "class": "unsync", "why": "SetXZMaxDict races with a concurrent Load (the model says so too)",
                                   "line": 0, "trace": "", "vector": None})
    except vf.Broken as e:
        print("GROWTH-BROKEN: %s" % e, flush=True)
        return 2
    known = json.load(open(os.path.join(vf.ROOT, "growth_findings.json")))
    unknown = 0
    printed = set()
    for v in ctx.violations:
        sig = (v["ev"], v.get("class", ""), v["why"])
        kf = next((k for k in known if k["ev"] == v["ev"] and (k["why"] == v["why"] or v["why"] in k.get("whys", [])) and k.get("class", v.get("class")) == v.get("class")), None)
        if kf:
            if kf["id"] not in printed:
                printed.add(kf["id"])
                print("GROWTH-FINDING: %s [%s]" % (kf["summary"], kf["id"]), flush=True)
            continue
        if sig in printed:
            continue
        printed.add(sig)
        unknown += 1
        vec = v.get("vector")
        print("DEVIATION ev=%s class=%s why=%s vector=%s" % (v["ev"], v.get("class", ""), v["why"], json.dumps(vec)[:300]), flush=True)
    os.makedirs(os.path.join(vf.ROOT, "growth"), exist_ok=True)
    with open(os.path.join(vf.ROOT, "growth", "RESULT.json"), "w") as f:
        json.dump({"states": ctx.states, "transitions": ctx.transitions, "observations_judged": ctx.judged, "classes": ctx.classes,
                   "known_findings": sorted(x for x in printed if isinstance(x, str)), "unlisted_deviations": unknown,
                   "tlc_runs": ctx.tlc_runs}, f, indent=1)
    vf.log("growth %s: %d states, %d observations judged, %d known findings, %d unlisted deviations"
           % (tier, ctx.states, ctx.judged, len([x for x in printed if isinstance(x, str)]), unknown))
    shutil.rmtree(ctx.run, ignore_errors=True)
    return 1 if unknown else 0
