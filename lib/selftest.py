"""./check selftest : binding self-test (DESIGN 4.3).

A specification that nothing binds to the code is a failure mode of this technique.  For every property this
runs the quick pipeline once with a hook on the trace: after the real code has been observed, a sample of the
recorded lines that TLC accepted is corrupted in ONE recorded field (or one step is removed from a stateful
trace) and validated again.  Every corrupted line must be rejected.  A corrupted line that is still accepted
is a hole in the binding and fails the self-test (exit 1)."""
import copy
import json
import os
import sys

import vf
import props


def flip(b):
    return not b


def _first(seq):
    return seq[0] if seq else None


# ev -> function(record, class) -> corrupted record or None (None = this line offers nothing to corrupt)
def c_cmp(r, c):
    r["sign"] = -1 if r["sign"] >= 0 else 1
    return r


def c_row(r, c):
    if not r["su"]:
        return None
    r["su"][0] = -1 if r["su"][0] >= 0 else 1
    return r


def c_triple(r, c):
    r["signs"][0][1] = 0 if r["signs"][0][1] != 0 else 1
    return r


def c_sort(r, c):
    if len(r["out"]) < 1:
        return None
    r["out"] = r["out"][1:]
    return r


def c_parse(r, c):
    if c not in ("wellformed", "reject"):
        return None
    r["res"]["ok"] = not r["res"]["ok"]
    r["res_control"]["ok"] = r["res"]["ok"]
    r["res_text"]["ok"] = r["res"]["ok"]
    if r["res"]["ok"]:
        return None  # turning a reject into an accept needs renderings; the other direction is enough
    return r


def c_dep(r, c):
    if c != "accept":
        return None
    if r["res"]["ast"] and r["res"]["ast"][0]:
        r["res"]["ast"][0][0]["name"] = r["res"]["ast"][0][0]["name"] + [120]
        return r
    return None


def c_dep_rt(r, c):
    if c != "accepted":
        return None
    r["rt"]["back"]["ok"] = False
    return r


def c_arch_rt(r, c):
    if c != "arch-name":
        return None
    r["t2"]["cpu"] = r["t2"]["cpu"] + [122]
    return r


def c_is(r, c):
    r["r_xy"] = not r["r_xy"]
    return r


def c_setmatch(r, c):
    if c == "unspecified":
        return None
    r["r"] = not r["r"]
    return r


def c_select(r, c):
    r["all"] = r["all"] + [[122]]
    return r


def c_sat(r, c):
    if c == "unspecified":
        return None
    r["r"] = not r["r"]
    return r


def c_read(r, c):
    if c != "wellformed" or not r["next"]["paras"]:
        return None
    r["next"]["paras"] = r["next"]["paras"][1:]
    return r


def c_write(r, c):
    if c != "representable":
        return None
    r["singles"][0]["w"] = r["singles"][0]["w"] + [10, 10]
    return r


def c_rw(r, c):
    if c != "reader-output":
        return None
    r["cycles"][1]["w"] = r["cycles"][1]["w"] + [65]
    return r


def c_rt(r, c):
    r["unmarshal_ok"] = False
    return r


def c_passthru(r, c):
    if len(r["para"]["order"]) < 2:
        return None
    r["para"]["order"] = r["para"]["order"][::-1]
    return r


def c_doc(r, c):
    k = sorted(r["flat"])[0]
    for k in sorted(r["flat"]):
        if isinstance(r["flat"][k], list) and r["flat"][k] and isinstance(r["flat"][k][0], int):
            r["flat"][k] = r["flat"][k] + [33]
            return r
    return None


def c_cs(r, c):
    if c == "must-fail":
        r["obs"]["signer"] = "k1"
        return r
    if c == "positive":
        r["obs"]["ok"] = False
        return r
    return None


def c_hw(r, c):
    if not r.get("steps"):
        return None
    r["steps"][-1]["sizes"][0] += 1
    return r


def c_verifier(r, c):
    r["close_ok"] = not r["close_ok"]
    r["new_ok"] = True
    return r


def c_ar(r, c):
    if c != "wellformed":
        return None
    del r["steps"][0]          # one event removed
    return r


def c_arbig(r, c):
    if c != "wellformed-large":
        return None
    r["steps"][0]["data_ok"] = False
    return r


def c_arraw(r, c):
    if c != "members-returned":
        return None
    r["steps"][0]["delivered"] += 1
    return r


def c_debraw(r, c):
    if len(r["ids"]) < 2:
        return None
    r["ids"][1] = r["ids"][1] + "x"
    return r


def c_deb(r, c):
    if "check" in r["in"]:
        if c == "must-fail":
            r["reps"][0]["sig_ok"] = True
            r["reps"][0]["ok"] = True
            return r
        if c == "must-verify":
            r["reps"][-1]["sig_ok"] = False
            return r
        return None
    if c == "wellformed":
        r["first"]["control"]["Package"] = r["first"]["control"]["Package"] + [120]
        return r
    if c == "reject":
        r["first"]["ok"] = True
        return r
    return None


def c_cl(r, c):
    # one step of the ParseOne sequence removed
    if len(r["steps"]) < 2:
        return None
    del r["steps"][0]
    return r


def c_clraw(r, c):
    if c != "corrupted-accepted":
        return None
    r["n"] = r["in"]["n"] - 1
    return r if r["in"]["n"] >= 1 else None


def c_call(r, c):
    r["digest2"] = r["digest2"] + "x"
    return r


def c_order(r, c):
    if c == "acyclic" and len(r["runs"][0]["order"]) >= 1:
        for run in r["runs"]:
            run["order"] = run["order"][1:]
        return r
    if c == "cycle":
        for run in r["runs"]:
            run["ok"] = True
        return r
    return None


def c_up(r, c):
    if c == "success-path" and r["in"]["op"] in ("copy", "move") and r["bases"]:
        # the control file's events moved to the front: it would have appeared first
        ctl = [e for e in r["events"] if e["name"] == r["ctl"]]
        rest = [e for e in r["events"] if e["name"] != r["ctl"]]
        r["events"] = ctl + rest
        return r
    if c.startswith("fault-"):
        r["err"] = False
        return r
    return None


def c_upseq(r, c):
    # the handle is reported one step behind: after the last operation it is where it was before
    if len(r["steps"]) < 2 or r["steps"][-1]["handle"] == r["steps"][-2]["handle"]:
        # same place: claim instead that the source directory still holds everything after the first step
        r["steps"][-1]["a"], r["steps"][-1]["b"] = r["steps"][-1]["b"], r["steps"][-1]["a"]
        if r["steps"][-1]["a"] == r["steps"][-1]["b"]:
            return None
        return r
    r["steps"][-1]["handle"] = r["steps"][-2]["handle"]
    return r


def c_rt2(r, c):
    # the decoded struct reported as still holding the first document's value in one field that differs
    a, b = r["in"]["first"], r["in"]["second"]
    for k in sorted(b):
        if a[k] != b[k] and k in r["decoded"] and r["decoded"][k] == b[k] and b[k] not in ([], "", 0, False):
            r["decoded"][k] = a[k]
            return r
    return None


def c_cs_ops(r, c):
    # the last poll of reader 1 (end-of-input) reported as another paragraph of a different reader
    paras = [s for s in r["steps"] if s["kind"] == "para"]
    if not paras or r["steps"][-1]["kind"] != "eof":
        return None
    r["steps"][-1] = copy.deepcopy(paras[-1])
    return r


def c_deb_ops(r, c):
    # two handles' data streams swapped
    idx = [i for i, o in enumerate(r["in"]["ops"]) if o["op"] == "data"]
    if len(idx) < 2 or r["steps"][idx[0]]["tar"] == r["steps"][idx[1]]["tar"]:
        return None
    r["steps"][idx[0]]["tar"], r["steps"][idx[1]]["tar"] = r["steps"][idx[1]]["tar"], r["steps"][idx[0]]["tar"]
    return r


def _bump_run(rle):
    # one byte of a long value lost: the longest run is one shorter
    if not rle:
        return False
    i = max(range(len(rle)), key=lambda k: rle[k][1])
    if rle[i][1] < 2:
        return False
    rle[i][1] -= 1
    return True


def c_read_long(r, c):
    for p in r["all"]["paras"]:
        for v in p["values"]:
            if _bump_run(v["value"]):
                return r
    return None


def c_write_long(r, c):
    return r if _bump_run(r["written"]) else None


def c_rt_long(r, c):
    for d in r["decoded"]:
        if _bump_run(d):
            return r
    return None


def c_doc_long(r, c):
    if r["depends"] and _bump_run(r["depends"][0][0]["name"]):
        return r
    return None


def c_cl_long(r, c):
    if r["entries"] and _bump_run(r["entries"][0]["changelog"]):
        return r
    return None


def c_hasher_life(r, c):
    for st, op in zip(r["steps"], r["in"]["ops"]):
        if op["op"] in ("s", "e"):
            st["size"] += 1
            return r
    return None


def c_rt_slice(r, c):
    # the second element reported with the first element's value in one field that differs
    vals = r["in"]["values"]
    if len(r["decoded"]) < 2:
        return None
    for k in sorted(vals[1]):
        if vals[0][k] != vals[1][k] and r["decoded"][1].get(k) == vals[1][k] and vals[0][k] not in ([], "", 0, False):
            r["decoded"][1][k] = vals[0][k]
            return r
    return None


def c_write_fault(r, c):
    if c != "write-refused":
        return None
    r["errs"] = [False for _ in r["errs"]]
    return r


_turn = {}


def turn(ev, n):
    """corruptors with several variants take them in turn (0 .. n-1) per event kind"""
    _turn[ev] = _turn.get(ev, -1) + 1
    return _turn[ev] % n


def c_cmp_text(r, c):
    if c not in ("strict", "equal"):
        return None
    if turn("cmp_text", 2) == 0:
        r["sign"] = -1 if r["sign"] >= 0 else 1
    else:
        r["sign_reused"] = -1 if r["sign_reused"] >= 0 else 1
    return r


def c_enc_structs(r, c):
    w = r["w"]
    if not w:
        return None
    r["w"] = w[:-1] + [120, 10] if w[-1] == 10 else w + [120]      # the last line grows by an "x"
    return r


def c_cs2(r, c):
    # the later observations of one input: All(), the Decoder's signer, what reached the caller after a source fault
    t = turn("cs", 3)
    if t == 0 or "all" not in r:
        return c_cs(r, c)
    if t == 1 and c in ("positive", "must-fail", "source-fails-midway", "signed-text-malformed"):
        r["all"]["ok"] = not r["all"]["ok"]
        return r
    if c == "positive":
        r["slice"]["signer"] = "k2" if r["slice"]["signer"] != "k2" else "k1"
        return r
    if c == "source-fails-midway" and r["keyring"]:
        r["foreign_in_next"] = True
        return r
    return c_cs(r, c)


def c_cl2(r, c):
    if turn("cl", 2) == 0 or not r.get("faults") or len(r["in"]["entries"]) < 1:
        return c_cl(r, c)
    # a source that failed right at the start is reported as a clean, empty changelog
    r["faults"][0] = {"ok": True, "n": 0, "panic": False}
    return r


def c_debraw2(r, c):
    if turn("debraw", 2) == 0 or "overlap" not in r:
        return c_debraw(r, c)
    r["overlap"]["tar2"] = []
    if not r["tar_first"]:
        return c_debraw(r, c)
    return r


def c_up2(r, c):
    if c == "fault-destfile":
        if turn("up-destfile", 2) == 0:
            r["dst_self"] = "partial"
        else:
            r["err"] = False
        return r
    return c_up(r, c)


def c_arsparse(r, c):
    if not r["members"]:
        return None
    r["members"][0]["size"] = r["members"][0]["size"][:-1] + [48 if r["members"][0]["size"][-1] != 48 else 49]
    return r


def c_upreparse(r, c):
    r["b"] = r["a"]
    return r


CORRUPT = {"arsparse": c_arsparse, "upreparse": c_upreparse, "cmp_text": c_cmp_text, "enc_structs": c_enc_structs, "rt_slice": c_rt_slice, "write_fault": c_write_fault, "read_long": c_read_long, "write_long": c_write_long, "rt_long": c_rt_long, "doc_long": c_doc_long, "cl_long": c_cl_long,
           "hasher_life": c_hasher_life, "upseq": c_upseq, "rt2": c_rt2, "cs_ops": c_cs_ops, "deb_ops": c_deb_ops, "cmp": c_cmp, "row": c_row, "triple": c_triple, "sort": c_sort, "parse": c_parse, "dep": c_dep, "dep_rt": c_dep_rt,
           "arch_rt": c_arch_rt, "is": c_is, "setmatch": c_setmatch, "select": c_select, "sat": c_sat, "read": c_read,
           "write": c_write, "rw": c_rw, "rt": c_rt, "passthru": c_passthru, "doc": c_doc, "cs": c_cs2, "hw": c_hw, "hr": c_hw,
           "verifier": c_verifier, "ar": c_ar, "arbig": c_arbig, "arraw": c_arraw, "debraw": c_debraw2, "deb": c_deb, "cl": c_cl2,
           "clraw": c_clraw, "call": c_call, "order": c_order, "up": c_up2}

PER_EV = 12   # corrupted lines per event kind and property


def corrupt_trace(ctx, pid, trace, verdicts):
    """Write a copy of `trace` in which up to PER_EV accepted lines per event kind are corrupted; return (path, lines)."""
    out = trace + ".corrupt"
    chosen = {}
    count = {}
    with open(trace) as f, open(out, "w") as g:
        for i, line in enumerate(f, 1):
            ok, cls, why = verdicts[i]
            rec = json.loads(line)
            ev = rec.get("ev")
            fn = CORRUPT.get(ev)
            if ok and fn and cls not in vf.TRIVIAL_CLASSES and count.get((ev, cls), 0) < PER_EV:
                new = fn(copy.deepcopy(rec), cls)
                if new is not None:
                    count[(ev, cls)] = count.get((ev, cls), 0) + 1
                    chosen[i] = (ev, cls)
                    g.write(json.dumps(new) + "\n")
                    continue
            g.write(line)
    return out, chosen


def main(tier):
    failures = []
    total = 0
    kinds = set()
    real_judge = props.judge

    only = os.environ.get("VERIF_SELFTEST_ONLY", "")
    for pid in sorted(props.PROPS):
        if only and pid not in only.split(","):
            continue
        ctx = vf.Ctx(pid, "quick", int(os.environ.get("VERIF_SEED", "1")))
        ctx.run = ctx.run + ".selftest"
        os.makedirs(ctx.run, exist_ok=True)
        state = {"n": 0, "holes": []}

        def judge(c, p, vectors, what="", exec_prop=None, reverse=False, **kw):
            trace = c.fresh("trace") + ".ndjson"
            vf.hexec(c, exec_prop or p, vectors, trace)
            mod = props.PROPS[p]["trace"]
            verdicts = vf.validate(c, mod + ".tla", mod + ".cfg", trace, what="selftest baseline", **kw)
            bad, chosen = corrupt_trace(c, p, trace, verdicts)
            if not chosen:
                return
            v2 = vf.validate(c, mod + ".tla", mod + ".cfg", bad, what="selftest corrupted", **kw)
            for line, (ev, cls) in chosen.items():
                state["n"] += 1
                kinds.add((p, ev, cls))
                if v2[line][0]:
                    state["holes"].append((p, ev, cls, line))

        props.judge = judge
        # the M stages are not needed here
        real_mc = props.mc
        props.mc = lambda *a, **k: None
        try:
            try:
                props.PROPS[pid]["run"](ctx)
            except vf.Broken as e:
                # C18's concurrent part calls validate/absorb directly; a Broken here is a broken self-test
                failures.append((pid, "broken: %s" % str(e)[:300]))
        finally:
            props.judge = real_judge
            props.mc = real_mc
            import shutil
            shutil.rmtree(ctx.run, ignore_errors=True)
        total += state["n"]
        print("selftest %s: %d corrupted observations, %d still accepted" % (pid, state["n"], len(state["holes"])), flush=True)
        for h in state["holes"][:5]:
            print("   HOLE: %s ev=%s class=%s line=%d was accepted after corruption" % h, flush=True)
        if state["holes"]:
            failures.append((pid, "%d corrupted observations accepted" % len(state["holes"])))
        if state["n"] == 0:
            failures.append((pid, "nothing could be corrupted (vacuous)"))
    print("selftest: %d corrupted observations over %d (property, event, class) kinds; %d failures" % (total, len(kinds), len(failures)))
    for f in failures:
        print("SELFTEST-FAIL %s: %s" % f)
    return 1 if failures else 0
