#!/bin/sh
# Run once after a fresh restore, offline: verify tools, build the harness, parse every spec module.
set -e
cd "$(dirname "$0")"
export GOFLAGS=-mod=mod GOPROXY=off GOSUMDB=off GOTOOLCHAIN=local
for t in java go python3; do command -v $t >/dev/null || { echo "missing tool: $t"; exit 1; }; done
test -f /opt/veriftools/tla/tla2tools.jar || { echo "missing tla2tools.jar"; exit 1; }
mkdir -p harness/bin evidence replays run
cp /repo/go.sum harness/go.sum
[ -f harness/go.sum.extra ] && cat harness/go.sum.extra >> harness/go.sum
(cd harness && go build -tags verif -o bin/harness .)
CP=/opt/veriftools/tla/tla2tools.jar:/opt/veriftools/tla/CommunityModules-deps.jar
fail=0
for f in spec/*.tla; do
  if ! (cd spec && java -Xmx1g -cp $CP tla2sany.SANY "$(basename $f)" >/tmp/sany.$$ 2>&1) || grep -q 'Could not parse\|\*\*\* Errors\|Fatal' /tmp/sany.$$; then
    echo "SANY failed on $f"; tail -20 /tmp/sany.$$; fail=1
  fi
done
rm -f /tmp/sany.$$
[ $fail = 0 ] && echo "setup ok"
exit $fail
