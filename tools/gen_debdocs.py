#!/usr/bin/env python3
"""Writes spec/DebDocsTables.tla: the field tables of the typed Debian documents (Policy 5, dsc(5),
deb-changes(5), deb-src-control(5), apt Packages/Sources) with field names and sample values as byte
tuples.  Run by hand when a table changes; the generated module is committed and is the single source of
truth that the harness's flattening code is checked against (event "keys")."""
def b(s): return "<<" + ", ".join(str(c) for c in s.encode()) + ">>"
def seq(items): return "<<" + ", ".join(items) + ">>"

# kind -> base model value (as TLA+ text); list kinds get 3 elements, the generator takes prefixes
H1, H2, H3 = "d41d8cd98f00b204e9800998ecf8427e", "da39a3ee5e6b4b0d3255bfef95601890afd80709", "e3b0c44298fc1c149afbf4c8996fb92427ae41e4649b934ca495991b7852b855"
H4 = "cf83e1357eefb8bdf1542850d66d8007d620e4050b5715dc83f4a921d36ce9ce47d0d13c5d85f2b0ff8318d2877eec2f63b931bd47417a81a538327af927da3e"
def sums(alg):
    h = {"md5": H1, "sha1": H2, "sha256": H3, "sha512": H4}[alg]
    return seq([seq([b(h), b(str(n)), b(name)]) for n, name in ((1234, "pkg_1.0.orig.tar.gz"), (567, "pkg_1.0-1.debian.tar.xz"), (89, "pkg_1.0-1.dsc"))])
chfiles = seq([seq([b(H1), b(str(n)), b(sec), b(pri), b(name)]) for n, sec, pri, name in
               ((1234, "utils", "optional", "pkg_1.0-1.dsc"), (567, "non-free/libs", "extra", "pkg_1.0-1_amd64.deb"), (89, "utils", "optional", "pkg_1.0.orig.tar.gz"))])
people = seq([b("Ondřej Surý <ondrej@example.org>"), b("John Doe <jdoe@example.com>"), b("Ünï Cödé <u@x.org>")])   # non-ASCII names first and last
deps = seq([b("debhelper (>= 9)"), b("libfoo-dev [amd64] | libbar-dev"), b("python3:any <!nocheck>")])
VAL = {
 "scalar": lambda f: b({"Format": "3.0 (quilt)", "Urgency": "medium", "Priority": "optional", "Section": "utils"}.get(f, "value of " + f)),
 # a scalar whose text depends on the model's n: the source of a Packages entry is a bare name, a name with the
 # source version of a binNMU in parentheses, or another bare name
 "scalar-n": lambda f: seq([b("srcpkg"), b("srcpkg (1.0-1)"), b("src-x")]),
 "version": lambda f: b("1:1.0-1"),
 "int": lambda f: b("4242"),
 "bool": lambda f: b("yes"),
 "arch": lambda f: b("amd64"),
 "archs": lambda f: seq([b("any"), b("all"), b("kfreebsd-any")]),
 "dep": lambda f: deps,
 "clist": lambda f: people if f in ("Uploaders",) else seq([b("pkg"), b("libpkg1"), b("pkg-doc")]),
 "slist": lambda f: seq([b("pkg"), b("libpkg1"), b("pkg-doc")]) if f == "Binary" else seq([b("783746"), b("12345"), b("999")]),
 "cslist": lambda f: seq([b("role::program"), b("interface::commandline"), b("uitoolkit::ncurses")]),
 "mstring": lambda f: seq([b("pkg (1.0-1) unstable; urgency=low"), b(""), b("  * Initial release, closes"), b("    #805204.")]) if f == "Changes" else seq([b("short description"), b("long text"), b(""), b("# not a comment: a line of the text"), b("more text")]),
 "sums:md5": lambda f: sums("md5"), "sums:sha1": lambda f: sums("sha1"), "sums:sha256": lambda f: sums("sha256"), "sums:sha512": lambda f: sums("sha512"),
 "chfiles": lambda f: chfiles,
}
# (Debian field name, flat key, kind)
KINDS = {
 # a caller's own struct that embeds control.BestChecksums (the accessor Checksums() prefers SHA-256, falls back to SHA-512)
 "best": [("Package","Package","scalar"),("Checksums-Sha256","ChecksumsSha256","sums:sha256"),("Checksums-Sha512","ChecksumsSha512","sums:sha512")],
 "dsc": [("Format","Format","scalar"),("Source","Source","scalar"),("Binary","Binaries","clist"),("Architecture","Architectures","archs"),
         ("Version","Version","version"),("Origin","Origin","scalar"),("Maintainer","Maintainer","scalar"),("Uploaders","Uploaders","clist"),
         ("Homepage","Homepage","scalar"),("Standards-Version","StandardsVersion","scalar"),
         ("Build-Depends","BuildDepends","dep"),("Build-Depends-Arch","BuildDependsArch","dep"),("Build-Depends-Indep","BuildDependsIndep","dep"),
         ("Checksums-Sha1","ChecksumsSha1","sums:sha1"),("Checksums-Sha256","ChecksumsSha256","sums:sha256"),("Files","Files","sums:md5")],
 "changes": [("Format","Format","scalar"),("Source","Source","scalar"),("Binary","Binaries","slist"),("Architecture","Architectures","archs"),
         ("Version","Version","version"),("Origin","Origin","scalar"),("Distribution","Distribution","scalar"),("Urgency","Urgency","scalar"),
         ("Maintainer","Maintainer","scalar"),("Changed-By","ChangedBy","scalar"),("Closes","Closes","slist"),("Changes","Changes","mstring"),
         ("Checksums-Sha1","ChecksumsSha1","sums:sha1"),("Checksums-Sha256","ChecksumsSha256","sums:sha256"),("Files","Files","chfiles")],
 "srcpara": [("Source","Source","scalar"),("Maintainer","Maintainer","scalar"),("Uploaders","Uploaders","clist"),("Priority","Priority","scalar"),
         ("Section","Section","scalar"),("Description","Description","mstring"),("Build-Depends","BuildDepends","dep"),
         ("Build-Depends-Indep","BuildDependsIndep","dep"),("Build-Conflicts","BuildConflicts","dep"),("Build-Conflicts-Indep","BuildConflictsIndep","dep")],
 "binpara": [("Package","Package","scalar"),("Architecture","Architectures","archs"),("Priority","Priority","scalar"),("Section","Section","scalar"),
         ("Essential","Essential","bool"),("Description","Description","mstring"),("Depends","Depends","dep"),("Recommends","Recommends","dep"),
         ("Suggests","Suggests","dep"),("Enhances","Enhances","dep"),("Pre-Depends","PreDepends","dep"),("Breaks","Breaks","dep"),
         ("Conflicts","Conflicts","dep"),("Replaces","Replaces","dep"),("Built-Using","BuiltUsing","dep")],
 "packages": [("Package","Package","scalar"),("Source","Source","scalar-n"),("Version","Version","version"),("Installed-Size","InstalledSize","int"),
         ("Maintainer","Maintainer","scalar"),("Architecture","Architecture","arch"),("Multi-Arch","MultiArch","scalar"),("Description","Description","mstring"),
         ("Homepage","Homepage","scalar"),("Description-md5","DescriptionMD5","scalar"),("Tag","Tags","cslist"),("Section","Section","scalar"),
         ("Priority","Priority","scalar"),("Filename","Filename","scalar"),("Size","Size","int"),("MD5sum","MD5sum","scalar"),("SHA1","SHA1","scalar"),
         ("SHA256","SHA256","scalar"),("Build-Ids","DebugBuildIds","slist"),
         ("Depends","acc:Depends","dep"),("Pre-Depends","acc:PreDepends","dep"),("Conflicts","acc:Conflicts","dep"),("Breaks","acc:Breaks","dep"),
         ("Replaces","acc:Replaces","dep"),("Suggests","acc:Suggests","dep"),("Built-Using","acc:BuiltUsing","dep")],
 "sources": [("Package","Package","scalar"),("Binary","Binaries","clist"),("Version","Version","version"),("Maintainer","Maintainer","scalar"),
         ("Uploaders","Uploaders","scalar"),("Architecture","Architecture","archs"),("Standards-Version","StandardsVersion","scalar"),("Format","Format","scalar"),
         ("Files","Files","sums:md5"),("Vcs-Browser","VcsBrowser","scalar"),("Vcs-Git","VcsGit","scalar"),("Vcs-Svn","VcsSvn","scalar"),("Vcs-Bzr","VcsBzr","scalar"),
         ("Checksums-Sha1","ChecksumsSha1","sums:sha1"),("Checksums-Sha256","ChecksumsSha256","sums:sha256"),("Homepage","Homepage","scalar"),
         ("Directory","Directory","scalar"),("Priority","Priority","scalar"),("Section","Section","scalar"),
         ("Build-Depends","acc:BuildDepends","dep"),("Build-Depends-Arch","acc:BuildDependsArch","dep"),("Build-Depends-Indep","acc:BuildDependsIndep","dep")],
}
out = ["---------------------------- MODULE DebDocsTables ----------------------------",
       "(* GENERATED by tools/gen_debdocs.py - field tables of the typed Debian documents: *)",
       "(* <<Debian field name, flat key of the typed view, value kind, base model value>> *)",
       "EXTENDS Integers, Sequences",
       "DocKinds == {" + ", ".join('"%s"' % k for k in KINDS) + "}",
       "FieldTable(kind) =="]
for i, (k, fields) in enumerate(KINDS.items()):
    rows = ",\n        ".join("<<%s, \"%s\", \"%s\", %s>>" % (b(f), key, kd, VAL[kd](f)) for f, key, kd in fields)
    out.append("    %s kind = \"%s\" -> <<\n        %s >>" % ("CASE" if i == 0 else "  []", k, rows))
out.append("=============================================================================")
open(__import__("os").path.join(__import__("os").path.dirname(__file__), "..", "spec", "DebDocsTables.tla"), "w").write("\n".join(out) + "\n")
print("wrote spec/DebDocsTables.tla")
