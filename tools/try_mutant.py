#!/usr/bin/env python3
"""tools/try_mutant.py <property> <worktree> [--keep-as NAME] [--tier quick|thorough] [--checks C01,C02]

Confirms a seeded change made by an independent sub-agent in its own scratch worktree and runs the checks against it:
  1. the change compiles and the library's own tests pass with it (in the worktree)
  2. the demonstration fails with the change and passes without it (in the worktree)
  3. the patch is applied to /repo, the property's check (and any others asked for) is run, the patch is undone
  4. the mutant is stored under /verif/seeded/<NAME>/ with meta.json saying what happened
Nothing is ever committed to /repo."""
import glob
import json
import os
import re
import shutil
import subprocess
import sys

ENV = dict(os.environ, GOFLAGS="-mod=mod", GOPROXY="off", GOSUMDB="off", GOTOOLCHAIN="local")
ROOT = os.path.dirname(os.path.dirname(os.path.abspath(__file__)))


def sh(cmd, cwd=None, check=False):
    p = subprocess.run(cmd, shell=True, cwd=cwd, env=ENV, stdout=subprocess.PIPE, stderr=subprocess.STDOUT, text=True)
    if check and p.returncode != 0:
        print(p.stdout[-3000:])
        sys.exit("FAILED: " + cmd)
    return p.returncode, p.stdout


def main():
    prop, wt = sys.argv[1], sys.argv[2]
    name = prop
    tier = "quick"
    checks = [prop]
    sub = ""
    args = sys.argv[3:]
    while args:
        a = args.pop(0)
        if a == "--keep-as":
            name = args.pop(0)
        elif a == "--tier":
            tier = args.pop(0)
        elif a == "--checks":
            checks = args.pop(0).split(",")
        elif a == "--mdir":
            sub = args.pop(0)
    mdir = os.path.join(wt, "_mutant", sub) if sub else os.path.join(wt, "_mutant")
    patch = os.path.join(mdir, "patch.diff")
    demos = glob.glob(os.path.join(mdir, "*_test.go")) + glob.glob(os.path.join(mdir, "*.go"))
    demos = sorted(set(demos))
    if not os.path.exists(patch) or not demos:
        sys.exit("no patch.diff / demo in " + mdir)
    # make sure the worktree's diff IS the patch
    code, cur = sh("git diff", cwd=wt)
    cur_files = set(re.findall(r"^diff --git a/(\S+)", cur, re.M))
    pat_files = set(re.findall(r"^diff --git a/(\S+)", open(patch).read(), re.M))
    report = {"property": prop, "files_changed": sorted(pat_files)}
    if cur_files != pat_files or cur.strip() != open(patch).read().strip():
        # (several mutants may live in one worktree: always start from the patch under test)
        sh("git checkout -- . && git apply %s" % patch, cwd=wt, check=True)
    # 1. compiles, own tests pass
    code, out = sh("go build ./... && go test -count=1 ./...", cwd=wt)
    report["builds_and_passes_suite"] = code == 0
    if code != 0:
        print(out[-2000:])
    # 2. demonstration
    demo = demos[0]
    head = open(demo).read(600)
    m = re.search(r"([a-z]+)/?\s*(?:directory|package|dir)", head) or re.search(r"(version|control|dependency|deb|changelog|hashio|internal)/", head)
    pkg_decl = re.search(r"^package (\w+)", open(demo).read(), re.M).group(1)
    pkgdir = None
    for cand in ("version", "control", "dependency", "deb", "changelog", "hashio", "internal"):
        if re.search(r"\b%s/" % cand, head) or pkg_decl in (cand, cand + "_test"):
            pkgdir = cand
            break
    if pkgdir is None:
        sys.exit("cannot tell the demo's package directory")
    dst = os.path.join(wt, pkgdir, "zz_mutant_demo_test.go")
    shutil.copy(demo, dst)
    c_with, o_with = sh("go test -count=1 ./%s/" % pkgdir, cwd=wt)
    sh("git apply -R %s" % patch, cwd=wt, check=True)
    c_without, o_without = sh("go test -count=1 ./%s/" % pkgdir, cwd=wt)
    sh("git apply %s" % patch, cwd=wt, check=True)
    os.remove(dst)
    report["demo_fails_with_change"] = c_with != 0
    report["demo_passes_without_change"] = c_without == 0
    if c_with == 0 or c_without != 0:
        print("demo with change rc=%d, without rc=%d" % (c_with, c_without))
        print(o_with[-800:], o_without[-800:])
    # 3. run the checks against it
    code, out = sh("git status --short", cwd="/repo")
    if out.strip():
        sys.exit("/repo is not clean:\n" + out)
    results = {}
    try:
        sh("git apply %s" % patch, cwd="/repo", check=True)
        for c in checks:
            code, out = sh("./check %s %s" % (c, tier) if c != "growth" else "./check growth", cwd=ROOT)
            whys = sorted(set(re.findall(r"violation: (.*)", out) + re.findall(r"^DEVIATION (.*?) vector=", out, re.M)))
            results[c] = {"exit": code, "violations": whys[:6], "summary": out.strip().splitlines()[-1] if out.strip() else ""}
            print("check %s %s -> exit %d  %s" % (c, tier, code, whys[:3]))
    finally:
        sh("git checkout -- .", cwd="/repo")
        sh("git clean -fdq -- . ':!_mutant'", cwd="/repo")
    report["checks"] = results
    report["detected_by"] = [c for c, r in results.items() if r["exit"] == 1]
    # 4. keep it
    keep = os.path.join(ROOT, "seeded", name)
    os.makedirs(keep, exist_ok=True)
    shutil.copy(patch, os.path.join(keep, "patch.diff"))
    for d in demos:
        shutil.copy(d, os.path.join(keep, os.path.basename(d) + ".txt" if d.endswith(".go") else os.path.basename(d)))
    notes = os.path.join(mdir, "notes.md")
    if os.path.exists(notes):
        shutil.copy(notes, os.path.join(keep, "notes.md"))
    report["what_it_needs"] = open(notes).read() if os.path.exists(notes) else ""
    report["what_was_run"] = ["go build ./... && go test ./... (worktree, with change)", "demo with / without change (worktree)",
                              "git -C /repo apply patch.diff; ./check <id> %s; git -C /repo checkout -- ." % tier]
    report["demo_package_dir"] = pkgdir
    with open(os.path.join(keep, "meta.json"), "w") as f:
        json.dump(report, f, indent=1)
    print(json.dumps({k: report[k] for k in ("builds_and_passes_suite", "demo_fails_with_change", "demo_passes_without_change", "detected_by")}))


if __name__ == "__main__":
    main()
