#!/usr/bin/env python3
"""tools/regress_mutants.py [names...]

Re-runs every stored seeded change (seeded/<name>/patch.diff) against the current checks: the patch is applied to the
repository named by VERIF_REPO (default /repo; must be clean), the property's quick check is run, the patch is undone.
Prints one line per mutant: detected (exit 1) / MISSED (exit 0) / broken (exit 2) / n/a (patch no longer applies: the
code it changed was repaired since).  Exit 1 if any applicable mutant is not detected.  Nothing is committed."""
import json
import os
import re
import subprocess
import sys

ROOT = os.path.dirname(os.path.dirname(os.path.abspath(__file__)))
REPO = os.environ.get("VERIF_REPO", "/repo")


def sh(cmd, cwd=None):
    p = subprocess.run(cmd, shell=True, cwd=cwd, stdout=subprocess.PIPE, stderr=subprocess.STDOUT, text=True)
    return p.returncode, p.stdout


def main():
    names = sys.argv[1:] or sorted(d for d in os.listdir(os.path.join(ROOT, "seeded")) if os.path.isdir(os.path.join(ROOT, "seeded", d)))
    code, out = sh("git status --short", cwd=REPO)
    if out.strip():
        sys.exit("%s is not clean:\n%s" % (REPO, out))
    bad = 0
    for n in names:
        d = os.path.join(ROOT, "seeded", n)
        patch = os.path.join(d, "patch.diff")
        meta = json.load(open(os.path.join(d, "meta.json"))) if os.path.exists(os.path.join(d, "meta.json")) else {}
        prop = meta.get("property", n[:3])
        if meta.get("neutralised"):
            print("%-6s %-4s n/a (neutralised: %s)" % (n, prop, meta["neutralised"][:90]), flush=True)
            continue
        code, _ = sh("git apply --check %s" % patch, cwd=REPO)
        if code != 0:
            print("%-6s %-4s n/a (patch does not apply to the current tree)" % (n, prop), flush=True)
            continue
        sh("git apply %s" % patch, cwd=REPO)
        try:
            # the property's own check - unless the stored result says that another check is the one that sees this change
            # (a change outside the property's statement: the growth specification, or a neighbouring property)
            det = meta.get("detected_by") or [prop]
            target = prop if prop in det else det[0]
            code, out = sh("./check growth" if target == "growth" else "./check %s quick" % target, cwd=ROOT)
        finally:
            sh("git checkout -- . && git clean -fdq", cwd=REPO)
        whys = sorted(set(re.findall(r"violation: (.*)", out) + re.findall(r"^DEVIATION (.*?) vector=", out, re.M)))
        verdict = {1: "detected", 0: "MISSED", 2: "broken"}.get(code, "exit %d" % code)
        if code != 1:
            bad += 1
        print("%-6s %-4s %-8s %s" % (n, prop, verdict, (whys[0][:110] if whys else "")), flush=True)
    sys.exit(1 if bad else 0)


if __name__ == "__main__":
    main()
